"""Tables for C18/C19 regenerated from /repo (called from extract_tables.py).

Generated/ValidateLits.lean
  * direction literals of DTM / NTM `_validate_transition_result_direction`
  * acceptance-mode literals of PDA `_validate_acceptance`
  * the extra characters GNFA allows in a label
  * raise sites: (class, method, [exception classes raised in source order]) for every
    `_validate*` / `_read_input_symbol_subset` / `validate` / `__setattr__` / `__delattr__`
  * validate call order: (class, [self.<method> calls of validate() in source order])
  * which attributes `Automaton.__init__` / subclasses pass to `super().__init__`
  * body shape facts of automaton.py used by C18: input_parameters filters on
    startswith("_"), copy() = self.__class__(**self.input_parameters), __getstate__ /
    __setstate__ go through input_parameters / __init__
Pure `ast`; deterministic output.
"""
from __future__ import annotations

import ast
import json

CLASSES = [
    ("automata/base/automaton.py", "Automaton"),
    ("automata/fa/fa.py", "FA"),
    ("automata/fa/dfa.py", "DFA"),
    ("automata/fa/nfa.py", "NFA"),
    ("automata/fa/gnfa.py", "GNFA"),
    ("automata/pda/pda.py", "PDA"),
    ("automata/pda/dpda.py", "DPDA"),
    ("automata/pda/npda.py", "NPDA"),
    ("automata/tm/tm.py", "TM"),
    ("automata/tm/dtm.py", "DTM"),
    ("automata/tm/ntm.py", "NTM"),
    ("automata/tm/mntm.py", "MNTM"),
]


def lean_str(s: str) -> str:
    return json.dumps(s, ensure_ascii=False)


def lean_list(xs) -> str:
    return "[" + ", ".join(lean_str(x) for x in xs) + "]"


def find_class(tree, cls):
    for node in tree.body:
        if isinstance(node, ast.ClassDef) and node.name == cls:
            return node
    return None


def methods(cnode):
    return [it for it in cnode.body if isinstance(it, ast.FunctionDef)]


def exc_name(node) -> str:
    """Name of the exception class in `raise X(...)` / `raise mod.X(...)`."""
    if isinstance(node, ast.Call):
        node = node.func
    if isinstance(node, ast.Attribute):
        return node.attr
    if isinstance(node, ast.Name):
        return node.id
    return "?"


def ordered_walk(node):
    """Pre-order walk in source order."""
    yield node
    for ch in ast.iter_child_nodes(node):
        yield from ordered_walk(ch)


def raises_of(fn):
    return [exc_name(n.exc) for n in ordered_walk(fn) if isinstance(n, ast.Raise) and n.exc is not None]


def self_calls_of(fn):
    out = []
    for n in ordered_walk(fn):
        if isinstance(n, ast.Call) and isinstance(n.func, ast.Attribute):
            v = n.func.value
            if isinstance(v, ast.Name) and v.id == "self":
                out.append(n.func.attr)
            elif isinstance(v, ast.Call) and isinstance(v.func, ast.Name) and v.func.id == "super":
                out.append("super." + n.func.attr)
    return out


def not_in_tuple_literals(fn):
    """String literals of the first `x not in (<consts>)` comparison of fn."""
    for n in ordered_walk(fn):
        if isinstance(n, ast.Compare) and n.ops and isinstance(n.ops[0], ast.NotIn):
            comp = n.comparators[0]
            if isinstance(comp, (ast.Tuple, ast.List, ast.Set)):
                vals = [c.value for c in comp.elts if isinstance(c, ast.Constant) and isinstance(c.value, str)]
                if vals:
                    return vals
    return []


def _const_in_self_attr(test):
    """`<const> in self.<attr>` → "<const> in self.<attr>", else None."""
    if isinstance(test, ast.Compare) and len(test.ops) == 1 and isinstance(test.ops[0], ast.In) \
            and isinstance(test.left, ast.Constant):
        comp = test.comparators[0]
        if isinstance(comp, ast.Attribute) and isinstance(comp.value, ast.Name) and comp.value.id == "self":
            return f"{test.left.value!r} in self.{comp.attr}"
    return None


def stmt_shape(st) -> str:
    """One top-level statement of a validate method, as a short descriptor:
    `if <const> in self.<attr> [or <const> in self.<attr> …]: raise <Exc>`, `self.<method>()`,
    `for`, or the node type."""
    if isinstance(st, ast.If) and len(st.body) == 1 and isinstance(st.body[0], ast.Raise) and not st.orelse:
        tests = st.test.values if isinstance(st.test, ast.BoolOp) and isinstance(st.test.op, ast.Or) else [st.test]
        parts = [_const_in_self_attr(t) for t in tests]
        if all(p is not None for p in parts):
            return f"if {' or '.join(parts)}: raise {exc_name(st.body[0].exc)}"
    if isinstance(st, ast.Expr) and isinstance(st.value, ast.Call) and isinstance(st.value.func, ast.Attribute):
        v = st.value.func.value
        if isinstance(v, ast.Name) and v.id == "self":
            return f"self.{st.value.func.attr}()"
        if isinstance(v, ast.Call) and isinstance(v.func, ast.Name) and v.func.id == "super":
            return f"super().{st.value.func.attr}()"
    if isinstance(st, ast.For):
        return "for"
    return type(st).__name__


def body_shape(fn):
    body = list(fn.body)
    if body and isinstance(body[0], ast.Expr) and isinstance(body[0].value, ast.Constant) \
            and isinstance(body[0].value.value, str):
        body = body[1:]  # docstring
    return [stmt_shape(st) for st in body]


def super_init_kwargs(cnode):
    """keyword names passed to super().__init__(…) / super(X, self).__init__(…) in __init__."""
    for fn in methods(cnode):
        if fn.name == "__init__":
            for n in ordered_walk(fn):
                if (isinstance(n, ast.Call) and isinstance(n.func, ast.Attribute) and n.func.attr == "__init__"
                        and isinstance(n.func.value, ast.Call) and isinstance(n.func.value.func, ast.Name)
                        and n.func.value.func.id == "super"):
                    return [k.arg for k in n.keywords if k.arg is not None]
    return None


def gen_validate_lits(parse) -> str:
    trees = {cls: (rel, parse(rel)) for rel, cls in CLASSES}
    nodes = {cls: find_class(t, cls) for cls, (rel, t) in trees.items()}
    out = [
        "/- GENERATED by harness/extract_misc.py from the automaton classes — do not edit. -/",
        "namespace AV.Gen.Validate",
        "",
    ]

    def lits(cls, meth):
        for fn in methods(nodes[cls]):
            if fn.name == meth:
                return not_in_tuple_literals(fn)
        return []

    out.append("/-- `result_direction not in (…)` of DTM / NTM `_validate_transition_result_direction`. -/")
    out.append("def dtmDirections : List String := " + lean_list(lits("DTM", "_validate_transition_result_direction")))
    out.append("def ntmDirections : List String := " + lean_list(lits("NTM", "_validate_transition_result_direction")))
    out.append("")
    out.append("/-- `acceptance_mode not in (…)` of PDA `_validate_acceptance`. -/")
    out.append("def pdaAcceptanceModes : List String := " + lean_list(lits("PDA", "_validate_acceptance")))
    out.append("")
    # GNFA label characters: the set literal in _validate_transition_invalid_symbols
    extra = []
    for fn in methods(nodes["GNFA"]):
        if fn.name == "_validate_transition_invalid_symbols":
            for n in ordered_walk(fn):
                if isinstance(n, ast.Set):
                    extra = [c.value for c in n.elts if isinstance(c, ast.Constant) and isinstance(c.value, str)]
                    break
    out.append("/-- characters GNFA labels may use besides the input symbols. -/")
    out.append("def gnfaLabelExtra : List String := " + lean_list(extra))
    out.append("")
    # raise sites
    out.append("/-- (class, method, exception classes raised, in source order) for the validation")
    out.append("methods and the attribute hooks. -/")
    out.append("def raiseSites : List (String × String × List String) := [")
    rows = []
    for rel, cls in CLASSES:
        for fn in methods(nodes[cls]):
            if (fn.name.startswith("_validate") or fn.name in ("_read_input_symbol_subset", "validate",
                                                                 "__setattr__", "__delattr__", "__post_init__")):
                rows.append(f"  ({lean_str(cls)}, {lean_str(fn.name)}, {lean_list(raises_of(fn))})")
    out.append(",\n".join(rows))
    out.append("]")
    out.append("")
    out.append("/-- (class, exception classes its validation methods can raise — sorted, without repeats).")
    out.append("Deliberately coarser than `raiseSites`: splitting, merging or moving a check inside a class")
    out.append("does not change it; dropping the last raise of a kind, or adding a new kind, does. -/")
    out.append("def raiseKinds : List (String × List String) := [")
    rows = []
    for rel, cls in CLASSES:
        kinds = set()
        for fn in methods(nodes[cls]):
            if fn.name.startswith("_validate") or fn.name in ("_read_input_symbol_subset", "validate"):
                if cls == "Automaton" and fn.name == "validate":
                    continue          # the abstract method (raises NotImplementedError)
                kinds.update(raises_of(fn))
        if kinds:
            rows.append(f"  ({lean_str(cls)}, {lean_list(sorted(kinds))})")
    out.append(",\n".join(rows))
    out.append("]")
    out.append("")
    out.append("/-- (class, methods called on `self` / `super()` by `validate`, in source order). -/")
    out.append("def validateCalls : List (String × List String) := [")
    rows = []
    for rel, cls in CLASSES:
        for fn in methods(nodes[cls]):
            if fn.name in ("validate", "_validate_transitions", "_validate_transition_results",
                           "_validate_transition_invalid_symbols", "__post_init__"):
                name = cls if fn.name == "validate" else f"{cls}.{fn.name}"
                rows.append(f"  ({lean_str(name)}, {lean_list(self_calls_of(fn))})")
    out.append(",\n".join(rows))
    out.append("]")
    out.append("")
    out.append("/-- top-level statements, in source order, of the methods that check the reserved names")
    out.append("(`None` as a state name, the empty string as an input / stack symbol) and of the")
    out.append("`validate` methods that call them. -/")
    out.append("def reservedNameChecks : List (String × List String) := [")
    rows = []
    for cls, meth in (("FA", "_validate_reserved_names"), ("DFA", "validate"), ("NFA", "validate"),
                      ("PDA", "validate")):
        shape = None
        if nodes.get(cls) is not None:
            for fn in methods(nodes[cls]):
                if fn.name == meth:
                    shape = body_shape(fn)
        if shape is not None:
            rows.append(f"  ({lean_str(cls + '.' + meth)}, {lean_list(shape)})")
    out.append(",\n".join(rows))
    out.append("]")
    out.append("")
    out.append("/-- keyword names each class's `__init__` hands to `Automaton.__init__`. -/")
    out.append("def superInitKwargs : List (String × List String) := [")
    rows = []
    for rel, cls in CLASSES:
        kw = super_init_kwargs(nodes[cls])
        if kw is not None:
            rows.append(f"  ({lean_str(cls)}, {lean_list(kw)})")
    out.append(",\n".join(rows))
    out.append("]")
    out.append("")
    # automaton.py shape facts
    auto = nodes["Automaton"]
    facts = {}
    for fn in methods(auto):
        src = ast.dump(fn, annotate_fields=False)
        if fn.name == "input_parameters":
            facts["input_parameters_iterates_slots"] = "__slots__" in src
            facts["input_parameters_skips_underscore"] = "startswith" in src and "'_'" in src
        if fn.name == "copy":
            facts["copy_is_class_of_input_parameters"] = "__class__" in src and "input_parameters" in src
        if fn.name == "__getstate__":
            facts["getstate_returns_input_parameters"] = "input_parameters" in src
        if fn.name == "__setstate__":
            facts["setstate_calls_init"] = "__init__" in src
        if fn.name == "__init__":
            facts["init_freezes_unless_mutable"] = "freeze_value" in src and "allow_mutable_automata" in src
            facts["init_calls_post_init"] = "__post_init__" in src
        if fn.name == "__post_init__":
            facts["post_init_validates_if_option"] = "should_validate_automata" in src and "validate" in src
    out.append("/-- shape facts of automata/base/automaton.py that the C18 model mirrors. -/")
    out.append("def automatonFacts : List (String × Bool) := [")
    out.append(",\n".join(f"  ({lean_str(k)}, {'true' if v else 'false'})" for k, v in sorted(facts.items())))
    out.append("]")
    out.append("")
    # freeze_value: isinstance tests in source order
    utree = parse("automata/base/utils.py")
    # names bound by `from m import X as Y` at module level: Y -> "m.X" (so that an abstract base class
    # the function tests against is named by what it IS, not by its local alias)
    aliases = {}
    for node in utree.body:
        if isinstance(node, ast.ImportFrom) and node.module and node.module.startswith("collections"):
            for a in node.names:
                aliases[a.asname or a.name] = node.module + "." + a.name
    fz = []
    for node in utree.body:
        if isinstance(node, ast.FunctionDef) and node.name == "freeze_value":
            for n in ordered_walk(node):
                tys = _isinstance_test(n.test, aliases) if isinstance(n, ast.If) else None
                if tys is not None:
                    ret = "?"
                    for st in n.body:
                        if isinstance(st, ast.Return):
                            v = st.value
                            if isinstance(v, ast.Name):
                                ret = "same"
                            elif isinstance(v, ast.Call):
                                ret = getattr(v.func, "id", "?")
                                # recursion marker: does the body call freeze_value?
                                rec = any(isinstance(c, ast.Call) and getattr(c.func, "id", "") == "freeze_value"
                                          for c in ast.walk(v))
                                ret += "+rec" if rec else "+norec"
                    fz.append((",".join(tys), ret))
    out.append("/-- `freeze_value`: (isinstance types, what is returned) per branch, in source order. -/")
    out.append("def freezeBranches : List (String × String) := [")
    out.append(",\n".join(f"  ({lean_str(a)}, {lean_str(b)})" for a, b in fz))
    out.append("]")
    out.append("")
    out.append("end AV.Gen.Validate")
    out.append("")
    return "\n".join(out)


def _isinstance_test(test, aliases=None):
    """The types of an `isinstance(value, T)` / `isinstance(value, (T1, T2))` test; a conjunction
    `isinstance(value, T) and not isinstance(value, U)` reads `T&!U`; None when the test is
    anything else.  Names imported under an alias are resolved through `aliases`."""
    aliases = aliases or {}

    def name(e):
        i = getattr(e, "id", "?")
        return aliases.get(i, i)

    def one(call):
        if isinstance(call, ast.Call) and getattr(call.func, "id", "") == "isinstance" and len(call.args) == 2:
            ty = call.args[1]
            return [name(e) for e in ty.elts] if isinstance(ty, ast.Tuple) else [name(ty)]
        return None
    pos = one(test)
    if pos is not None:
        return pos
    if isinstance(test, ast.BoolOp) and isinstance(test.op, ast.And):
        parts = []
        for v in test.values:
            neg = isinstance(v, ast.UnaryOp) and isinstance(v.op, ast.Not)
            t = one(v.operand if neg else v)
            if t is None:
                return None
            parts.append(("!" if neg else "") + ",".join(t))
        return ["&".join(parts)]
    return None


# ------------------------------------------------------------------ documented exceptions
# Per-method table of the exception classes the *documentation* names: the numpy-style
# "Raises" section of the method docstring; for a wrapper without such a section
# (`__len__` → `cardinality`, `read_input` → `read_input_stepwise`, `__or__` → `union`, …) the
# union over the methods it calls on `self` / `cls` / `super()`, minus what it catches.
DOC_FILES = [
    "automata/base/automaton.py", "automata/fa/fa.py", "automata/fa/dfa.py", "automata/fa/nfa.py",
    "automata/fa/gnfa.py", "automata/pda/pda.py", "automata/pda/dpda.py", "automata/pda/npda.py",
    "automata/tm/tm.py", "automata/tm/dtm.py", "automata/tm/ntm.py", "automata/tm/mntm.py",
]


def raises_section(doc):
    """Exception names of the "Raises" section of a numpy-style docstring, or None when the
    docstring has no such section."""
    if not doc:
        return None
    lines = doc.splitlines()
    for i, line in enumerate(lines):
        if line.strip() == "Raises" and i + 1 < len(lines) and lines[i + 1].strip() \
                and set(lines[i + 1].strip()) == {"-"}:
            ind = len(line) - len(line.lstrip())
            out = []
            j = i + 2
            while j < len(lines):
                cur = lines[j]
                if cur.strip():
                    cind = len(cur) - len(cur.lstrip())
                    if cind < ind:
                        break
                    if cind == ind:
                        if j + 1 < len(lines) and lines[j + 1].strip() and set(lines[j + 1].strip()) == {"-"}:
                            break  # next section header
                        out.append(cur.strip().split(".")[-1])
                j += 1
            return out
    return None


def _calls_with_caught(fn):
    """[(kind, method, caught exception names)] for calls `self.m()` / `cls.m()` (kind "self")
    and `super().m()` (kind "super") in source order; `caught` = exception classes of the
    enclosing `try … except` handlers (plus RejectionException for ignore_rejection=True)."""
    out = []

    def visit(node, caught):
        if isinstance(node, ast.Try):
            names = set()
            for h in node.handlers:
                ts = h.type.elts if isinstance(h.type, ast.Tuple) else ([h.type] if h.type is not None else [])
                for t in ts:
                    names.add(exc_name(t))
                if h.type is None:
                    names.add("BaseException")
            for ch in node.body:
                visit(ch, caught | names)
            for ch in node.handlers + node.orelse + node.finalbody:
                visit(ch, caught)
            return
        if isinstance(node, ast.Call) and isinstance(node.func, ast.Attribute):
            v = node.func.value
            extra = set()
            for k in node.keywords:
                if k.arg == "ignore_rejection" and isinstance(k.value, ast.Constant) and k.value.value is True:
                    extra.add("RejectionException")
            if isinstance(v, ast.Name) and v.id in ("self", "cls"):
                out.append(("self", node.func.attr, sorted(caught | extra)))
            elif isinstance(v, ast.Call) and isinstance(v.func, ast.Name) and v.func.id == "super":
                out.append(("super", node.func.attr, sorted(caught | extra)))
        for ch in ast.iter_child_nodes(node):
            visit(ch, caught)

    for st in fn.body:
        visit(st, frozenset())
    return out


def documented_raises(parse) -> dict:
    """{"bases": {cls: [base names]}, "methods": {"Cls.meth": {"raises": [names] | None,
    "has_doc": bool, "calls": [[kind, meth, [caught]]]}}} for every class of DOC_FILES."""
    bases, meths = {}, {}
    for rel in DOC_FILES:
        try:
            tree = parse(rel)
        except FileNotFoundError:
            continue
        for c in tree.body:
            if not isinstance(c, ast.ClassDef):
                continue
            bases[c.name] = [exc_name(b) for b in c.bases]
            for fn in c.body:
                if isinstance(fn, (ast.FunctionDef, ast.AsyncFunctionDef)):
                    doc = ast.get_docstring(fn)
                    meths[f"{c.name}.{fn.name}"] = dict(raises=raises_section(doc), has_doc=doc is not None,
                                                       calls=[list(x) for x in _calls_with_caught(fn)])
    return dict(bases=bases, methods=meths)


def _mro(table, cls):
    out = []

    def go(c):
        if c in out or c not in table["bases"]:
            return
        out.append(c)
        for b in table["bases"][c]:
            go(b)
    go(cls)
    return out


def doc_closure(table, cls: str, meth: str, _seen=None, _after=None):
    """Documented exception classes of `cls.meth` (sorted list of names)."""
    _seen = _seen if _seen is not None else set()
    mro = _mro(table, cls)
    if _after is not None and _after in mro:
        mro_from = mro[mro.index(_after) + 1:]
    else:
        mro_from = mro
    owner = next((c for c in mro_from if f"{c}.{meth}" in table["methods"]), None)
    if owner is None or (owner, meth, cls) in _seen:
        return []
    _seen = _seen | {(owner, meth, cls)}
    m = table["methods"][f"{owner}.{meth}"]
    if m["raises"] is not None:
        return sorted(set(m["raises"]))
    if not m["has_doc"]:
        # an undocumented override (GNFA.read_input_stepwise: "dummy implementation"): what the
        # overridden method documents
        for c in mro_from[mro_from.index(owner) + 1:]:
            mm = table["methods"].get(f"{c}.{meth}")
            if mm is not None and mm["raises"] is not None:
                return sorted(set(mm["raises"]))
    out = set()
    for kind, name, caught in m["calls"]:
        sub = doc_closure(table, cls, name, _seen, owner if kind == "super" else None)
        out |= {x for x in sub if x not in caught}
    return sorted(out)


def write_all(write_if_changed, parse):
    changed = []
    if write_if_changed("ValidateLits.lean", gen_validate_lits(parse)):
        changed.append("ValidateLits.lean")
    import extract_object  # sibling module (C18): Generated/ObjectProtocol.lean
    if write_if_changed("ObjectProtocol.lean", extract_object.gen_object_protocol(parse)):
        changed.append("ObjectProtocol.lean")
    return changed
