"""Replays that stand on their own (round 3).

A property about INPUTS is also violated when the library gives a wrong answer only because of what was called
before in the same process (a cache, a counter that is not reset, state left behind by an exception).  The
ops modules find such failures in the middle of a long run; a replay that records the failing case alone then
holds when it is re-run in a fresh process.  This module makes sure that the failure `harness/run.py` is
going to print (the one with the shortest replay) fails as the first thing a fresh interpreter does, and
otherwise turns its replay into recorded calls of the run followed by the case:

* the ops module keeps a log `calls` of every library call (or whole case) it makes, in order, as replayable
  steps, and defines `judge_program_json(text)` = run a list of steps through the real library, return the
  failures;
* `confirm_fresh(module, steps)` re-runs steps in a FRESH interpreter with the same PYTHONPATH (the same
  library tree);
* `settle_replays` looks for a history among the recorded calls — the last related ones (same alphabet / same
  expression), all related ones, everything — and delta-debugs the one that will be printed down to a few calls.

The time spent in fresh interpreters is bounded per run (`T_BUDGET`); it is only spent on trees where the
property fails.
"""
from __future__ import annotations

import json
import subprocess
import sys
import time
from typing import Any, Callable, List, Optional, Set

from harness.common import VERIF, jsonable

T_BUDGET = 100.0        # seconds of fresh-interpreter time per run; afterwards confirm_fresh answers None
_spent = 0.0


def confirm_fresh(module: str, steps: List[dict], timeout: int = 120) -> Optional[bool]:
    """True = some step fails in a fresh interpreter too, False = every step is right there (the failure needs more
    history than `steps` records), None = no verdict (child crashed / timed out / time budget of the run used up)."""
    global _spent
    if _spent > T_BUDGET:
        return None
    code = ("import sys; from harness.ops import %s as M; "
            "sys.exit(3 if M.judge_program_json(sys.stdin.read()) else 0)" % module)
    t0 = time.time()
    try:
        p = subprocess.run([sys.executable, "-c", code], input=json.dumps(jsonable(steps)), text=True, cwd=VERIF,
                           stdout=subprocess.PIPE, stderr=subprocess.PIPE, timeout=timeout)
        rc = p.returncode
    except subprocess.TimeoutExpired:
        rc = None
    _spent += time.time() - t0
    return True if rc == 3 else (False if rc == 0 else None)


def shrink(module: str, hist: List[dict], tail: List[dict], budget: int = 40) -> List[dict]:
    """Delta-debugging of a history after which `tail` fails in a fresh interpreter: drop chunks of calls (halves,
    quarters, …, single calls) as long as the rest still fails there; at most `budget` interpreter starts."""
    chunk = max(len(hist) // 2, 1)
    while hist and budget > 0:
        i = 0
        while i < len(hist) and budget > 0:
            cand = hist[:i] + hist[i + chunk:]
            budget -= 1
            if confirm_fresh(module, cand + tail, timeout=90) is True:
                hist = cand
            else:
                i += chunk
        if chunk == 1:
            break
        chunk = max(chunk // 2, 1)
    return hist


def settle_replays(ctx, module: str, calls: List[dict], as_step: Callable[[dict], dict],
                   keys_of: Callable[[dict], Set[Any]], make_replay: Callable[[List[dict], dict, int], dict],
                   rounds: int = 4):
    """`calls` = the module's log.  A failure record may carry `_calls` = len(calls) right after its own calls and
    `_tail` = its own steps (a program of calls); without `_tail` the failure is a single case and
    `as_step(replay)` is its step.  `keys_of(step)` = what a cache could be keyed by (alphabets, expression
    texts): calls sharing a key with the failing steps are tried first as history.
    `make_replay(steps, old_replay, n_history)` builds the replay of a history + the failing steps."""
    def size(f):
        return len(json.dumps(f["replay"], default=repr))

    def unknown():
        return [f for f in ctx.prop_fails if f["key"] is None]

    def prepare(f):
        if "_tail0" not in f:
            f["_tail0"] = jsonable(f.get("_tail") or [as_step(f["replay"])])
            f["_replay0"], f["_what0"] = f["replay"], f["what"]
            end = f.get("_calls", len(calls) + len(f["_tail0"])) - len(f["_tail0"])
            f["_log"] = calls[:max(end, 0)]

    def set_history(f, hist, confirmed):
        f["_hist"], f["_confirmed"], f["_done"] = hist, confirmed, True
        f["replay"] = make_replay(jsonable(hist) + f["_tail0"], f["_replay0"], len(hist))
        f["what"] = f["_what0"] + (f" — after {len(hist)} earlier call(s) of this run" if confirmed else
                                   f" — observed in this run after {len(hist)} recorded call(s); not confirmed in a fresh interpreter")

    def find_history(f, try_all: bool):
        tail, log = f["_tail0"], f["_log"]
        keys = set().union(*[keys_of(t) for t in tail]) if tail else set()
        rel = [c for c in log if keys_of(c) & keys]
        tried: List[List[dict]] = []
        for cand in [rel[-1:], rel[-4:], rel] + ([log] if try_all else []):
            if cand in tried:
                continue
            tried.append(cand)
            if confirm_fresh(module, cand + tail) is True:
                return cand
        return None

    noted = False
    for n in range(rounds + 1):
        fs = unknown()
        if not fs:
            return
        f = min(fs, key=size)
        if f.get("_done"):
            break
        if n == rounds:
            # still an unsettled failure in front after `rounds` history-dependent ones: only failures whose replay
            # has been dealt with stay listed (the count of observed failures is kept)
            dropped = [g for g in fs if not g.get("_done")]
            ctx.prop_fails[:] = [g for g in ctx.prop_fails if g["key"] is not None or g.get("_done")]
            ctx.note(f"{len(dropped)} further failing case(s) of this run are not listed: they would need their call "
                     f"history as replay and were not re-run in a fresh interpreter")
            break
        prepare(f)
        if confirm_fresh(module, f["_tail0"]) is True:
            f["_done"] = f["_first"] = True
            return
        ctx.stat("failure_depends_on_call_history")
        if not noted:
            noted = True
            ctx.note("a failing case of this run does not fail as the first call(s) of a fresh interpreter: it depends on the "
                     "calls made before it; such replays are recorded calls of the run followed by the case")
        hist = find_history(f, try_all=(n == 0))
        if hist is None:
            set_history(f, f["_log"], False)
            ctx.stat("history_failure_not_confirmed_fresh")
        else:
            set_history(f, hist, True)
    # the failure that will be printed: confirm it if that has not happened yet, then make its history small
    f = min(unknown(), key=size)
    if "_hist" in f:
        if not f["_confirmed"] and confirm_fresh(module, f["_hist"] + f["_tail0"]) is True:
            set_history(f, f["_hist"], True)
        if f["_confirmed"] and len(f["_hist"]) > 1:
            set_history(f, shrink(module, f["_hist"], f["_tail0"]), True)
            ctx.stat("history_replay_shrunk_to", len(f["_hist"]))
