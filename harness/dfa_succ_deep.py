"""C14, round 6 — DEEP successor searches: start strings and answers of 1200–3000 symbols.

The property quantifies over every DFA, every start string and every length window; nothing bounds the LENGTH of
the words involved.  The other generators of C14 never leave words of ≤ 8 symbols (their oracle enumerates Σ^≤hi
by brute force), so a traversal that is only correct while its words are short — a recursive walk (Python's
recursion limit: depth ≈ 990), one frame / one stack copy per symbol, a quadratic re-join of the prefix — passes
all of them.  This module describes deep languages by a small JSON-able *spec* from which

  (a) the real DFA is built through the library's own constructors (`DeepSuccLang.build`), and
  (b) the answer of every successor search is known in CLOSED FORM from the construction (`expected`), so neither
      the library nor the Lean model is needed to judge an answer (the model's driver would need minutes at these
      sizes: nothing is sent to it).

Words are written run-length encoded: [[unit, reps], …] stands for unit*reps + …  (`word`).

spec kinds
    finite_language  syms, words = [rle, …]            DFA.from_finite_language(set(syms), {…})
    of_length        syms, lo, hi (None: unbounded)    DFA.of_length(set(syms), min_length=lo, max_length=hi)
    chain            syms, n, pat, finals, back, branch, trap — hand-written DFA: spine 0 → 1 → … → n, the edge out
                     of spine state p is labelled pat[p % len(pat)]; finals ⊆ {0..n}; back = t: an extra edge n → t
                     (a cycle of n-t+1 states at the end of the chain); branch = [j, s, L]: a side branch of L edges
                     labelled s leaving spine state j whose last state is final; trap: completed with a trap state
    blocks           syms = [x, y], trap               the 2-state (+trap) DFA of x*y* (shallow automaton, deep words)

Oracle.  The window set (accepted words with lo ≤ |w| ≤ hi) of a finite_language / chain / blocks spec is a short
explicit list (`window_words`: at most two words per length for a chain, k+1 for blocks — asked for narrow windows
only); the answer is its sorted filter, computed with `str.translate` to rank characters and plain string
comparison (no code shared with harness/dfa_query_lib.key_lex or with the library).  For of_length over ≥ 2 symbols
the window set is Σ^[A,B] (2^3000 words): `next_in_all` / `prev_in_all` give the least word above / the greatest word
below a start string in Σ^[A,B] directly (increment / decrement with carry, padded to the minimum length).
`selftest` compares both closed forms with a brute-force sorted filter over itertools.product on every small
instance; ops/C14.py additionally runs every case template at a scaled-down size against the brute-force oracle
through the real accepts_input.
"""
from __future__ import annotations

import itertools
from typing import List, Optional

from automata.fa.dfa import DFA


def word(rle) -> Optional[str]:
    return None if rle is None else "".join(u * r for u, r in rle)


def short(x, limit: int = 70) -> str:
    """Answers are words of thousands of symbols: show them abbreviated."""
    def one(v):
        if isinstance(v, str) and len(v) > 24:
            return f"<{len(v)} symbols {v[:6]!r}…{v[-6:]!r}>"
        if isinstance(v, (list, tuple)):
            body = ", ".join(one(e) for e in v[:6]) + (", …" if len(v) > 6 else "")
            return ("[" + body + "]") if isinstance(v, list) else ("(" + body + ")")
        return repr(v)
    return one(x)


def show_rle(rle) -> str:
    if rle is None:
        return "None"
    if not rle:
        return "''"
    return "+".join((f"{u!r}*{r}" if r != 1 else repr(u)) for u, r in rle)


class DeepSuccLang:
    def __init__(self, spec: dict):
        self.spec = spec
        self.kind = spec["kind"]
        self.syms = sorted(spec["syms"])
        if self.kind == "finite_language":
            self.wordset = sorted({word(r) for r in spec["words"]})
        elif self.kind == "chain":
            self.n, self.t = spec["n"], spec["back"]
            self.c = (self.n - self.t + 1) if self.t is not None else None
            self.fin = set(spec["finals"])
            self.br = tuple(spec["branch"]) if spec["branch"] is not None else None
        elif self.kind not in ("of_length", "blocks"):
            raise ValueError(f"unknown deep spec kind {self.kind}")

    # ------------------------------------------------------------------ the real object
    def build(self) -> DFA:
        s = self.spec
        al = set(s["syms"])
        if self.kind == "of_length":
            return DFA.of_length(al, min_length=s["lo"], max_length=s["hi"])
        if self.kind == "finite_language":
            return DFA.from_finite_language(al, {word(r) for r in s["words"]})
        if self.kind == "blocks":
            x, y = s["syms"]
            if s["trap"]:
                return DFA(states={"X", "Y", "T"}, input_symbols=al,
                           transitions={"X": {x: "X", y: "Y"}, "Y": {x: "T", y: "Y"}, "T": {x: "T", y: "T"}},
                           initial_state="X", final_states={"X", "Y"})
            return DFA(states={"X", "Y"}, input_symbols=al, transitions={"X": {x: "X", y: "Y"}, "Y": {y: "Y"}},
                       initial_state="X", final_states={"X", "Y"}, allow_partial=True)
        n = s["n"]
        trans = {p: {self._label(p): p + 1} for p in range(n)}
        trans[n] = {self._label(n): s["back"]} if s["back"] is not None else {}
        finals = set(s["finals"])
        states = set(range(n + 1))
        if s["branch"] is not None:
            j, sym, ln = s["branch"]
            prev = j
            for i in range(ln):
                q = n + 1 + i
                states.add(q)
                trans[prev] = dict(trans[prev], **{sym: q})
                trans[q] = {}
                prev = q
            finals.add(prev)
        if s.get("trap"):
            states.add("T")
            trans["T"] = {}
            for q in states:
                for a in al:
                    trans[q].setdefault(a, "T")
            return DFA(states=states, input_symbols=al, transitions=trans, initial_state=0, final_states=finals)
        return DFA(states=states, input_symbols=al, transitions=trans, initial_state=0, final_states=finals,
                   allow_partial=True)

    def expr(self) -> str:
        s = self.spec
        al = "{" + ",".join(repr(a) for a in self.syms) + "}"
        if self.kind == "of_length":
            return f"DFA.of_length({al}, min_length={s['lo']}, max_length={s['hi']})"
        if self.kind == "finite_language":
            return f"DFA.from_finite_language({al}, {{{', '.join(show_rle(r) for r in s['words'])}}})"
        if self.kind == "blocks":
            x, y = s["syms"]
            return f"the {'complete 3-state' if s['trap'] else 'partial 2-state'} DFA of {x}*{y}* over {al}"
        extra = ""
        if s["back"] is not None:
            extra += f", extra edge {s['n']} -> {s['back']} (a cycle of {s['n'] - s['back'] + 1} states)"
        if s["branch"] is not None:
            j, sym, ln = s["branch"]
            extra += f", side branch of {ln} {sym!r}-edges from state {j} ending in a final state"
        if s.get("trap"):
            extra += ", completed with a trap state"
        return (f"DFA over {al}: chain 0 -> 1 -> ... -> {s['n']} (edge out of p labelled {s['pat']!r}[p % {len(s['pat'])}]), "
                f"final spine states {s['finals']}{extra}")

    # ------------------------------------------------------------------ chain helpers
    def _label(self, p: int) -> str:
        pat = self.spec["pat"]
        return pat[p % len(pat)]

    def _pos(self, i: int) -> Optional[int]:
        if i <= self.n:
            return i
        if self.t is None:
            return None
        return self.t + (i - self.t) % self.c

    def _spine(self, length: int) -> str:
        pat = self.spec["pat"]
        if length <= self.n + 1 or self.t is None:
            return (pat * (length // len(pat) + 1))[:length]
        return "".join(self._label(self._pos(i)) for i in range(length))

    def _chain_words(self, k: int) -> List[str]:
        out = []
        p = self._pos(k)
        if p is not None and p in self.fin:
            out.append(self._spine(k))
        if self.br is not None:
            j, sym, ln = self.br
            if k >= ln and k - ln <= self.n and k - ln == j:
                out.append(self._spine(j) + sym * ln)
            elif k >= ln and k - ln > self.n and self._pos(k - ln) == j:
                out.append(self._spine(k - ln) + sym * ln)
        return out

    # ------------------------------------------------------------------ closed forms
    def finite(self) -> bool:
        if self.kind == "of_length":
            return self.spec["hi"] is not None
        if self.kind == "finite_language":
            return True
        if self.kind == "blocks":
            return False
        if self.t is None:
            return True
        cyc = set(range(self.t, self.n + 1))
        return not (self.fin & cyc or (self.br is not None and self.br[0] in cyc))

    def max_len(self) -> Optional[int]:
        """Longest word of a finite language (None: infinite or empty)."""
        if not self.finite():
            return None
        if self.kind == "of_length":
            return self.spec["hi"]
        if self.kind == "finite_language":
            return max((len(w) for w in self.wordset), default=None)
        top = [p for p in self.fin]
        if self.br is not None:
            top.append(self.br[0] + self.br[2])
        return max(top, default=None)

    def dense(self) -> bool:
        """Is the window set too large to write down (all words over ≥ 2 symbols)?"""
        return self.kind == "of_length" and len(self.syms) >= 2

    def window_words(self, lo: int, hi: int) -> List[str]:
        """Explicit list of the accepted words with lo ≤ |w| ≤ hi (not for dense languages)."""
        if self.kind == "finite_language":
            return [w for w in self.wordset if lo <= len(w) <= hi]
        if self.kind == "of_length":
            a = self.syms[0]
            A = max(lo, self.spec["lo"])
            B = hi if self.spec["hi"] is None else min(hi, self.spec["hi"])
            return [a * k for k in range(A, B + 1)]
        if self.kind == "blocks":
            x, y = self.spec["syms"]
            return [x * i + y * (k - i) for k in range(lo, hi + 1) for i in range(k + 1)]
        out = []
        for k in range(lo, hi + 1):
            p = self._pos(k)
            if (p is not None and p in self.fin) or self.br is not None:
                out.extend(self._chain_words(k))
        return out

    def member(self, w: str) -> bool:
        if any(a not in self.syms for a in w):
            return False
        if self.kind == "of_length":
            return self.spec["lo"] <= len(w) and (self.spec["hi"] is None or len(w) <= self.spec["hi"])
        if self.kind == "finite_language":
            return w in self.wordset
        if self.kind == "blocks":
            x, y = self.spec["syms"]
            return w == x * w.count(x) + y * w.count(y)
        return w in self._chain_words(len(w))


# ---------------------------------------------------------------------- ranking by str.translate
def ranker(key: dict):
    """word ↦ a string whose code-point order is the key-lexicographic order of the word."""
    order = sorted(key, key=lambda c: key[c])
    table = {ord(c): chr(0x21 + i) for i, c in enumerate(order)}      # ASCII → ASCII: the fast path of str.translate
    return lambda w: w.translate(table)


# ---------------------------------------------------------------------- Σ^[A,B]: least word above / greatest word below
def next_in_all(order: List[str], s: Optional[str], strict: bool, A: int, B: int) -> Optional[str]:
    """Least word of Σ^[A,B] that is > s (≥ s when not strict) in the lexicographic order given by `order`
    (s = None: the least word at all)."""
    if A > B:
        return None
    first, last = order[0], order[-1]
    if s is None:
        return first * A
    if not strict and A <= len(s) <= B:
        return s
    if len(s) < B:
        return s + first * max(1, A - len(s))
    t = s[:B].rstrip(last)          # words above s that are no extensions of s[:B]: branch off at the last non-maximal symbol
    if not t:
        return None
    u = t[:-1] + order[order.index(t[-1]) + 1]
    return u + first * max(0, A - len(u))


def prev_in_all(order: List[str], s: Optional[str], strict: bool, A: int, B: int) -> Optional[str]:
    """Greatest word of Σ^[A,B] that is < s (≤ s when not strict); s = None: the greatest word at all."""
    if A > B:
        return None
    first, last = order[0], order[-1]
    if s is None:
        return last * B
    if not strict and A <= len(s) <= B:
        return s
    if len(s) > B:
        return s[:B]                # a proper prefix is smaller, and nothing of length ≤ B lies in between
    cur = s
    while cur:
        t, c = cur[:-1], cur[-1]
        if c != first:
            return t + order[order.index(c) - 1] + last * (B - len(t) - 1)
        if len(t) >= A:
            return t
        cur = t
    return None


# ---------------------------------------------------------------------- what the property dictates
def expected_words(lang: DeepSuccLang, p: dict, n: int):
    """("err", "InfiniteLanguageException") or ("ok", the first n words of the sorted filter of the window set).
    p: start (str or None), strict, key (symbol → int, injective), reverse, min, max."""
    if p["reverse"] and not lang.finite():
        return ("err", "InfiniteLanguageException")
    hi = p["max"]
    if lang.finite():
        top = lang.max_len()
        if top is None:
            return ("ok", [])
        hi = top if hi is None else min(hi, top)
    if hi is None:
        raise ValueError("deep family: forward search on an infinite language needs max_length")
    order = sorted(lang.syms, key=lambda c: p["key"][c])
    if lang.dense():
        A = max(p["min"], lang.spec["lo"])
        B = hi
        step = prev_in_all if p["reverse"] else next_in_all
        out = []
        s, strict = p["start"], p["strict"]
        while len(out) < n:
            w = step(order, s, strict, A, B)
            if w is None:
                break
            out.append(w)
            s, strict = w, True
        return ("ok", out)
    rk = ranker(p["key"])
    W = lang.window_words(p["min"], hi)
    if p["start"] is not None:
        s0 = p["start"]
        ks = rk(s0)
        if p["reverse"]:
            W = [w for w in W if rk(w) < ks or (not p["strict"] and w == s0)]
        else:
            W = [w for w in W if rk(w) > ks or (not p["strict"] and w == s0)]
    W.sort(key=rk, reverse=p["reverse"])
    return ("ok", W[:n])


def expected(lang: DeepSuccLang, p: dict):
    """The observation the property dictates for one call (p["call"] ∈ successors / predecessors / successor /
    predecessor; generators: list(islice(gen, n)))."""
    if p["call"] in ("successors", "predecessors"):
        if p["n"] == 0:
            return ("ok", [])        # a generator that is never advanced raises nothing
        return expected_words(lang, p, p["n"])
    r = expected_words(lang, p, 1)
    if r[0] == "err":
        return r
    return ("ok", r[1][0] if r[1] else None)


# ---------------------------------------------------------------------- self-test of the closed forms (pure Python)
def selftest() -> int:
    """next_in_all / prev_in_all and the translate-ranking against a brute-force sorted filter of Σ^[A,B] built with
    itertools.product, for every small instance.  Returns the number of comparisons; raises AssertionError."""
    n = 0
    for syms in ("ab", "abc"):
        for order in (list(syms), list(reversed(syms))):
            key = {c: i for i, c in enumerate(order)}
            kl = lambda w: [key[c] for c in w]
            universe = ["".join(t) for k in range(0, 4) for t in itertools.product(syms, repeat=k)]
            starts = [None] + universe + ["".join(t) for t in itertools.product(syms, repeat=4)][:: 3]
            for A in range(0, 4):
                for B in range(0, 4):
                    W = [w for w in universe if A <= len(w) <= B]
                    for s in starts:
                        for strict in (True, False):
                            up = sorted([w for w in W if s is None or kl(w) > kl(s) or (not strict and w == s)], key=kl)
                            dn = sorted([w for w in W if s is None or kl(w) < kl(s) or (not strict and w == s)], key=kl,
                                        reverse=True)
                            got_up = next_in_all(order, s, strict, A, B)
                            got_dn = prev_in_all(order, s, strict, A, B)
                            assert got_up == (up[0] if up else None), ("next_in_all", order, s, strict, A, B, got_up, up[:1])
                            assert got_dn == (dn[0] if dn else None), ("prev_in_all", order, s, strict, A, B, got_dn, dn[:1])
                            n += 2
            rk = ranker(key)
            assert sorted(universe, key=rk) == sorted(universe, key=kl), ("ranker", order)
            n += 1
    return n
