"""C07, deep / large instances — NFAs and DFAs with 1100–3000 states on one simple path (symbol steps, steps doubled
by an empty-string move, pure-λ chains and λ cycles of that length, a wide fan-out, a long unreachable component),
described by a small JSON-able *spec* from which (a) the real automaton is built through the library's own
constructors and (b) the language is known in CLOSED FORM from the construction parameters, so a conversion of such an
automaton can be judged without the library's algorithms and without the Lean model (the model's drivers would need
minutes on these sizes; nothing is sent to them).

spec (all fields JSON)
    m, pat      the spine: states 0 … m, the step out of spine state i is labelled pat[i % len(pat)]; P = the spine word
    eps         "none" | "double" (EVERY step i → i+1 goes through a middle state: i -x-> MID+i -λ-> i+1)
                | "third" (every third step does)
    pre         None | ["chain", L] (the initial state is the head of a PURE-λ chain of L states that ends in spine
                state 0) | ["cycle", L] (the initial state lies on a λ CYCLE of L states, one of which has a λ-move to
                spine state 0)
    tail        ["end"]       spine state m is final                                  L = { P }
                ["nth", k]    (a|b)* a (a|b)^(k-1) hangs on spine state m             L = P (a|b)* a (a|b)^(k-1)
                ["loop", c]   extra edge m → m-c+1 (labelled like a spine step), m final: a cycle of c states
                              L = { w : w follows the labels of the walk and the walk is at m after |w| steps }
                ["fan", W]    m -a-> {W states}, each of them -b-> one final state     L = { P a b }
    unreach     U: an UNREACHABLE component of U states (symbol steps, every third one a λ-move, every state final)
                whose last state has edges INTO the reachable part (spine states 0 and m)
    as_dfa      the same automaton as a DFA (only eps = "none", pre = None, tail end / loop); "complete": with a
                trap state that makes the table total (allow_partial=False)

State names are ints (spine i = i, the other groups at fixed offsets), so every name is hashable, comparable and cheap.
Everything here is iterative and linear in the size of the spec.
"""
from __future__ import annotations

import itertools
import json
from typing import List, Optional

from automata.fa.dfa import DFA
from automata.fa.nfa import NFA

MID, PRE, TAIL, FAN, UNR, TRAP = 10 ** 6, 2 * 10 ** 6, 3 * 10 ** 6, 4 * 10 ** 6, 5 * 10 ** 6, 6 * 10 ** 6
SYMS = ["a", "b"]


class DeepNFA:
    def __init__(self, spec: dict):
        self.spec = spec
        self.m = spec["m"]
        self.pat = spec["pat"]
        self.eps = spec.get("eps", "none")
        self.pre = spec.get("pre")
        self.tail = list(spec["tail"])
        self.U = spec.get("unreach", 0)
        self.as_dfa = bool(spec.get("as_dfa"))
        self.complete = bool(spec.get("complete"))
        if self.tail[0] == "loop":
            self.t = self.m - self.tail[1] + 1
            if not 0 <= self.t <= self.m:
                raise ValueError("loop longer than the spine")
        if self.as_dfa and (self.eps != "none" or self.pre or self.tail[0] not in ("end", "loop")):
            raise ValueError("as_dfa: deterministic shapes only")

    # ------------------------------------------------------------------ the spine
    def label(self, i: int) -> str:
        return self.pat[i % len(self.pat)]

    def pos(self, i: int) -> Optional[int]:
        """Spine state after i steps of the walk (None: fallen off the end)."""
        if i <= self.m:
            return i
        if self.tail[0] != "loop":
            return None
        c = self.tail[1]
        return self.t + (i - self.t) % c

    def walk(self, length: int) -> str:
        return "".join(self.label(self.pos(i)) for i in range(length))

    def _doubled(self, i: int) -> bool:
        return self.eps == "double" or (self.eps == "third" and i % 3 == 1)

    # ------------------------------------------------------------------ building the real object
    def parts(self):
        """(states, transitions, initial, finals) as plain containers (NFA shape: targets are sets)."""
        m = self.m
        tr = {}
        states = set(range(m + 1))
        for i in range(m):
            if self._doubled(i):
                tr[i] = {self.label(i): {MID + i}}
                tr[MID + i] = {"": {i + 1}}
                states.add(MID + i)
            else:
                tr[i] = {self.label(i): {i + 1}}
        tr[m] = {}
        finals = set()
        kind = self.tail[0]
        if kind == "end":
            finals.add(m)
        elif kind == "loop":
            finals.add(m)
            tr[m] = {self.label(m): {self.t}}
        elif kind == "nth":
            k = self.tail[1]
            tr[m] = {"a": {m, TAIL + 1}, "b": {m}}
            for j in range(1, k):
                tr[TAIL + j] = {"a": {TAIL + j + 1}, "b": {TAIL + j + 1}}
            tr[TAIL + k] = {}
            states.update(TAIL + j for j in range(1, k + 1))
            finals.add(TAIL + k)
        elif kind == "fan":
            W = self.tail[1]
            tr[m] = {"a": {FAN + j for j in range(W)}}
            for j in range(W):
                tr[FAN + j] = {"b": {FAN + W}}
            tr[FAN + W] = {}
            states.update(FAN + j for j in range(W + 1))
            finals.add(FAN + W)
        else:
            raise ValueError(f"unknown tail {self.tail!r}")
        init = 0
        if self.pre:
            shape, L = self.pre
            states.update(PRE + j for j in range(L))
            init = PRE
            if shape == "chain":
                for j in range(L):
                    tr[PRE + j] = {"": {PRE + j + 1 if j + 1 < L else 0}}
            elif shape == "cycle":
                for j in range(L):
                    tr[PRE + j] = {"": {PRE + (j + 1) % L}}
                tr[PRE + L // 2] = {"": {PRE + (L // 2 + 1) % L, 0}}
            else:
                raise ValueError(f"unknown prefix {self.pre!r}")
        for j in range(self.U):
            q = UNR + j
            states.add(q)
            finals.add(q)
            if j + 1 < self.U:
                tr[q] = {"": {q + 1}} if j % 3 == 2 and not self.as_dfa else {SYMS[j % 2]: {q + 1}}
            else:
                tr[q] = {"a": {0, m}, "b": {m}}
        return states, tr, init, finals

    def build(self):
        states, tr, init, finals = self.parts()
        if not self.as_dfa:
            return NFA(states=states, input_symbols=set(SYMS), transitions=tr, initial_state=init, final_states=finals)
        dtr = {q: {a: next(iter(ts)) for a, ts in row.items()} for q, row in tr.items()}
        if self.complete:
            states.add(TRAP)
            dtr[TRAP] = {}
            for q in states:
                for a in SYMS:
                    dtr[q].setdefault(a, TRAP)
        return DFA(states=states, input_symbols=set(SYMS), transitions=dtr, initial_state=init, final_states=finals,
                   allow_partial=not self.complete)

    def n_states(self) -> int:
        return len(self.parts()[0]) + (1 if self.as_dfa and self.complete else 0)

    def depth(self) -> int:
        """Length of the longest simple path from the initial state (λ-moves counted)."""
        d = self.m + sum(1 for i in range(self.m) if self._doubled(i))
        if self.pre:
            d += self.pre[1]
        if self.tail[0] == "nth":
            d += self.tail[1]
        if self.tail[0] == "fan":
            d += 2
        return d

    def expr(self) -> str:
        s = self.spec
        what = "DFA" if self.as_dfa else "NFA"
        if self.as_dfa:
            what += " (complete, with a trap state)" if self.complete else " (partial)"
        out = (f"{what} over {{a,b}}: chain 0 -> 1 -> ... -> {self.m} (step out of i labelled {self.pat!r}[i % {len(self.pat)}]"
               + {"none": "", "double": ", EVERY step through a middle state and an empty-string move",
                  "third": ", every third step through a middle state and an empty-string move"}[self.eps] + ")")
        if self.pre:
            out += (f", initial state = head of a pure empty-string chain of {self.pre[1]} states leading to state 0"
                    if self.pre[0] == "chain" else
                    f", initial state on an empty-string CYCLE of {self.pre[1]} states with one empty-string move to state 0")
        k = self.tail
        out += {"end": lambda: f", state {self.m} final",
                "loop": lambda: f", state {self.m} final, extra edge {self.m} -> {self.t} (cycle of {k[1]} states)",
                "nth": lambda: f", then (a|b)* a (a|b)^{k[1] - 1} from state {self.m}",
                "fan": lambda: f", then {self.m} -a-> {k[1]} states -b-> one final state"}[k[0]]()
        if self.U:
            out += f", plus an UNREACHABLE component of {self.U} final states with edges into states 0 and {self.m}"
        return out + f" [{self.n_states()} states, spec {json.dumps(s, sort_keys=True)}]"

    # ------------------------------------------------------------------ closed forms
    def member(self, w: str) -> bool:
        m, n = self.m, len(w)
        kind = self.tail[0]
        if kind == "loop":
            if n < m or self.pos(n) != m:
                return False
            return all(w[i] == self.label(self.pos(i)) for i in range(n))
        if n < m or any(w[i] != self.label(i) for i in range(m)):
            return False
        rest = w[m:]
        if kind == "end":
            return rest == ""
        if kind == "fan":
            return rest == "ab"
        k = self.tail[1]
        return len(rest) >= k and rest[-k] == "a" and all(x in SYMS for x in rest)

    def dfa_states(self, minify: bool) -> int:
        """minify: number of states of the minimal PARTIAL DFA of the language; otherwise the number of reachable
        non-empty subsets — the same number (every reachable subset is live, no two have the same residual language)
        except when the first state of the cycle is entered in two ways: through an empty-string move the first time
        (subset {middle state, q} / {prefix …, q}) and directly afterwards (subset {q, …}): one subset more."""
        kind = self.tail[0]
        if not minify and kind in ("loop", "nth"):
            q = self.t if kind == "loop" else self.m
            if (q >= 1 and self._doubled(q - 1)) or (q == 0 and self.pre):
                return self.dfa_states(True) + 1
        if kind in ("end", "loop"):
            return self.m + 1
        if kind == "fan":
            return self.m + 3
        return self.m + 2 ** self.tail[1]

    def elim_states(self) -> Optional[int]:
        """States of the λ-free NFA when the source has no λ-move at all (the reachable part); None otherwise
        (which states stay reachable then depends on how the elimination routes the inherited moves)."""
        if self.eps != "none" or self.pre:
            return None
        return self.n_states() - self.U

    # ------------------------------------------------------------------ probe words
    def accepted_words(self, rng) -> List[str]:
        P = self.walk(self.m)
        kind = self.tail[0]
        if kind == "end":
            return [P]
        if kind == "fan":
            return [P + "ab"]
        if kind == "loop":
            c = self.tail[1]
            return [self.walk(self.m + j * c) for j in (0, 1, 2)]
        k = self.tail[1]
        rnd = lambda n: "".join(rng.choice(SYMS) for _ in range(n))
        return [P + "a" + "b" * (k - 1), P + "a" * k, P + rnd(3) + "a" + rnd(k - 1), P + "ab" * 3 + "a" + rnd(k - 1),
                P + rnd(k + 2) + "a" + "a" * (k - 1)]

    def probe_words(self, rng) -> List[str]:
        """Accepted words and near misses of them: one symbol more / fewer, one symbol changed (first, last, around
        positions 127/128, 255/256, 998–1001 — the usual thresholds — and at a random place), prefixes that stop just
        before / after the end of the spine, the empty word and the one-letter words."""
        acc = self.accepted_words(rng)
        flip = lambda w, i: w[:i] + ("b" if w[i] == "a" else "a") + w[i + 1:]
        out = list(acc)
        w = acc[0]
        P = self.walk(self.m)
        for i in {0, len(w) - 1, 127, 128, 255, 256, 998, 999, 1000, 1001, self.m - 1, rng.randrange(max(len(w), 1))}:
            if 0 <= i < len(w):
                out.append(flip(w, i))
        for v in acc[:3]:
            out += [v + "a", v + "b", v[:-1]]
        out += [P, P[:-1], P + "a", P + "b", P + "ab", P + "ba", P + "aab", "", "a", "b", "ab", P[: self.m // 2]]
        if self.tail[0] == "nth":
            k = self.tail[1]
            out += [P + "b" * k, P + "b" + "a" * (k - 1), P + "a" + "b" * k, P + "a" * (k - 1)]
        if self.tail[0] == "loop":
            c = self.tail[1]
            out += [self.walk(self.m + c - 1), self.walk(self.m + c + 1), self.walk(self.m + 3 * c)]
        seen, res = set(), []
        for v in out:
            if v not in seen:
                seen.add(v)
                res.append(v)
        return res

    def all_short_words(self, top: int):
        for n in range(top + 1):
            for p in itertools.product(SYMS, repeat=n):
                yield "".join(p)


def shrink(spec: dict, rng) -> dict:
    """The same shape with a handful of states (small twin)."""
    s = json.loads(json.dumps(spec))
    s["m"] = rng.randint(3, 6)
    if s.get("pre"):
        s["pre"] = [s["pre"][0], rng.randint(2, 4)]
    if s.get("unreach"):
        s["unreach"] = rng.randint(3, 5)
    t = s["tail"]
    if t[0] == "loop":
        t0 = spec["m"] - t[1] + 1               # where the extra edge lands
        s["tail"] = ["loop", s["m"] - t0 + 1 if t0 <= 3 else min(t[1], s["m"])]
    elif t[0] == "nth":
        s["tail"] = ["nth", min(t[1], 3)]
    elif t[0] == "fan":
        s["tail"] = ["fan", rng.randint(2, 4)]
    return s


def short(w, limit: int = 40) -> str:
    if isinstance(w, str) and len(w) > limit:
        return f"<word of {len(w)} symbols {w[:8]!r}…{w[-6:]!r}>"
    return repr(w)
