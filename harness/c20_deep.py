"""C20, round 7 — DEEP / LARGE instances and LONG query sequences (size thresholds of the caches).

The property quantifies over ALL valid DFAs / NFAs and ALL finite histories.  Every other generator of ops/C20.py stops
at ≤ 6 states, lengths ≤ 8 and histories of ≤ 30 calls, so a cache that is only coherent while it is SMALL passes all
of them: a `while len(cache) <= k` loop rewritten as a recursion over k (RecursionError near depth 1000 — but only
when the long length is asked FIRST: after count(400), count(800), … the same call answers), a bare
functools.lru_cache (128 entries) behind a query, a level list cut off / cleared at a fixed size, a closure table
computed by a recursive walk.  This module describes big instances by small JSON-able *specs*; the real objects are
built by the library's own constructors and the answer to every query is known in CLOSED FORM from the construction
parameters, so neither the library nor the Lean model is needed to judge an answer (nothing is sent to the model's
driver for the big instances: it would need minutes).

DFA specs are those of harness/dfa_query_deep.py (of_length / finite_language / chain; closed forms for count, words,
first words, cardinality, min / max, membership: class DeepLang) plus `relabel: true` (the same automaton rebuilt by hand
under other state names: a partner with the same language through another object).  This module adds the closed forms
of the successor search (unary of_length: lexicographic = length order; finite_language: the explicit sorted word set)
and of the comparisons between two of_length languages (windows of lengths), the generator handles of a history
(`wopen` / `iopen` / `next`) and clear_cache.

NFA specs
    lam_chain      n, marks [[p, sym], …], mid — lambda chain 0 → 1 → … → n; state n reads 'a' back to 0 and 'd' to
                   `mid`; state p reads sym to the final sink 'F'.  The closures are {i..n}: the table has (n+1)(n+2)/2
                   entries (quadratic: n ≈ 1100 once per run), a recursive closure walk is n frames deep.
    mth_from_end   m — the classical NFA of "the m-th symbol from the end is a" with a lambda triangle q0 → z1 → z2 → q0
                   around its start state (shallow automaton, inputs of 3000 symbols, read again and again)
    sym_chain      n, marks [i, …] — 0 -a-> 1 -a-> … -a-> n, a lambda edge from i to a final side state s<i>:
                   {a^i : i ∈ marks} ∪ {a^n} (deep in the direction of the input; closures of ≤ 2 states)

Words are written run-length encoded: [[unit, reps], …] stands for unit*reps + …
"""
from __future__ import annotations

import itertools
import json
from typing import List, Optional

from automata.base.exceptions import RejectionException
from automata.fa.dfa import DFA
from automata.fa.nfa import NFA

from harness import dfa_query_deep as DP
from harness import dfa_query_lib as L

TIMEOUT_S = 10
short = DP.short


def word(rle) -> Optional[str]:
    return None if rle is None else "".join(u * r for u, r in rle)


def show_rle(rle) -> str:
    if rle is None:
        return "None"
    if not rle or all(r == 0 or not u for u, r in rle):
        return "''"
    return "+".join((f"{u!r}*{r}" if r != 1 else repr(u)) for u, r in rle if r and u)


# =================================================================== DFA side
def build_dfa(spec: dict) -> DFA:
    d = DP.DeepLang(spec).build()
    if not spec.get("relabel"):
        return d
    nm = lambda q: f"s{q}"      # noqa: E731
    return DFA(states={nm(q) for q in d.states}, input_symbols=set(d.input_symbols),
               transitions={nm(q): {a: nm(t) for a, t in row.items()} for q, row in d.transitions.items()},
               initial_state=nm(d.initial_state), final_states={nm(q) for q in d.final_states},
               allow_partial=d.allow_partial)


def expr_dfa(spec: dict) -> str:
    return DP.DeepLang(spec).expr() + (" rebuilt by hand under other state names" if spec.get("relabel") else "")


def show_step(s: dict) -> str:
    q = s["q"]
    if q == "count":
        return f"count_words_of_length({s['k']})"
    if q == "words":
        return f"list(words_of_length({s['k']}))"
    if q == "random":
        return f"random_word({s['k']}, seed={s['seed']})"
    if q == "iter":
        return f"list(islice(iter(dfa), {s['n']}))"
    if q == "accepts":
        return f"accepts_input({show_rle(s['w'])})"
    if q == "wopen":
        return f"g{s['h']} = words_of_length({s['k']})"
    if q == "iopen":
        return f"g{s['h']} = iter(dfa)"
    if q == "next":
        return f"next(g{s['h']})"
    if q == "succ":
        name = ("predecessor" if s["reverse"] else "successor") if s["n"] is None else \
            ("predecessors" if s["reverse"] else "successors")
        extra = "" if s["n"] is None else f"[:{s['n']}]"
        return (f"{name}({show_rle(s['start'])}, strict={s['strict']}, min_length={s['min']}, "
                f"max_length={s['max']}){extra}")
    if q == "cmp":
        return {"eq": "dfa == other", "le": "dfa <= other", "ge": "dfa >= other", "lt": "dfa < other",
                "gt": "dfa > other"}.get(s["op"], f"dfa.{s['op']}(other)")
    return {"len": "len(dfa)", "card": "cardinality()", "min": "minimum_word_length()", "max": "maximum_word_length()",
            "empty": "isempty()", "finite": "isfinite()", "clear": "clear_cache()"}[q]


def _gen_next(g):
    try:
        return ("ok", next(g))
    except StopIteration:
        return ("stop",)


class DfaRunner:
    """The steps of a history on ONE long-lived object (and one long-lived partner for the comparisons)."""

    def __init__(self, spec: dict, other: Optional[dict]):
        self.x = build_dfa(spec)
        self.other = build_dfa(other) if other is not None else None
        self.gens = {}
        self.keep = []

    def do(self, s: dict):
        x, q = self.x, s["q"]
        g = lambda f: L.guarded(f, TIMEOUT_S)      # noqa: E731
        if q == "count":
            return g(lambda: x.count_words_of_length(s["k"]))
        if q == "words":
            return g(lambda: list(x.words_of_length(s["k"])))
        if q == "random":
            return g(lambda: x.random_word(s["k"], seed=s["seed"]))
        if q == "iter":
            def pre():
                it = iter(x)
                self.keep.append(it)
                return list(itertools.islice(it, s["n"]))
            return g(pre)
        if q == "accepts":
            return g(lambda: x.accepts_input(word(s["w"])))
        if q == "wopen":
            self.gens[s["h"]] = x.words_of_length(s["k"])
            return ("ok", "handle")
        if q == "iopen":
            self.gens[s["h"]] = iter(x)
            return ("ok", "handle")
        if q == "next":
            r = g(lambda: _gen_next(self.gens[s["h"]]))
            return r[1] if r[0] == "ok" else r
        if q == "succ":
            kw = dict(strict=s["strict"], min_length=s["min"], max_length=s["max"])
            st = word(s["start"])
            if s["n"] is None:
                return g(lambda: x.predecessor(st, **kw) if s["reverse"] else x.successor(st, **kw))
            return g(lambda: list(itertools.islice(x.successors(st, reverse=s["reverse"], **kw), s["n"])))
        if q == "cmp":
            o, op = self.other, s["op"]
            f = {"eq": lambda: x == o, "le": lambda: x <= o, "ge": lambda: x >= o, "lt": lambda: x < o,
                 "gt": lambda: x > o, "issubset": lambda: x.issubset(o), "issuperset": lambda: x.issuperset(o),
                 "isdisjoint": lambda: x.isdisjoint(o)}[op]
            return g(f)
        f = {"min": x.minimum_word_length, "max": x.maximum_word_length, "empty": x.isempty, "finite": x.isfinite,
             "card": x.cardinality, "len": lambda: len(x), "clear": x.clear_cache}[q]
        return g(f)


def _window(lang: DP.DeepLang):
    s = lang.spec
    return s["lo"], s["hi"]


def _succ_seq(lang: DP.DeepLang, s: dict, n: int) -> List[str]:
    """The first n accepted words after (before) the start string in lexicographic order within the length window."""
    st = word(s["start"])
    if lang.kind == "of_length":
        assert len(lang.syms) == 1, "closed form of the successor search: unary of_length only"
        a = lang.syms[0]
        lo, hi = _window(lang)
        A = max(lo, s["min"])
        B = hi if s["max"] is None else (s["max"] if hi is None else min(hi, s["max"]))
        if not s["reverse"]:
            j = A if st is None else max(A, len(st) + (1 if s["strict"] else 0))
            top = j + n - 1 if B is None else min(B, j + n - 1)
            return [a * i for i in range(j, top + 1)]
        assert B is not None
        j = B if st is None else min(B, len(st) - (1 if s["strict"] else 0))
        return [a * i for i in range(j, max(A, j - n + 1) - 1, -1)]
    assert lang.kind == "finite_language"
    ws = sorted(w for w in lang.wordset if s["min"] <= len(w) and (s["max"] is None or len(w) <= s["max"]))
    if s["reverse"]:
        out = [w for w in reversed(ws) if st is None or w < st or (w == st and not s["strict"])]
    else:
        out = [w for w in ws if st is None or w > st or (w == st and not s["strict"])]
    return out[:n]


def _cmp(lang: DP.DeepLang, other: DP.DeepLang, op: str) -> bool:
    assert lang.kind == other.kind == "of_length" and lang.syms == other.syms
    INF = float("inf")
    (a, b), (c, d) = _window(lang), _window(other)
    b, d = (INF if b is None else b), (INF if d is None else d)
    sub, sup, eq = (c <= a and b <= d), (a <= c and d <= b), (a, b) == (c, d)
    return {"eq": eq, "le": sub, "issubset": sub, "ge": sup, "issuperset": sup, "lt": sub and not eq,
            "gt": sup and not eq, "isdisjoint": b < c or d < a}[op]


class DfaJudge:
    """What the construction parameters dictate for every step of a history (tracks the positions of the generator
    handles; shares nothing with the library or the runner)."""

    def __init__(self, spec: dict, other: Optional[dict]):
        self.lang = DP.DeepLang(spec)
        self.other = DP.DeepLang(other) if other is not None else None
        self.handles = {}

    def expect(self, s: dict):
        lang, q = self.lang, s["q"]
        if q in ("min", "max", "empty", "finite", "card", "len", "count", "words", "iter", "random"):
            return DP.expected(lang, s)
        if q == "clear":
            return "exact", ("ok", None)
        if q == "accepts":
            return "exact", ("ok", lang.member(word(s["w"])))
        if q == "wopen":
            self.handles[s["h"]] = ["words", s["k"], 0]
            return "exact", ("ok", "handle")
        if q == "iopen":
            self.handles[s["h"]] = ["iter", None, 0]
            return "exact", ("ok", "handle")
        if q == "next":
            h = self.handles[s["h"]]
            pos = h[2]
            h[2] += 1
            if h[0] == "words":
                ws = lang.words(h[1])
            else:
                ws = lang.first(pos + 1)
            return "exact", (("ok", ws[pos]) if pos < len(ws) else ("stop",))
        if q == "succ":
            if s["n"] is None:
                r = _succ_seq(lang, s, 1)
                return "exact", ("ok", r[0] if r else None)
            return "exact", ("ok", _succ_seq(lang, s, s["n"]))
        if q == "cmp":
            return "exact", ("ok", _cmp(lang, self.other, s["op"]))
        raise ValueError(f"C20 deep family: unknown step {s}")

    def judge(self, s: dict, got) -> Optional[str]:
        mode, exp = self.expect(s)
        if got == ("err", "_Timeout"):
            return f"gave no answer within {TIMEOUT_S} s (the construction dictates {short(exp)})"
        if mode == "exact":
            return None if got == exp else f"= {short(got)}, the construction dictates {short(exp)}"
        return DP.judge(lang=self.lang, step=s, got=got)


STANDALONE = ("count", "words", "random", "iter", "accepts", "succ", "cmp", "min", "max", "empty", "finite", "card", "len")


def run_dfa(spec: dict, other: Optional[dict], steps, on_step=None):
    """The steps on ONE newly built object: (index, message, observation) of the first answer that differs from
    the closed form, or None."""
    R, J = DfaRunner(spec, other), DfaJudge(spec, other)
    for i, s in enumerate(steps):
        got = R.do(s)
        msg = J.judge(s, got)
        if on_step is not None:
            on_step(s, got)
        if msg is not None:
            return i, msg, got
    return None


def selfcheck_dfa(spec: dict, rng):
    """The closed-form membership predicate against the real accepts_input on the boundary words of the language
    (ties the closed form to the object that was actually built).  Returns the first disagreement or None."""
    lang, d = DP.DeepLang(spec), build_dfa(spec)
    n = 0
    for w in lang.probe_words(rng):
        n += 1
        if d.accepts_input(w) != lang.member(w):
            return n, w
    return n, None


# ------------------------------------------------------------------- plans (templates × size profile)
class Profile:
    """deep: the sizes of the family; twin: the same templates at ≤ 8 states / lengths ≤ 8 / ≤ 30 calls, for the
    cross-check of the closed forms by the fresh-copy oracle and the Lean model."""

    def __init__(self, rng, deep: bool):
        self.rng, self.deep = rng, deep

    def K(self) -> int:          # a long word length asked of a SHALLOW automaton (tables: K × a few states)
        return self.rng.randint(2200, 3000) if self.deep else self.rng.randint(5, 7)

    def N(self) -> int:          # states on the simple path of a DEEP automaton (operations that are linear in it)
        return self.rng.randint(1100, 3000) if self.deep else self.rng.randint(4, 6)

    def Q(self) -> int:          # states of a chain whose (length × states) tables are built in full (quadratic)
        return self.rng.randint(240, 300) if self.deep else self.rng.randint(4, 5)

    def many(self, n: int) -> int:
        return n if self.deep else max(6, n // 14)

    def plus(self, k: int) -> int:       # a margin beyond a size; 0–1 on the twin (the model's word tables are 2^k)
        return k if self.deep else min(k, 1)

    def small(self, k: int) -> int:      # a small parameter that must stay small on the twin as well
        return k if self.deep else min(k, 3)


class Steps:
    def __init__(self, rng):
        self.rng, self.out, self.h = rng, [], 0

    def add(self, q, **kw):
        self.out.append(dict(q=q, **kw))

    def count(self, k):
        self.add("count", k=k)

    def words(self, k):
        self.add("words", k=k)

    def random(self, k):
        self.add("random", k=k, seed=self.rng.randrange(1 << 30))

    def iter(self, n):
        self.add("iter", n=n)

    def accepts(self, rle):
        self.add("accepts", w=rle)

    def wopen(self, k) -> int:
        self.add("wopen", k=k, h=self.h)
        self.h += 1
        return self.h - 1

    def iopen(self) -> int:
        self.add("iopen", h=self.h)
        self.h += 1
        return self.h - 1

    def next(self, h, times=1):
        for _ in range(times):
            self.add("next", h=h)

    def succ(self, start, reverse=False, strict=True, lo=0, hi=None, n=None):
        self.add("succ", start=start, reverse=reverse, strict=strict, min=lo, max=hi, n=n)

    def cmp(self, op=None):
        self.add("cmp", op=op or self.rng.choice(["eq", "le", "ge", "lt", "gt", "issubset", "issuperset", "isdisjoint"]))

    def plain(self, *qs):
        for q in qs:
            self.add(q)


def t_long_unary(rng, P: Profile):
    """a^lo a* (lo+2 states): HUNDREDS of queries at lengths up to 3000 on ONE object — the long length first, then
    short ones, then lengths in between; generators alive across clear_cache."""
    lo, K = rng.randint(2, 4), P.K()
    spec = dict(kind="of_length", syms=["a"], lo=lo, hi=None)
    other = dict(kind="of_length", syms=["a"], lo=lo + rng.choice([0, 0, 1]), hi=None, relabel=True)
    A = lambda m: [["a", m]]      # noqa: E731
    S = Steps(rng)
    S.count(K); S.random(K); S.words(K); S.count(K - 1)                       # the long length FIRST
    for k in (0, lo, 1, lo - 1):
        S.count(k)
    S.words(lo); S.words(0); S.random(lo + 1)                                  # then short ones
    K2 = rng.randint(K // 3, K // 2)
    h1, h2 = S.wopen(K2), S.iopen()
    S.next(h2); S.plain("clear"); S.next(h1); S.count(K // 2); S.next(h1); S.next(h2, 2)    # generators across a clear
    S.plain("min", "max", "finite", "empty", "card", "len")
    # (on the twin every search has a max_length: the Lean driver's unbounded search on an infinite language is slow)
    S.succ(A(K), hi=None if P.deep else K + 2); S.succ(None, lo=K - 3, hi=K, n=P.small(5))
    S.succ(A(K // 2), strict=False, hi=K)
    S.cmp("eq"); S.cmp()
    h3 = S.iopen()
    for _ in range(P.many(260)):
        r = rng.random()
        k = rng.choice([rng.randint(0, K + P.plus(40)), rng.randint(0, K + P.plus(40)), rng.randint(0, lo + 3), K])
        if r < 0.30:
            S.count(k)
        elif r < 0.45:
            S.words(k)
        elif r < 0.60:
            S.random(k)
        elif r < 0.66:
            S.iter(rng.randint(0, 400) if P.deep else rng.randint(0, 4))
        elif r < 0.72:
            S.accepts(A(k))
        elif r < 0.80:
            S.next(h3, rng.randint(1, 3))
        elif r < 0.84:
            S.succ(A(k), strict=rng.random() < 0.7, hi=k + rng.randint(1, 4), n=rng.choice([None, None, 2]))
        elif r < 0.88:
            S.cmp()
        elif r < 0.895:
            S.plain("clear")
        else:
            S.plain(rng.choice(["min", "max", "finite", "empty", "card", "len"]))
    S.count(K + P.plus(50)); S.words(K + P.plus(50)); S.random(K + P.plus(49))
    return dict(name="long_lengths_unary", spec=spec, other=other, steps=S.out)


def t_ascending_unary(rng, P: Profile):
    """The same kind of object asked in ASCENDING steps of a few hundred (the caches grow by short stretches): the
    answers at the long lengths must be those of the object that was asked the long length first."""
    lo, K = rng.randint(2, 4), P.K()
    spec = dict(kind="of_length", syms=["a"], lo=lo, hi=None)
    S = Steps(rng)
    k = 0
    while k < K:
        k = min(K, k + (rng.randint(200, 700) if P.deep else rng.randint(1, 3)))
        S.count(k)
        if rng.random() < 0.5:
            S.random(k)
    k = 0
    while k < K:
        k = min(K, k + (rng.randint(200, 700) if P.deep else rng.randint(1, 3)))
        S.words(k)
    S.count(K); S.random(K); S.words(K); S.count(K - 1)
    S.plain("clear"); S.words(K); S.count(K); S.count(0)
    return dict(name="ascending_lengths_unary", spec=spec, other=None, steps=S.out)


def _rand_rle(rng, syms, length):
    """A word of exactly `length` symbols: unit*reps + tail."""
    unit = "".join(rng.choice(syms) for _ in range(rng.randint(1, 3)))
    reps = length // len(unit)
    tail = "".join(rng.choice(syms) for _ in range(length - reps * len(unit)))
    return [[unit, reps], [tail, 1]]


def t_long_binary(rng, P: Profile):
    """Σ^≥lo over two symbols (lo+2 states): counts are 2^k — integers of thousands of bits — at lengths up to 3000."""
    lo, K = rng.randint(1, 3), P.K()
    ab = ["a", "b"]
    spec = dict(kind="of_length", syms=ab, lo=lo, hi=None)
    other = dict(kind="of_length", syms=ab, lo=lo + rng.choice([0, 1]), hi=None, relabel=True)
    S = Steps(rng)
    S.count(K); S.random(K); S.count(2); S.words(P.small(3)); S.count(K // 2); S.random(K // 2)
    S.iter(P.small(9)); S.plain("min", "max", "finite", "card"); S.cmp("eq"); S.cmp("ge")
    h = S.iopen()
    for _ in range(P.many(110)):
        r = rng.random()
        k = rng.choice([rng.randint(0, K + P.plus(20)), rng.randint(0, K + P.plus(20)), rng.randint(0, 4), K])
        if r < 0.35:
            S.count(k)
        elif r < 0.55:
            S.random(k)
        elif r < 0.62:
            S.words(rng.randint(0, 3))
        elif r < 0.72:
            S.accepts(_rand_rle(rng, ab, k))
        elif r < 0.80:
            S.next(h, rng.randint(1, 2))
        elif r < 0.86:
            S.cmp()
        elif r < 0.88:
            S.plain("clear")
        else:
            S.plain(rng.choice(["min", "max", "finite", "empty", "card", "len"]))
    S.count(K + P.plus(30)); S.random(K + P.plus(30))
    return dict(name="long_lengths_binary", spec=spec, other=other, steps=S.out)


def t_deep_binary(rng, P: Profile):
    """Σ^≤N over two symbols: N+2 states, every chain state final.  The operations that are linear in the number of
    states, short lengths asked in a non-monotone order, words of N symbols read, comparisons with a partner."""
    N = P.N()
    ab = ["a", "b"]
    spec = dict(kind="of_length", syms=ab, lo=0, hi=N)
    other = dict(kind="of_length", syms=ab, lo=0, hi=N - rng.choice([0, 0, 1]), relabel=True)
    S = Steps(rng)
    big = 10 if P.deep else 3
    S.count(big); S.count(2); S.count(big // 2 + 1); S.words(3); S.random(big); S.iter(big)
    S.plain("max", "min", "finite", "empty")
    S.accepts(_rand_rle(rng, ab, N)); S.accepts(_rand_rle(rng, ab, N + 1)); S.accepts(_rand_rle(rng, ab, N // 2))
    S.cmp("eq"); S.cmp("ge"); S.cmp("lt")
    h = S.iopen()
    S.next(h, 3); S.plain("clear"); S.next(h, 2); S.count(1); S.random(big - 1); S.cmp()
    S.plain("max", "finite"); S.words(2); S.next(h)
    return dict(name="deep_chain_binary", spec=spec, other=other, steps=S.out)


def t_deep_unary_exact(rng, P: Profile):
    """{a^N}: a chain of N+2 states with one final state at its end; the successor search walks the whole chain."""
    N = P.N()
    spec = dict(kind="of_length", syms=["a"], lo=N, hi=N)
    other = dict(kind="of_length", syms=["a"], lo=N - rng.choice([0, 1]), hi=N, relabel=True)
    A = lambda m: [["a", m]]      # noqa: E731
    S = Steps(rng)
    S.plain("min", "max", "finite", "empty")
    S.succ(None); S.succ(A(N - 1)); S.succ(A(N)); S.succ(A(N), strict=False); S.succ(A(N + 1), reverse=True)
    S.succ(None, reverse=True, n=2); S.succ(A(0), n=3); S.succ(A(N // 2), lo=N, hi=N)
    S.accepts(A(N)); S.accepts(A(N - 1)); S.accepts(A(N + 1))
    S.count(3); S.count(0); S.words(2); S.random(1)
    S.cmp("eq"); S.cmp("le"); S.cmp("isdisjoint")
    S.plain("clear", "max", "min"); S.succ(None); S.cmp()
    return dict(name="deep_chain_unary", spec=spec, other=other, steps=S.out)


def t_quad_unary(rng, P: Profile):
    """{a^k : lo ≤ k ≤ N} with a few hundred states: the queries whose tables are (length × states) — count / words /
    random_word AT the depth of the chain and beyond, cardinality / len, the WHOLE iteration, generators across
    clear_cache, predecessors."""
    N = P.Q()
    lo = rng.randint(0, 3)
    spec = dict(kind="of_length", syms=["a"], lo=lo, hi=N)
    other = dict(kind="of_length", syms=["a"], lo=lo, hi=N + rng.choice([0, 1]), relabel=True)
    A = lambda m: [["a", m]]      # noqa: E731
    S = Steps(rng)
    S.count(N); S.count(N + 1); S.words(N); S.random(N); S.count(lo); S.count(0); S.words(lo)
    S.count(N // 2); S.random(N // 2); S.words(N // 2 + 1)
    S.plain("card", "len", "max", "min", "finite", "empty")
    S.iter(N + P.plus(5))
    h1, h2 = S.iopen(), S.wopen(N - 1)
    S.next(h1, 2); S.plain("clear"); S.next(h2); S.next(h1, 2); S.next(h2)
    S.succ(A(N), reverse=True); S.succ(None, reverse=True, n=P.small(4)); S.succ(A(N - 2), n=P.small(5))
    S.succ(A(N)); S.succ(A(N + 3), reverse=True, strict=False)
    S.cmp("eq"); S.cmp("le")
    for _ in range(P.many(70)):
        r = rng.random()
        k = rng.choice([rng.randint(0, N + P.plus(20)), rng.randint(0, N + P.plus(20)), N, rng.randint(0, lo + 2)])
        if r < 0.30:
            S.count(k)
        elif r < 0.45:
            S.words(k)
        elif r < 0.60:
            S.random(k)
        elif r < 0.68:
            S.next(h1, rng.randint(1, 3))
        elif r < 0.74:
            S.accepts(A(k))
        elif r < 0.82:
            S.succ(A(k), reverse=rng.random() < 0.5, strict=rng.random() < 0.7, n=rng.choice([None, 2]))
        elif r < 0.88:
            S.cmp()
        else:
            S.plain(rng.choice(["card", "len", "max", "min", "finite", "empty"]))
    S.plain("clear"); S.count(2); S.plain("card"); S.count(N)
    return dict(name="quadratic_tables_unary", spec=spec, other=other, steps=S.out)


def t_finite_pair(rng, P: Profile):
    """{b, (ab)^M}: from_finite_language with a word of 1100–3000 symbols next to a one-letter word."""
    M = P.N() // 2
    ab = ["a", "b"]
    spec = dict(kind="finite_language", syms=ab, words=[["b", 1, ""], ["ab", M, ""]])
    W = [["ab", M]]
    S = Steps(rng)
    S.plain("max", "min", "finite", "empty")
    S.iter(1); S.count(1); S.count(2); S.count(0); S.words(1); S.random(1)
    S.accepts(W); S.accepts([["ab", M - 1]]); S.accepts([["b", 1]]); S.accepts([["ab", M], ["a", 1]])
    S.succ(None); S.succ(W); S.succ([["b", 1]]); S.succ([["b", 1]], reverse=True); S.succ(None, n=3)
    S.succ([["ab", M - 1]]); S.succ(None, reverse=True, n=3); S.succ(W, strict=False, lo=2)
    h = S.iopen()
    S.next(h); S.plain("clear"); S.count(1); S.words(1); S.plain("max", "finite")
    return dict(name="finite_language_long_word", spec=spec, other=None, steps=S.out)


DFA_TEMPLATES = [t_long_unary, t_ascending_unary, t_long_binary, t_deep_binary, t_deep_unary_exact, t_quad_unary,
                 t_finite_pair]


def to_c20_history(spec: dict, steps):
    """A twin history in the format of ops/C20.run_history (fresh-copy oracle + Lean model round trip)."""
    lang = DP.DeepLang(spec)
    rank = {a: i for i, a in enumerate(sorted(spec["syms"]))}
    hist, hmap, nh = [], {}, 0
    for s in steps:
        q = s["q"]
        if q == "count":
            hist.append(dict(q="C", k=s["k"]))
        elif q == "words":
            hist.append(dict(q="WO", k=s["k"]))
            hist += [dict(q="NX", h=nh) for _ in range(lang.count(s["k"]) + 1)]
            nh += 1
        elif q == "iter":
            hist.append(dict(q="IO"))
            hist += [dict(q="NX", h=nh) for _ in range(s["n"])]
            nh += 1
        elif q == "random":
            hist.append(dict(q="RW", k=s["k"], seed=s["seed"]))
        elif q == "accepts":
            hist.append(dict(q="A", w=word(s["w"])))
        elif q == "wopen":
            hist.append(dict(q="WO", k=s["k"]))
            hmap[s["h"]] = nh
            nh += 1
        elif q == "iopen":
            hist.append(dict(q="IO"))
            hmap[s["h"]] = nh
            nh += 1
        elif q == "next":
            hist.append(dict(q="NX", h=hmap[s["h"]]))
        elif q == "succ":
            p = dict(start=word(s["start"]), strict=s["strict"], key=dict(rank), keymode="none", reverse=s["reverse"],
                     min=s["min"], max=s["max"], n=1 if s["n"] is None else s["n"])
            hist.append(dict(q="FI" if s["n"] is None else "SU", p=p))
        elif q == "cmp":
            hist.append(dict(q="OT", op=s["op"]))
        else:
            hist.append(dict(q={"len": "LEN", "card": "CARD", "min": "MIN", "max": "MAX", "empty": "EMPTY",
                                "finite": "FINITE", "clear": "CLR"}[q]))
    return hist


# =================================================================== NFA side
class DeepNFA:
    def __init__(self, spec: dict):
        self.spec, self.kind = spec, spec["kind"]
        if self.kind not in ("lam_chain", "mth_from_end", "sym_chain"):
            raise ValueError(f"unknown deep NFA spec kind {self.kind}")

    def build(self) -> NFA:
        s = self.spec
        if self.kind == "lam_chain":
            n = s["n"]
            tr = {i: {"": {i + 1}} for i in range(n)}
            tr[n] = {"a": {0}, "d": {s["mid"]}}
            for p, sym in s["marks"]:
                tr[p] = dict(tr[p], **{sym: {"F"}})
            tr["F"] = {}
            return NFA(states=set(range(n + 1)) | {"F"}, input_symbols={"a", "d"} | {m[1] for m in s["marks"]},
                       transitions=tr, initial_state=0, final_states={"F"})
        if self.kind == "mth_from_end":
            m = s["m"]
            tr = {"q0": {"a": {"q0", 1}, "b": {"q0"}, "": {"z1"}}, "z1": {"": {"z2"}}, "z2": {"": {"q0"}}}
            for j in range(1, m):
                tr[j] = {"a": {j + 1}, "b": {j + 1}}
            tr[m] = {}
            return NFA(states={"q0", "z1", "z2"} | set(range(1, m + 1)), input_symbols={"a", "b"}, transitions=tr,
                       initial_state="q0", final_states={m})
        n = s["n"]
        tr = {i: {"a": {i + 1}} for i in range(n)}
        tr[n] = {}
        for i in s["marks"]:
            tr[i] = dict(tr[i], **{"": {f"s{i}"}})
            tr[f"s{i}"] = {}
        return NFA(states=set(range(n + 1)) | {f"s{i}" for i in s["marks"]}, input_symbols={"a"}, transitions=tr,
                   initial_state=0, final_states={n} | {f"s{i}" for i in s["marks"]})

    def expr(self) -> str:
        s = self.spec
        if self.kind == "lam_chain":
            return (f"NFA: lambda chain 0 -> 1 -> ... -> {s['n']}, state {s['n']} reads 'a' to 0 and 'd' to {s['mid']}, "
                    + ", ".join(f"state {p} reads {c!r} to the final sink" for p, c in s["marks"]))
        if self.kind == "mth_from_end":
            return (f"NFA of 'the {s['m']}-th symbol from the end is a' over {{a,b}} ({s['m'] + 3} states) with a lambda "
                    "triangle q0 -> z1 -> z2 -> q0 around its start state")
        return (f"NFA: 0 -a-> 1 -a-> ... -a-> {s['n']} (final), lambda edges from the states {s['marks']} to final "
                "side states")

    def n_states(self) -> int:
        s = self.spec
        return {"lam_chain": lambda: s["n"] + 2, "mth_from_end": lambda: s["m"] + 3,
                "sym_chain": lambda: s["n"] + 1 + len(s["marks"])}[self.kind]()

    def member(self, w: str) -> bool:
        s = self.spec
        if self.kind == "mth_from_end":
            return set(w) <= {"a", "b"} and len(w) >= s["m"] and w[-s["m"]] == "a"
        if self.kind == "sym_chain":
            return set(w) <= {"a"} and (len(w) == s["n"] or len(w) in s["marks"])
        # lam_chain: the set of active states is ALL = {0..n} (start, after 'a'), UPPER = {mid..n} (after 'd'),
        # {F} after a mark symbol that one of the active states reads, nothing after anything else
        cur = "ALL"
        for c in w:
            if cur in ("F", "DEAD"):
                cur = "DEAD"
            elif c == "a":
                cur = "ALL"
            elif c == "d":
                cur = "UPPER"
            else:
                ok = any(sym == c and (cur == "ALL" or p >= s["mid"]) for p, sym in s["marks"])
                cur = "F" if ok else "DEAD"
        return cur == "F"

    def last_config(self, w: str):
        """mth_from_end: the configuration after the whole input (sorted reprs), whatever the verdict."""
        assert self.kind == "mth_from_end"
        m = self.spec["m"]
        act = {"q0", "z1", "z2"} | {j for j in range(1, m + 1) if len(w) >= j and w[-j] == "a"}
        return sorted(map(repr, act))

    def lang_key(self):
        s = self.spec
        if self.kind == "mth_from_end":
            return ("mth", s["m"])
        if self.kind == "sym_chain":
            return ("lens", tuple(sorted(set(s["marks"]) | {s["n"]})))
        return ("lam", tuple(sorted({c for _, c in s["marks"]})), tuple(sorted({c for p, c in s["marks"] if p >= s["mid"]})))


def show_nstep(s: dict) -> str:
    q = s["q"]
    if q == "A":
        return f"accepts_input({show_rle(s['w'])})"
    if q in ("READ", "READC"):
        return f"read_input({show_rle(s['w'])})"
    if q == "STEP":
        return f"list(read_input_stepwise({show_rle(s['w'])}))[-1]"
    if q == "EQ":
        return "nfa == other"
    ws = ", ".join(show_rle(w) for w in s["ws"])
    return (f"DFA.from_nfa(nfa).accepts_input(w) for w in [{ws}]" if q == "DET"
            else f"nfa.eliminate_lambda().accepts_input(w) for w in [{ws}]")


def nfa_do(n: NFA, other: Optional[NFA], s: dict):
    q = s["q"]
    g = lambda f: L.guarded(f, TIMEOUT_S)      # noqa: E731
    if q == "A":
        return g(lambda: n.accepts_input(word(s["w"])))
    if q == "READ":
        r = g(lambda: n.read_input(word(s["w"])))
        return ("ok", True) if r[0] == "ok" else r
    if q == "READC":
        return g(lambda: sorted(map(repr, n.read_input(word(s["w"])))))
    if q == "STEP":
        def last():
            c = None
            try:
                for c in n.read_input_stepwise(word(s["w"])):
                    pass
            except RejectionException:      # raised after the last configuration has been yielded
                pass
            return sorted(map(repr, c))
        return g(last)
    if q == "EQ":
        return g(lambda: n == other)
    if q == "DET":
        def det():
            d = DFA.from_nfa(n)
            return [d.accepts_input(word(w)) for w in s["ws"]]
        return g(det)
    if q == "ELIM":
        def elim():
            e = n.eliminate_lambda()
            return [e.accepts_input(word(w)) for w in s["ws"]]
        return g(elim)
    raise ValueError(f"C20 deep family: unknown NFA step {s}")


def nfa_expect(lang: DeepNFA, other: Optional[DeepNFA], s: dict):
    q = s["q"]
    if q == "A":
        return ("ok", lang.member(word(s["w"])))
    if q == "READ":
        return ("ok", True) if lang.member(word(s["w"])) else ("err", "RejectionException")
    if q == "READC":
        w = word(s["w"])
        return ("ok", lang.last_config(w)) if lang.member(w) else ("err", "RejectionException")
    if q == "STEP":
        return ("ok", lang.last_config(word(s["w"])))
    if q == "EQ":
        return ("ok", lang.lang_key() == other.lang_key())
    return ("ok", [lang.member(word(w)) for w in s["ws"]])


def run_nfa(spec: dict, other: Optional[dict], steps, on_step=None):
    lang, olang = DeepNFA(spec), (DeepNFA(other) if other is not None else None)
    n, o = lang.build(), (olang.build() if olang is not None else None)
    for i, s in enumerate(steps):
        got = nfa_do(n, o, s)
        exp = nfa_expect(lang, olang, s)
        if on_step is not None:
            on_step(s, got)
        if got != exp:
            if got == ("err", "_Timeout"):
                return i, f"gave no answer within {TIMEOUT_S} s (the construction dictates {short(exp)})", got
            return i, f"= {short(got)}, the construction dictates {short(exp)}", got
    return None


def tn_lam_chain(rng, P: Profile):
    """A lambda chain of 1100–1300 states: the closure table is the one quadratic object of the NFA half."""
    n = rng.randint(1100, 1300) if P.deep else rng.randint(4, 6)
    mid = n // 2
    marks = [[rng.randint(0, mid - 1), "b"], [rng.randint(mid, n), "c"]]
    spec = dict(kind="lam_chain", n=n, mid=mid, marks=marks)
    n2 = n - 1
    other = dict(kind="lam_chain", n=n2, mid=n2 // 2, marks=[[0, "b"], [n2, "c"]] if rng.random() < 0.6 else [[0, "b"], [0, "c"]])
    W = lambda *ws: [[[c, 1] for c in w] if w else [] for w in ws]      # noqa: E731
    S = Steps(rng)
    for w in W("b", "c", "ab", "db", "dc", "", "a", "bb", "adc", "dab"):
        S.add("A", w=w)
    S.add("READ", w=W("aac")[0]); S.add("READ", w=W("dd")[0])
    S.add("EQ")
    S.add("DET", ws=W("b", "db", "dc", "ddac", "cb"))
    S.add("A", w=W("dac")[0])
    if not P.deep:      # eliminate_lambda is cubic on a lambda chain (2.4 s at n = 1100 on the unchanged tree): asked of the
        S.add("ELIM", ws=W("c", "db", "adc", ""))      # big instances of the two other NFA templates only
    S.add("A", w=W("db")[0]); S.add("EQ")
    return dict(name="nfa_lambda_chain", spec=spec, other=other, steps=S.out)


def tn_long_inputs(rng, P: Profile):
    """A shallow NFA with a lambda cycle, inputs of 3000 symbols read again and again (accepts_input, read_input,
    read_input_stepwise), short inputs in between."""
    m = rng.randint(3, 6) if P.deep else rng.randint(2, 3)
    spec = dict(kind="mth_from_end", m=m)
    other = dict(kind="mth_from_end", m=m + rng.choice([0, 0, 1]))
    ab = ["a", "b"]
    S = Steps(rng)
    long = lambda: rng.randint(2800, 3000) if P.deep else rng.randint(4, 6)      # noqa: E731
    for i in range(P.many(34) if P.deep else 8):
        k = long() if i % 4 != 3 else rng.randint(0, m + 1)
        w = _rand_rle(rng, ab, k)
        S.add(rng.choice(["A", "A", "READC", "STEP", "READ"]), w=w)
        if i in (5, 17):
            S.add("EQ")
        if i == 11:
            S.add("DET", ws=[_rand_rle(rng, ab, long()) for _ in range(3)] + [_rand_rle(rng, ab, m)])
        if i == 23:
            S.add("ELIM", ws=[_rand_rle(rng, ab, long()) for _ in range(2)] + [_rand_rle(rng, ab, m - 1)])
    return dict(name="nfa_long_inputs", spec=spec, other=other, steps=S.out)


def tn_sym_chain(rng, P: Profile):
    """A chain of 2000–3000 symbol edges with lambda edges to final side states: inputs as long as the chain."""
    n = rng.randint(2000, 3000) if P.deep else rng.randint(4, 6)
    marks = sorted({rng.randint(0, n - 1) for _ in range(3)})
    spec = dict(kind="sym_chain", n=n, marks=marks)
    other = dict(kind="sym_chain", n=n, marks=marks if rng.random() < 0.6 else marks[:-1])
    A = lambda k: [["a", k]]      # noqa: E731
    S = Steps(rng)
    S.add("A", w=A(n)); S.add("A", w=A(n - 1) if n - 1 not in marks else A(n + 1)); S.add("A", w=A(marks[0]))
    S.add("READ", w=A(marks[-1])); S.add("READ", w=A(n + 1)); S.add("EQ")
    S.add("DET", ws=[A(n), A(marks[0]), A(n + 1), A(n - 1)])
    S.add("A", w=A(n)); S.add("ELIM", ws=[A(n), A(marks[-1]), A(n + 2)])
    S.add("A", w=A(marks[-1])); S.add("READ", w=A(n)); S.add("EQ"); S.add("A", w=A(n + 3))
    # n-1 may be a mark: the DET probe list is judged by membership, so nothing to adjust there
    return dict(name="nfa_symbol_chain", spec=spec, other=other, steps=S.out)


NFA_TEMPLATES = [tn_lam_chain, tn_long_inputs, tn_sym_chain]


def to_c20_nfa_history(steps):
    """Twin NFA history in the format of ops/C20.run_nfa_history."""
    hist = []
    for s in steps:
        q = s["q"]
        if q == "A":
            hist.append(dict(q="A", w=word(s["w"])))
        elif q in ("READ", "READC", "STEP"):
            hist.append(dict(q="READ", w=word(s["w"])))
        elif q == "EQ":
            hist.append(dict(q="EQ"))
        elif q == "DET":
            hist.append(dict(q="DET"))
        else:
            hist.append(dict(q="ELIM", ws=[word(w) for w in s["ws"]]))
    return hist


def key_of(case: dict) -> str:
    return json.dumps(dict(spec=case["spec"], other=case["other"]), sort_keys=True)
