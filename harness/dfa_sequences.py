"""Sequences of calls on ONE DFA object (shared by the ops modules of C04 and C05).

DFAs are immutable values, so the result of `d.complement()` must not depend on which other
(pure) methods were called on the object `d` before.  The library caches per-object data
(`@cached_method`: `_get_digraph`, word-length queries, …); a cache that a method mutates in
place breaks exactly this (seeded change C05_w2m2: `to_partial()` intersects a shared cached
reachable-set in place, a later `complement()` on the SAME object then minimises the wrong
automaton; fresh objects are fine).  This family keeps one instance alive across 2–4 calls
drawn at random and evaluates EVERY result with the property oracles of the calling module.
"""
from __future__ import annotations

from typing import Any, Callable, Dict, List, Optional, Tuple

from automata.fa.dfa import DFA

from harness import langoracle
from harness.common import Ctx, call

# name -> (callable(d, b), kind, spec, minified)
#   kind "dfa": DFA-valued; spec = predicate over the verdicts of the sources (d) or (d, b)
#   kind "query": scalar answer compared with an oracle
SAME = lambda x: x  # noqa: E731
STEPS: Dict[str, Tuple[Callable[[DFA, DFA], Any], str, Any, bool, int]] = {
    "d.to_partial(minify=True)": (lambda d, b: d.to_partial(minify=True), "dfa", SAME, True, 1),
    "d.to_partial(minify=False)": (lambda d, b: d.to_partial(minify=False), "dfa", SAME, False, 1),
    "d.to_partial(retain_names=True)": (lambda d, b: d.to_partial(retain_names=True), "dfa", SAME, True, 1),
    "d.minify()": (lambda d, b: d.minify(), "dfa", SAME, True, 1),
    "d.minify(retain_names=True)": (lambda d, b: d.minify(retain_names=True), "dfa", SAME, True, 1),
    "d.complement(minify=True)": (lambda d, b: d.complement(minify=True), "dfa", lambda x: not x, True, 1),
    "d.complement(retain_names=True)": (lambda d, b: d.complement(retain_names=True), "dfa", lambda x: not x, True, 1),
    "d.complement(minify=False)": (lambda d, b: d.complement(minify=False), "dfa", lambda x: not x, False, 1),
    "~d": (lambda d, b: ~d, "dfa", lambda x: not x, True, 1),
    "d.to_complete()": (lambda d, b: d.to_complete(), "dfa", SAME, False, 1),
    "d | b": (lambda d, b: d | b, "dfa", lambda x, y: x or y, True, 2),
    "d & b": (lambda d, b: d & b, "dfa", lambda x, y: x and y, True, 2),
    "d - b": (lambda d, b: d - b, "dfa", lambda x, y: x and not y, True, 2),
    "d ^ b": (lambda d, b: d ^ b, "dfa", lambda x, y: x != y, True, 2),
    "b - d": (lambda d, b: b - d, "dfa", lambda x, y: y and not x, True, 2),
    "d.union(b, minify=False)": (lambda d, b: d.union(b, minify=False), "dfa", lambda x, y: x or y, False, 2),
    "d.isempty()": (lambda d, b: d.isempty(), "query", "isempty", False, 1),
    "d.isfinite()": (lambda d, b: d.isfinite(), "query", "isfinite", False, 1),
    "d.maximum_word_length()": (lambda d, b: d.maximum_word_length(), "query", "maxlen", False, 1),
    "d == b": (lambda d, b: d == b, "query", "eq", False, 2),
    "d <= b": (lambda d, b: d <= b, "query", "le", False, 2),
}
STEP_NAMES = list(STEPS)


def _oracle_query(d: DFA, b: DFA, which: str):
    al = d.input_symbols
    if which == "isempty":
        return ("ok", langoracle.find_word([d], al, lambda v: v[0]) is None)
    if which == "eq":
        return ("ok", langoracle.find_word([d, b], al, lambda v: v[0] != v[1]) is None)
    if which == "le":
        return ("ok", langoracle.find_word([d, b], al, lambda v: v[0] and not v[1]) is None)
    from harness.ops.C06 import is_finite
    fin = is_finite(d)
    if which == "isfinite":
        return ("ok", fin)
    # maximum_word_length: EmptyLanguageException on the empty language, None when infinite, else the
    # length of a longest accepted word (longest path over useful states; brute force on the DAG)
    if langoracle.find_word([d], al, lambda v: v[0]) is None:
        return ("err", "EmptyLanguageException")
    if not fin:
        return ("ok", None)
    memo: Dict[Any, int] = {}

    def longest(q) -> int:
        """length of a longest word from q into a final state, -1 if none (language from q is finite)."""
        if q in memo:
            return memo[q]
        best = 0 if q in d.final_states else -1
        memo[q] = best  # guards against cycles through useless states
        for t in d.transitions[q].values():
            k = longest(t) if t not in memo or memo[t] != -1 or t == q else memo[t]
            if k >= 0:
                best = max(best, k + 1)
        memo[q] = best
        return best
    # useless cycles exist only among dead states; compute dead set first so the recursion never loops
    live = set(d.final_states)
    changed = True
    while changed:
        changed = False
        for q, row in d.transitions.items():
            if q not in live and any(t in live for t in row.values()):
                live.add(q)
                changed = True
    memo = {q: -1 for q in d.states if q not in live}
    return ("ok", longest(d.initial_state))


def run_sequence(ctx: Ctx, d: DFA, b: DFA, steps: List[str], origin: str,
                 on_dfa: Callable[[str, list, Any, DFA, dict, bool], bool]) -> None:
    """Execute `steps` in order on the one instance `d` (kept alive by this frame, together with every
    result), evaluating each result.  `on_dfa(what, sources, spec, result, replay, minified)` is the calling
    module's property oracle for DFA-valued results."""
    ctx.stat(origin)
    ctx.stat(f"sequence_len_{len(steps)}")
    keep = []  # results stay referenced: nothing is garbage-collected between the calls
    base = dict(op="sequence", A=repr(d), B=repr(b), steps=list(steps))
    d_before = repr(d)
    all_ok = True
    for i, name in enumerate(steps):
        f, kind, spec, minified, arity = STEPS[name]
        prefix = " ; ".join(steps[: i + 1])
        replay = dict(base, failing_step=i)
        res = call(lambda: f(d, b))
        keep.append(res)
        ctx.stat("seq_step_" + name.split("(")[0].strip())
        if kind == "dfa":
            if res[0] == "err":
                ctx.prop_fail(f"sequence on one object [{prefix}]: step {name} raised {res[1]}", replay)
                all_ok = False
                continue
            srcs = [d] if arity == 1 else [d, b]
            if not on_dfa(f"sequence on one object [{prefix}]: result of {name}", srcs, spec, res[1], replay, minified):
                all_ok = False
        else:
            want = _oracle_query(d, b, spec)
            if res != want:
                ctx.prop_fail(f"sequence on one object [{prefix}]: {name} answered {res} but the oracle says {want}",
                              replay)
                all_ok = False
    if repr(d) != d_before:
        ctx.prop_fail(f"sequence on one object [{' ; '.join(steps)}]: the operand's definition changed", base)
        all_ok = False
    ctx.case(("sequence", base["A"], base["B"], tuple(steps)) if all_ok and len(d.states) >= 2 else None)


def draw_steps(rng, only: Optional[List[str]] = None) -> List[str]:
    names = only or STEP_NAMES
    k = rng.randint(2, 4)
    return [rng.choice(names) for _ in range(k)]
