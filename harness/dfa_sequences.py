"""Sequences of calls on ONE DFA object (shared by the ops modules of C04 and C05).

DFAs are immutable values, so the result of `d.complement()` must not depend on which other
(pure) methods were called on the object `d` before.  The library caches per-object data
(`@cached_method`: `_get_digraph`, word-length queries, …); a cache that a method mutates in
place breaks exactly this (seeded change C05_w2m2: `to_partial()` intersects a shared cached
reachable-set in place, a later `complement()` on the SAME object then minimises the wrong
automaton; fresh objects are fine).  This family keeps one instance alive across 2–4 calls
drawn at random and evaluates EVERY result with the property oracles of the calling module.
"""
from __future__ import annotations

from typing import Any, Callable, Dict, List, Optional, Tuple

from automata.fa.dfa import DFA

from harness import langoracle
from harness.common import Ctx, call

# name -> (callable(d, b), kind, spec, minified)
#   kind "dfa": DFA-valued; spec = predicate over the verdicts of the sources (d) or (d, b)
#   kind "query": scalar answer compared with an oracle
SAME = lambda x: x  # noqa: E731
STEPS: Dict[str, Tuple[Callable[[DFA, DFA], Any], str, Any, bool, int]] = {
    "d.to_partial(minify=True)": (lambda d, b: d.to_partial(minify=True), "dfa", SAME, True, 1),
    "d.to_partial(minify=False)": (lambda d, b: d.to_partial(minify=False), "dfa", SAME, False, 1),
    "d.to_partial(retain_names=True)": (lambda d, b: d.to_partial(retain_names=True), "dfa", SAME, True, 1),
    "d.minify()": (lambda d, b: d.minify(), "dfa", SAME, True, 1),
    "d.minify(retain_names=True)": (lambda d, b: d.minify(retain_names=True), "dfa", SAME, True, 1),
    "d.complement(minify=True)": (lambda d, b: d.complement(minify=True), "dfa", lambda x: not x, True, 1),
    "d.complement(retain_names=True)": (lambda d, b: d.complement(retain_names=True), "dfa", lambda x: not x, True, 1),
    "d.complement(minify=False)": (lambda d, b: d.complement(minify=False), "dfa", lambda x: not x, False, 1),
    "~d": (lambda d, b: ~d, "dfa", lambda x: not x, True, 1),
    "d.to_complete()": (lambda d, b: d.to_complete(), "dfa", SAME, False, 1),
    "d | b": (lambda d, b: d | b, "dfa", lambda x, y: x or y, True, 2),
    "d & b": (lambda d, b: d & b, "dfa", lambda x, y: x and y, True, 2),
    "d - b": (lambda d, b: d - b, "dfa", lambda x, y: x and not y, True, 2),
    "d ^ b": (lambda d, b: d ^ b, "dfa", lambda x, y: x != y, True, 2),
    "b - d": (lambda d, b: b - d, "dfa", lambda x, y: y and not x, True, 2),
    "d.union(b, minify=False)": (lambda d, b: d.union(b, minify=False), "dfa", lambda x, y: x or y, False, 2),
    "d.isempty()": (lambda d, b: d.isempty(), "query", "isempty", False, 1),
    "d.isfinite()": (lambda d, b: d.isfinite(), "query", "isfinite", False, 1),
    "d.maximum_word_length()": (lambda d, b: d.maximum_word_length(), "query", "maxlen", False, 1),
    "d == b": (lambda d, b: d == b, "query", "eq", False, 2),
    "d <= b": (lambda d, b: d <= b, "query", "le", False, 2),
}
STEP_NAMES = list(STEPS)


def _oracle_query(d: DFA, b: DFA, which: str):
    al = d.input_symbols
    if which == "isempty":
        return ("ok", langoracle.find_word([d], al, lambda v: v[0]) is None)
    if which == "eq":
        return ("ok", langoracle.find_word([d, b], al, lambda v: v[0] != v[1]) is None)
    if which == "le":
        return ("ok", langoracle.find_word([d, b], al, lambda v: v[0] and not v[1]) is None)
    from harness.ops.C06 import is_finite
    fin = is_finite(d)
    if which == "isfinite":
        return ("ok", fin)
    # maximum_word_length: EmptyLanguageException on the empty language, None when infinite, else the
    # length of a longest accepted word (longest path over useful states; brute force on the DAG)
    if langoracle.find_word([d], al, lambda v: v[0]) is None:
        return ("err", "EmptyLanguageException")
    if not fin:
        return ("ok", None)
    memo: Dict[Any, int] = {}

    def longest(q) -> int:
        """length of a longest word from q into a final state, -1 if none (language from q is finite)."""
        if q in memo:
            return memo[q]
        best = 0 if q in d.final_states else -1
        memo[q] = best  # guards against cycles through useless states
        for t in d.transitions[q].values():
            k = longest(t) if t not in memo or memo[t] != -1 or t == q else memo[t]
            if k >= 0:
                best = max(best, k + 1)
        memo[q] = best
        return best
    # useless cycles exist only among dead states; compute dead set first so the recursion never loops
    live = set(d.final_states)
    changed = True
    while changed:
        changed = False
        for q, row in d.transitions.items():
            if q not in live and any(t in live for t in row.values()):
                live.add(q)
                changed = True
    memo = {q: -1 for q in d.states if q not in live}
    return ("ok", longest(d.initial_state))


def run_sequence(ctx: Ctx, d: DFA, b: DFA, steps: List[str], origin: str,
                 on_dfa: Callable[[str, list, Any, DFA, dict, bool], bool],
                 ref_d: Optional[DFA] = None, ref_b: Optional[DFA] = None, base_extra: Optional[dict] = None,
                 label: str = "sequence on one object", option_during_calls: Optional[bool] = None,
                 pre: Optional[List[str]] = None) -> None:
    """Execute `steps` in order on the one instance `d` (kept alive by this frame, together with every
    result), evaluating each result.  `on_dfa(what, sources, spec, result, replay, minified)` is the calling
    module's property oracle for DFA-valued results.

    `ref_d` / `ref_b`: FROZEN TWINS — the operands' definitions AS BUILT, when `d` / `b` are live objects that
    the calls may disturb (built under `allow_mutable_automata=True` from plain containers): every judgement
    (language, minimality, names, query answers) is made against the twins, the calls are made on `d` / `b`.
    `pre`: names of PRE_CALLS executed (unjudged) on `d` first.  `option_during_calls`: value the global
    `allow_mutable_automata` has while the steps run (None: leave it alone); the judgements are always made
    with the option off."""
    import automata.base.config as global_config
    ctx.stat(origin)
    ctx.stat(f"sequence_len_{len(steps)}")
    keep = []  # results stay referenced: nothing is garbage-collected between the calls
    jd = d if ref_d is None else ref_d   # what the oracles see
    jb = b if ref_b is None else ref_b
    base = dict(op="sequence", A=repr(jd), B=repr(jb), steps=list(steps))
    if base_extra:
        base.update(base_extra)
    if pre:
        base["pre"] = list(pre)
    d_before = repr(d)

    def with_option(f):
        if option_during_calls is None:
            return call(f)
        saved = global_config.allow_mutable_automata
        global_config.allow_mutable_automata = option_during_calls
        try:
            return call(f)
        finally:
            global_config.allow_mutable_automata = saved
    for name in pre or []:
        keep.append(with_option(lambda: PRE_CALLS[name](d, b)))
        ctx.stat("seq_pre_call")
    all_ok = True
    for i, name in enumerate(steps):
        f, kind, spec, minified, arity = STEPS[name]
        prefix = " ; ".join(list(pre or []) + steps[: i + 1])
        replay = dict(base, failing_step=i)
        res = with_option(lambda: f(d, b))
        keep.append(res)
        ctx.stat("seq_step_" + name.split("(")[0].strip())
        if kind == "dfa":
            if res[0] == "err":
                ctx.prop_fail(f"{label} [{prefix}]: step {name} raised {res[1]}", replay)
                all_ok = False
                continue
            srcs = [jd] if arity == 1 else [jd, jb]
            if not on_dfa(f"{label} [{prefix}]: result of {name}", srcs, spec, res[1], replay, minified):
                all_ok = False
        else:
            want = _oracle_query(jd, jb, spec)
            if res != want:
                ctx.prop_fail(f"{label} [{prefix}]: {name} answered {res} but the oracle says {want}",
                              replay)
                all_ok = False
    if repr(d) != d_before:
        if ref_d is None:
            ctx.prop_fail(f"{label} [{' ; '.join(steps)}]: the operand's definition changed", base)
            all_ok = False
        else:
            # under the mutable-automata option this is C18's clause; here only the RESULTS are judged
            ctx.stat("mutable_option_operand_definition_changed")
    ctx.case(("sequence", base["A"], base["B"], tuple(pre or ()), tuple(steps), option_during_calls)
             if all_ok and len(jd.states) >= 2 else None)


# calls that must not matter for what a later operation returns (unjudged; they fill per-object caches and,
# under the mutable-automata option, get their hands on the caller's containers)
PRE_CALLS: Dict[str, Callable[[DFA, DFA], Any]] = {
    "d.isempty()": lambda d, b: d.isempty(),
    "d.isfinite()": lambda d, b: d.isfinite(),
    "d.accepts_input('')": lambda d, b: d.accepts_input(""),
    "d.minimum_word_length()": lambda d, b: d.minimum_word_length(),
    "d.maximum_word_length()": lambda d, b: d.maximum_word_length(),
    "d.cardinality()": lambda d, b: d.cardinality(),
    "d == d": lambda d, b: d == d,
    "d == b": lambda d, b: d == b,
    "d.isdisjoint(b)": lambda d, b: d.isdisjoint(b),
    "d.copy()": lambda d, b: d.copy(),
    "d.validate()": lambda d, b: d.validate(),
    "next(iter(d))": lambda d, b: next(iter(d), None),
    "d.count_words_of_length(2)": lambda d, b: d.count_words_of_length(2),
    "d.random_word(3)": lambda d, b: d.random_word(3, seed=1),
    "b.minify()": lambda d, b: b.minify(),
}


def build_under_option(ref: DFA, option: bool = True) -> DFA:
    """The definition of the frozen DFA `ref` handed to the constructor again in PLAIN containers
    (set / dict of dicts) while `allow_mutable_automata` is `option` — with the option on the library keeps
    exactly these containers."""
    import automata.base.config as global_config
    saved = global_config.allow_mutable_automata
    global_config.allow_mutable_automata = option
    try:
        return DFA(states=set(ref.states), input_symbols=set(ref.input_symbols),
                   transitions={k: dict(row) for k, row in ref.transitions.items()},
                   initial_state=ref.initial_state, final_states=set(ref.final_states),
                   allow_partial=ref.allow_partial)
    finally:
        global_config.allow_mutable_automata = saved


def run_mutable_sequence(ctx: Ctx, ref_d: DFA, ref_b: DFA, pre: List[str], steps: List[str],
                         option_during_calls: bool, origin: str, on_dfa) -> None:
    """`allow_mutable_automata=True` with plain containers: build live twins of the frozen `ref_d`, `ref_b`
    under the option, run `pre` (unjudged) and `steps` on them, judge every result against the FROZEN
    definitions.  A library function that uses a container it was handed as its own work set (BFS `seen`
    set := final_states, in-place `&=` / `|=` / `.update` on states / rows) corrupts the live operand, and the
    result — or the result of the next call — is wrong for the definition as built."""
    d = build_under_option(ref_d)
    b = build_under_option(ref_b)
    run_sequence(ctx, d, b, steps, origin, on_dfa, ref_d=ref_d, ref_b=ref_b,
                 base_extra=dict(mutable=True, option_during_calls=option_during_calls),
                 label="allow_mutable_automata=True, operands built from plain set/dict containers"
                       + ("" if option_during_calls else ", option switched off again before the calls"),
                 option_during_calls=option_during_calls, pre=pre)


def draw_mutable_history(rng) -> Tuple[List[str], List[str], bool]:
    """(pre-calls, steps, option on during the calls?) — 0–2 unjudged calls, then 1–3 judged steps, one of
    them often repeated (a second call on the same, possibly disturbed, object)."""
    pre = [rng.choice(list(PRE_CALLS)) for _ in range(rng.choice([0, 0, 1, 2]))]
    steps = [rng.choice(STEP_NAMES) for _ in range(rng.randint(1, 3))]
    if rng.random() < 0.3:
        steps.append(rng.choice(steps))
    return pre, steps, rng.random() < 0.7


def draw_steps(rng, only: Optional[List[str]] = None) -> List[str]:
    names = only or STEP_NAMES
    k = rng.randint(2, 4)
    return [rng.choice(names) for _ in range(k)]
