"""C04 — generator family "large products": Boolean operations whose product construction has HUNDREDS of
reachable state pairs and re-enters early pairs late in the expansion.

Why (the property's quantifier): C04 quantifies over ALL pairs of valid DFAs and all finite expression trees.  The
other families of harness/ops/C04.py draw operands with at most 6 states, so every product they reach has at most a
few dozen pairs.  Anything in the product construction, in the minimisation that follows it, or in a helper they use
indirectly (automata/base/utils.py: the renaming function of `_expand_dfa`, PartitionRefinement of `_minify`, …) that
only goes wrong above a SIZE THRESHOLD (a bounded cache, a fixed-size table, a recursion, a chunked loop) is out of
their reach.  This family draws operand pairs with closed-form languages and products of about 130–600 pairs:

* counters `number of <counted symbols> ≡ r (mod m)` × counters over another symbol, and `length mod m` × `length
  mod n` (one long cycle of lcm(m, n) pairs), complete and partial variants (undefined transitions at chosen
  (residue, symbol) places, "cap" = the count may not wrap), int / str state names,
* library-built operands with dozens of states each: DFA.of_length, DFA.from_finite_language, DFA.nth_from_end,
  DFA.count_mod, each against a counter sized so that the product is in the same range,
* all four binary operations × both retain_names × both minify settings (every one of the 16 combinations on a
  cyclic counter product in EVERY run), the operators | & - ^, and chains (A op B) op C, A op (B op C), ~(A op B) op C.

Oracle (independent of the operation code — no model correspondence here, the Lean driver is not asked):
  1. the result validates and has the operands' alphabet;
  2. a few hundred words chosen around the periods (multiples of m, n, lcm(m, n), the length bounds, each ±1; as
     a^i b^j, b^j a^i and shuffled) are judged through the real `accepts_input` of the result against the CLOSED-FORM
     membership of the leaves (arithmetic on symbol counts — `member`), cross-checked with the leaves' real
     accepts_input;
  3. a complete product search over (states of the leaves, state of the result) (harness/langoracle.py) — language
     equality over all strings, not a sample; every reported word is confirmed through real accepts_input calls;
  4. where the outermost operation minifies: the number of states equals the number of Myhill–Nerode classes (live
     classes for a really partial result) of the EXPECTED language, computed by Moore refinement on a product the
     harness builds itself from the leaves' transition tables.

Everything is drawn from ctx.rng; a case is (leaf specs, expression tree, word seed) — plain JSON, which is the replay.
"""
from __future__ import annotations

import ast
import json
import math
import os
import random
from typing import Any, Callable, Dict, List, Optional, Tuple

from automata.fa.dfa import DFA

from harness import langoracle
from harness.common import Ctx, call, guarded
from harness.dfaops_common import check_valid, lang_mismatch

BINOPS = {
    "union": (lambda a, b, **k: a.union(b, **k), lambda x, y: x or y, lambda a, b: a | b, "|"),
    "inter": (lambda a, b, **k: a.intersection(b, **k), lambda x, y: x and y, lambda a, b: a & b, "&"),
    "diff": (lambda a, b, **k: a.difference(b, **k), lambda x, y: x and not y, lambda a, b: a - b, "-"),
    "symm": (lambda a, b, **k: a.symmetric_difference(b, **k), lambda x, y: x != y, lambda a, b: a ^ b, "^"),
}
OPTS = [(r, m) for r in (False, True) for m in (False, True)]
PAIRS_LO, PAIRS_HI = 130, 600


# --------------------------------------------------------------------------------------------- leaves
def _name(style: str, i: int):
    return i if style == "int" else f"s{i}"


def build_leaf(spec: dict) -> DFA:
    """The real operand object of a leaf spec (through the real constructor / factory, validation on)."""
    k = spec["k"]
    al = set(spec["al"])
    if k == "count":
        m, style = spec["m"], spec.get("names", "int")
        dead = {(i, s) for i, s in spec.get("dead", [])}
        counted = set(spec["counted"])
        tr = {}
        for i in range(m):
            row = {}
            for s in sorted(al):
                if (i, s) in dead:
                    continue
                row[s] = _name(style, (i + 1) % m if s in counted else i)
            tr[_name(style, i)] = row
        return DFA(states={_name(style, i) for i in range(m)}, input_symbols=al, transitions=tr,
                   initial_state=_name(style, 0), final_states={_name(style, r) for r in spec["acc"]},
                   allow_partial=bool(dead))
    if k == "of_length":
        return DFA.of_length(al, min_length=spec["min"], max_length=spec["max"],
                             symbols_to_count=None if spec["counted"] is None else set(spec["counted"]))
    if k == "finite":
        return DFA.from_finite_language(al, set(spec["words"]), as_partial=spec["as_partial"])
    if k == "nth":
        return DFA.nth_from_end(al, spec["sym"], spec["n"])
    if k == "count_mod":
        return DFA.count_mod(al, spec["m"], remainders=set(spec["acc"]),
                             symbols_to_count=None if spec["counted"] is None else set(spec["counted"]))
    raise ValueError(k)


def member(spec: dict, w: str) -> bool:
    """Closed-form membership of a leaf language (arithmetic on the word; shares nothing with the library)."""
    k = spec["k"]
    if k == "count":
        dead = {(i, s) for i, s in spec.get("dead", [])}
        counted = spec["counted"]
        m = spec["m"]
        if not dead:
            return sum(1 for ch in w if ch in counted) % m in spec["acc"]
        c = 0
        for ch in w:
            if (c, ch) in dead:
                return False
            if ch in counted:
                c = (c + 1) % m
        return c in spec["acc"]
    if k == "of_length":
        counted = spec["al"] if spec["counted"] is None else spec["counted"]
        c = sum(1 for ch in w if ch in counted)
        return spec["min"] <= c and (spec["max"] is None or c <= spec["max"])
    if k == "finite":
        return w in spec["words"]
    if k == "nth":
        return len(w) >= spec["n"] and w[-spec["n"]] == spec["sym"]
    if k == "count_mod":
        counted = spec["al"] if spec["counted"] is None else spec["counted"]
        return sum(1 for ch in w if ch in counted) % spec["m"] in spec["acc"]
    raise ValueError(k)


def leaf_numbers(spec: dict) -> List[int]:
    """The integers around which the leaf's language changes (periods, bounds, residues)."""
    k = spec["k"]
    if k in ("count", "count_mod"):
        m = spec["m"]
        out = [m - 1, m, m + 1, 2 * m - 1, 2 * m, 2 * m + 1]
        out += list(spec["acc"]) + [r + m for r in spec["acc"]]
        out += [i for i, _ in spec.get("dead", [])]
        return out
    if k == "of_length":
        out = [spec["min"] - 1, spec["min"], spec["min"] + 1]
        if spec["max"] is not None:
            out += [spec["max"] - 1, spec["max"], spec["max"] + 1]
        return out
    if k == "finite":
        return sorted({len(x) for x in spec["words"]})
    if k == "nth":
        n = spec["n"]
        return [n - 1, n, n + 1, 2 * n]
    return []


def leaf_period(spec: dict) -> int:
    return spec["m"] if spec["k"] in ("count", "count_mod") else 1


def _residues(rng: random.Random, m: int) -> List[int]:
    n = rng.choice([1, 1, 2, 2, 3])
    return sorted(rng.sample(range(m), min(n, m)))


def draw_counter(rng: random.Random, al: str, counted: str, m: int, partial: Optional[bool] = None) -> dict:
    """counter spec; partial: a few undefined (residue, symbol) places — on a non-counted symbol the word dies at that
    residue, on a counted symbol only at residue m-1 ("cap": the count may not wrap around)."""
    dead: List[List[Any]] = []
    if partial is None:
        partial = rng.random() < 0.4
    if partial:
        others = [s for s in al if s not in counted]
        kind = rng.choice(["gaps", "cap", "both"]) if others else "cap"
        if kind in ("gaps", "both") and others:
            for i in rng.sample(range(m), min(m, rng.choice([1, 2, 3]))):
                dead.append([i, rng.choice(others)])
        if kind in ("cap", "both"):
            dead.append([m - 1, rng.choice(sorted(counted))])
    return dict(k="count", al=al, counted=counted, m=m, acc=_residues(rng, m), dead=sorted(dead),
                names=rng.choice(["int", "int", "str"]))


def draw_moduli(rng: random.Random, lo: int = PAIRS_LO, hi: int = PAIRS_HI) -> Tuple[int, int]:
    """(m, n) with lo ≤ m·n ≤ hi, both ≥ 5; the product size is spread over the whole range."""
    target = rng.choice([rng.randint(lo, min(200, hi)), rng.randint(lo, hi), rng.randint(min(300, hi), hi)])
    m = rng.randint(5, int(math.isqrt(target)) + 6)
    n = max(5, -(-target // m))
    while m * n > hi:
        n -= 1
    while m * n < lo:
        n += 1
    return (m, n) if rng.random() < 0.5 else (n, m)


def draw_coprime_moduli(rng: random.Random) -> Tuple[int, int]:
    for _ in range(200):
        m, n = draw_moduli(rng)
        if math.gcd(m, n) == 1:
            return m, n
    return 12, 13


def draw_library_leaf(rng: random.Random, al: str) -> Tuple[dict, int]:
    """A library-built operand with dozens of states → (spec, number of states it is expected to have, roughly)."""
    kind = rng.choice(["of_length", "of_length", "finite", "nth", "count_mod"])
    if kind == "of_length":
        lo = rng.randint(0, 12)
        hi = None if rng.random() < 0.3 else lo + rng.randint(4, 24)
        counted = None if rng.random() < 0.5 else rng.choice(sorted(al))
        return dict(k="of_length", al=al, min=lo, max=hi, counted=counted), (lo if hi is None else hi + 1) + 1
    if kind == "finite":
        words = set()
        for _ in range(rng.randint(8, 16)):
            words.add("".join(rng.choice(al) for _ in range(rng.randint(3, 9))))
        return dict(k="finite", al=al, words=sorted(words), as_partial=rng.random() < 0.6), 4 * len(words)
    if kind == "nth":
        n = rng.randint(4, 6)
        return dict(k="nth", al=al, sym=rng.choice(sorted(al)), n=n), 2 ** n
    m = rng.randint(14, 30)
    return dict(k="count_mod", al=al, m=m, acc=_residues(rng, m),
                counted=None if rng.random() < 0.4 else rng.choice(sorted(al))), m


# --------------------------------------------------------------------------------------------- trees
def eval_real(leaves: List[DFA], tree) -> DFA:
    """The expression through real library calls."""
    kind = tree[0]
    if kind == "leaf":
        return leaves[tree[1]]
    if kind in BINOPS:
        _, lt, rt, retain, minify, use_op = tree
        l, r = eval_real(leaves, lt), eval_real(leaves, rt)
        f, _, oper, _ = BINOPS[kind]
        return oper(l, r) if use_op else f(l, r, retain_names=retain, minify=minify)
    if kind == "compl":
        _, st, retain, minify, use_op = tree
        l = eval_real(leaves, st)
        return ~l if use_op else l.complement(retain_names=retain, minify=minify)
    raise ValueError(kind)


def tree_pred(tree) -> Callable[[Tuple[bool, ...]], bool]:
    """The set operation as a predicate over the tuple of leaf verdicts."""
    kind = tree[0]
    if kind == "leaf":
        i = tree[1]
        return lambda v: bool(v[i])
    if kind in BINOPS:
        fl, fr = tree_pred(tree[1]), tree_pred(tree[2])
        spec = BINOPS[kind][1]
        return lambda v: bool(spec(fl(v), fr(v)))
    fl = tree_pred(tree[1])
    return lambda v: not fl(v)


def tree_text(tree) -> str:
    kind = tree[0]
    if kind == "leaf":
        return f"L{tree[1]}"
    if kind in BINOPS:
        _, lt, rt, retain, minify, use_op = tree
        if use_op:
            return f"({tree_text(lt)} {BINOPS[kind][3]} {tree_text(rt)})"
        return f"{kind}[r{int(retain)}m{int(minify)}]({tree_text(lt)},{tree_text(rt)})"
    _, st, retain, minify, use_op = tree
    return f"~{tree_text(st)}" if use_op else f"compl[r{int(retain)}m{int(minify)}]({tree_text(st)})"


def root_minifies(tree) -> bool:
    kind = tree[0]
    if kind in BINOPS:
        return bool(tree[5] or tree[4])
    if kind == "compl":
        return bool(tree[4] or tree[3])
    return False


def leaf_text(spec: dict) -> str:
    k = spec["k"]
    if k == "count":
        d = f" undefined at {spec['dead']}" if spec.get("dead") else ""
        return f"#{{{spec['counted']}}} mod {spec['m']} ∈ {spec['acc']}{d} over {spec['al']}"
    if k == "of_length":
        return f"of_length(min={spec['min']}, max={spec['max']}, count={spec['counted']}) over {spec['al']}"
    if k == "finite":
        return f"from_finite_language({len(spec['words'])} words, as_partial={spec['as_partial']}) over {spec['al']}"
    if k == "nth":
        return f"nth_from_end({spec['sym']!r}, {spec['n']}) over {spec['al']}"
    return f"count_mod({spec['m']}, {spec['acc']}, count={spec['counted']}) over {spec['al']}"


# --------------------------------------------------------------------------------------------- words
def draw_words(specs: List[dict], word_seed: int, n_words: int = 260, max_len: int = 1300) -> List[str]:
    """Words around the periods of the leaves: counts i, j taken from {0, 1, k·p−1, k·p, k·p+1, bounds ±1, residues,
    lcm ±1}; as a^i b^j, b^j a^i, shuffled; random words whose LENGTH is such a number; the words of finite leaves
    and their one-symbol neighbours."""
    rng = random.Random(word_seed)
    al = sorted(specs[0]["al"])
    nums = {0, 1, 2, 3}
    for s in specs:
        nums.update(x for x in leaf_numbers(s) if x >= 0)
    periods = [leaf_period(s) for s in specs]
    L = 1
    for p in periods:
        L = L * p // math.gcd(L, p)
    if L > 1:
        for k in (1, 2):
            for d in (-1, 0, 1):
                nums.add(k * L + d)
    for i, p in enumerate(periods):
        for q in periods[i + 1:]:
            l2 = p * q // math.gcd(p, q)
            nums.update((l2 - 1, l2, l2 + 1))
    nums = sorted(x for x in nums if 0 <= x <= max_len)
    small = [x for x in nums if x <= 140] or [0, 1]
    out: List[str] = [""]
    seen = {""}

    def add(w: str):
        if len(w) <= max_len and w not in seen:
            seen.add(w)
            out.append(w)

    for s in specs:
        if s["k"] == "finite":
            for w in s["words"]:
                add(w)
                add(w[:-1])
                add(w + rng.choice(al))
                if w:
                    j = rng.randrange(len(w))
                    add(w[:j] + rng.choice(al) + w[j + 1:])
    a, b = al[0], al[1 % len(al)]
    rest = al[2:]
    tries = 0
    while len(out) < n_words and tries < 6 * n_words:
        tries += 1
        k = rng.random()
        if k < 0.45:
            i, j = rng.choice(small), rng.choice(small)
            form = rng.randrange(4)
            if form == 0:
                add(a * i + b * j)
            elif form == 1:
                add(b * j + a * i)
            else:
                chars = [a] * i + [b] * j
                if rest and rng.random() < 0.5:
                    chars += [rng.choice(rest)] * rng.choice(small[:6])
                rng.shuffle(chars)
                add("".join(chars))
        elif k < 0.8:
            n = rng.choice(nums)
            if n > 320 and rng.random() < 0.6:
                n = rng.choice(small)
            add("".join(rng.choice(al) for _ in range(n)))
        else:
            # one symbol only: pure length / pure count
            add(rng.choice(al) * rng.choice(nums))
    return out


# --------------------------------------------------------------------------------------------- independent size oracles
class _Product:
    """Product of the leaves' transition tables with the tree predicate as acceptance (harness-built)."""

    def __init__(self, leaves: List[DFA], pred):
        self.ms = [langoracle.DFAMachine(d) for d in leaves]
        self.pred = pred

    def start(self):
        return tuple(m.start() for m in self.ms)

    def step(self, st, a):
        return tuple(m.step(s, a) for m, s in zip(self.ms, st))

    def accepting(self, st) -> bool:
        return bool(self.pred(tuple(m.accepting(s) for m, s in zip(self.ms, st))))


def expected_index(leaves: List[DFA], pred, alphabet, work_limit: int = 600_000) -> Optional[Tuple[int, int, int]]:
    """(reachable tuples of the harness-built product incl. sinks, Myhill–Nerode classes of the expected language,
    live classes) by Moore refinement; None when the work limit is exceeded."""
    alphabet = sorted(alphabet)
    P = _Product(leaves, pred)
    idx = {P.start(): 0}
    order = [P.start()]
    trans: List[List[int]] = []
    i = 0
    while i < len(order):
        st = order[i]
        i += 1
        row = []
        for a in alphabet:
            t = P.step(st, a)
            if t not in idx:
                idx[t] = len(order)
                order.append(t)
            row.append(idx[t])
        trans.append(row)
    n = len(order)
    acc = [P.accepting(st) for st in order]
    cls = [int(x) for x in acc]
    n_cls = len(set(cls))
    work = 0
    while True:
        work += n * (len(alphabet) + 1)
        if work > work_limit:
            return None
        ids: Dict[tuple, int] = {}
        new = [0] * n
        for s in range(n):
            sig = (cls[s],) + tuple(cls[t] for t in trans[s])
            new[s] = ids.setdefault(sig, len(ids))
        cls = new
        if len(ids) == n_cls:
            break
        n_cls = len(ids)
    live = set(s for s in range(n) if acc[s])
    back: Dict[int, List[int]] = {}
    for s in range(n):
        for t in trans[s]:
            back.setdefault(t, []).append(s)
    stack = list(live)
    while stack:
        t = stack.pop()
        for s in back.get(t, ()):
            if s not in live:
                live.add(s)
                stack.append(s)
    return n, n_cls, len({cls[s] for s in live})


def _bucket(n: int) -> str:
    if n <= 128:
        return "le128"
    if n <= 200:
        return "129_200"
    if n <= 400:
        return "201_400"
    if n <= 600:
        return "401_600"
    return "gt600"


# --------------------------------------------------------------------------------------------- one case
@guarded
def do_large(ctx: Ctx, specs: List[dict], tree, word_seed: int, origin: str, known_word: Optional[str] = None):
    ctx.stat("large_product_case")
    ctx.stat("large_" + origin)
    replay = dict(op="large_product", leaves=specs, tree=tree, word_seed=word_seed, expr=tree_text(tree),
                  leaves_text=[leaf_text(s) for s in specs])
    built = call(lambda: [build_leaf(s) for s in specs])
    if built[0] == "err":
        # constructing the operand is not this property's subject (C15 / C01); say so and go on
        ctx.case(None)
        ctx.stat("large_leaf_construction_failed")
        ctx.note(f"large products: building an operand raised {built[1]} ({[leaf_text(s) for s in specs]})")
        return
    leaves = built[1]
    al = leaves[0].input_symbols
    what = f"large product {tree_text(tree)} with " + "; ".join(f"L{i} = {leaf_text(s)}" for i, s in enumerate(specs))
    res = call(lambda: eval_real(leaves, tree))
    for node in _nodes(tree):
        if node[0] in BINOPS:
            use_op = node[5]
            ctx.stat(f"large_binop_{node[0]}")
            ctx.stat("large_opts_" + ("operator" if use_op else f"retain{int(node[3])}_minify{int(node[4])}"))
    for s in specs:
        ctx.stat("large_leaf_" + s["k"] + ("_partial" if s.get("dead") or s.get("as_partial") else ""))
    if res[0] == "err":
        ctx.case(None)
        ctx.prop_fail(f"{what}: raised {res[1]} on valid operands", replay)
        return
    R = res[1]
    if not isinstance(R, DFA):
        ctx.case(None)
        ctx.prop_fail(f"{what}: result is not a DFA ({type(R).__name__})", replay)
        return
    bad = check_valid(R)
    if bad:
        ctx.case(None)
        ctx.prop_fail(f"{what}: result does not validate ({bad})", replay)
        return
    if R.input_symbols != al:
        ctx.case(None)
        ctx.prop_fail(f"{what}: result alphabet differs from the operands'", replay)
        return
    pred = tree_pred(tree)
    # 2. closed-form judgement on words around the periods, through the real accepts_input
    words = draw_words(specs, word_seed)
    if known_word is not None and known_word not in words:
        words.append(known_word)
    ctx.stat("large_words_judged", len(words))
    verdicts = set()
    failed = False
    for w in words:
        closed = tuple(member(s, w) for s in specs)
        want = pred(closed)
        verdicts.add(want)
        got = bool(R.accepts_input(w))
        if got == want:
            continue
        real = tuple(bool(d.accepts_input(w)) for d in leaves)
        if real != closed:
            # the leaf (library factory / reader) does not have its closed-form language: not this property's
            # subject; judge by the operands' real languages, which is what the property is about
            ctx.stat("large_leaf_closed_form_mismatch")
            if pred(real) == got:
                continue
        ctx.prop_fail(f"{what}: result and set operation disagree on the word of length {len(w)} with counts "
                      f"{_counts(w)} (closed-form operand verdicts {list(closed)}, operands accept {list(real)}, "
                      f"set operation gives {pred(real)}, result accepts {got}; result has {len(R.states)} states)",
                      dict(replay, word=w))
        failed = True
        break
    # 3. complete product search: language equality over all strings
    if not failed:
        w = lang_mismatch(leaves, R, al, lambda *v: pred(v))
        if w is not None:
            ctx.prop_fail(f"{what}: result and set operation disagree on word {w!r} (operands accept: "
                          f"{[d.accepts_input(w) for d in leaves]}, result accepts: {R.accepts_input(w)}; found by the "
                          f"complete product search, not by the sampled words)", dict(replay, word=w))
            failed = True
    # 4. sizes
    sizes = expected_index(leaves, pred, al)
    if sizes is None:
        ctx.stat("large_size_oracle_skipped")
    else:
        n_tuples, n_classes, n_live = sizes
        ctx.stat("large_pairs_" + _bucket(n_tuples))
        if n_tuples > 128:
            ctx.stat("large_more_than_128_pairs")
        if not failed and root_minifies(tree):
            ctx.stat("large_min_count_checked")
            really_partial = any(len(row) != len(al) for row in R.transitions.values())
            want_n = max(1, n_live) if really_partial else n_classes
            if len(R.states) != want_n:
                kind = "partial" if really_partial else "complete"
                ctx.prop_fail(f"{what}: minify=True {kind} result has {len(R.states)} states, the minimal DFA of the "
                              f"set operation has {want_n} (Nerode index {n_classes}, live classes {n_live})", replay)
                failed = True
    if R.allow_partial:
        ctx.stat("large_result_partial")
    nt = (not failed) and len(verdicts) == 2
    ctx.case(("large", json.dumps(specs, sort_keys=True), json.dumps(tree)) if nt else None)
    if ctx.stats.get("large_product_case", 0) % 23 == 1:
        ctx.sample(dict(op="large_product", expr=tree_text(tree), leaves=[leaf_text(s) for s in specs],
                        result_states=len(R.states), product_tuples=None if sizes is None else sizes[0],
                        words_judged=len(words)))


def _nodes(tree):
    yield tree
    if tree[0] in BINOPS:
        yield from _nodes(tree[1])
        yield from _nodes(tree[2])
    elif tree[0] == "compl":
        yield from _nodes(tree[1])


def _counts(w: str) -> dict:
    out: Dict[str, int] = {}
    for ch in w:
        out[ch] = out.get(ch, 0) + 1
    return dict(sorted(out.items()))


# --------------------------------------------------------------------------------------------- the family
def _binop(rng, opname=None, opts=None, use_op=False, l=None, r=None):
    opname = opname or rng.choice(list(BINOPS))
    retain, minify = opts if opts is not None else OPTS[rng.randrange(4)]
    return [opname, l or ["leaf", 0], r or ["leaf", 1], retain, minify, use_op]


def draw_counter_pair(rng: random.Random, partial: Optional[bool] = None) -> List[dict]:
    """'number of a ≡ r mod m' × 'number of b ≡ s mod n' (all m·n pairs reachable, every row and column a cycle)."""
    al = rng.choice(["ab", "ab", "abc"])
    m, n = draw_moduli(rng)
    A = draw_counter(rng, al, "a", m, partial)
    B = draw_counter(rng, al, "b" if rng.random() < 0.8 or len(al) < 3 else "bc", n, partial)
    return [A, B]


def draw_length_pair(rng: random.Random, partial: Optional[bool] = None) -> List[dict]:
    """'length ≡ r mod m' × 'length ≡ s mod n', gcd 1: ONE cycle through all m·n pairs."""
    al = rng.choice(["ab", "ab", "abc"])
    m, n = draw_coprime_moduli(rng)
    A = draw_counter(rng, al, al, m, False)
    B = draw_counter(rng, al, al, n, False)
    if partial if partial is not None else rng.random() < 0.3:
        # one symbol undefined at one residue of one side: the cycle stays, words through that place die
        A["dead"] = [[rng.randrange(m), al[-1]]]
    return [A, B]


def draw_library_pair(rng: random.Random) -> List[dict]:
    """A library-built operand with dozens of states × a counter sized so that the product has 130–600 pairs."""
    al = rng.choice(["ab", "ab", "abc"])
    L, size = draw_library_leaf(rng, al)
    size = max(2, size)
    lo = max(3, -(-(PAIRS_LO + 20) // size))
    hi = max(lo, min(40, PAIRS_HI // size))
    m = rng.randint(lo, hi)
    C = draw_counter(rng, al, rng.choice([al[0], al[1], al]), m)
    return [L, C] if rng.random() < 0.5 else [C, L]


def draw_chain(rng: random.Random) -> Tuple[List[dict], Any]:
    """(A op B) op C, A op (B op C), ~(A op B) op C with a large inner product and a small third operand."""
    al = rng.choice(["ab", "ab", "abc"])
    m, n = draw_moduli(rng, PAIRS_LO, 260)
    A = draw_counter(rng, al, "a", m)
    B = draw_counter(rng, al, "b", n)
    if rng.random() < 0.5:
        C = draw_counter(rng, al, rng.choice(["a", "b", al]), rng.randint(2, 4), partial=rng.random() < 0.3)
    else:
        lo = rng.randint(0, 3)
        C = dict(k="of_length", al=al, min=lo, max=None if rng.random() < 0.5 else lo + rng.randint(1, 4),
                 counted=None if rng.random() < 0.5 else rng.choice(sorted(al)))
    shape = rng.randrange(3)
    inner_use_op = rng.random() < 0.25
    if shape == 0:
        tree = _binop(rng, l=_binop(rng, use_op=inner_use_op), r=["leaf", 2], use_op=rng.random() < 0.25)
    elif shape == 1:
        tree = _binop(rng, l=["leaf", 2], r=_binop(rng, use_op=inner_use_op), use_op=rng.random() < 0.25)
    else:
        inner = ["compl", _binop(rng, use_op=inner_use_op), rng.random() < 0.5, rng.random() < 0.5, rng.random() < 0.4]
        tree = _binop(rng, l=inner, r=["leaf", 2], use_op=rng.random() < 0.25)
    return [A, B, C], tree


def helper_modules_note(ctx: Ctx) -> int:
    """Which names of modules OUTSIDE automata/fa/dfa.py the anchored code imports (stats `uses_helper:…`), and
    whether a function of automata/base/utils.py differs from the fingerprint baseline — the ×3 rule of harness/run.py
    looks at the anchored file only; a changed helper is a second reason to look harder (→ scale of this family)."""
    import automata.fa.dfa as dfa_mod
    scale = 1
    used: Dict[str, List[str]] = {}
    try:
        src = open(dfa_mod.__file__).read()
        for node in ast.walk(ast.parse(src)):
            if isinstance(node, ast.ImportFrom) and node.module and node.module.startswith("automata."):
                used.setdefault(node.module, []).extend(a.name for a in node.names)
            elif isinstance(node, ast.Import):
                for a in node.names:
                    if a.name.startswith("automata.") or a.name in ("networkx", "cached_method"):
                        used.setdefault(a.name, [])
            elif isinstance(node, ast.ImportFrom) and node.module in ("cached_method", "frozendict"):
                used.setdefault(node.module, []).extend(a.name for a in node.names)
        for mod, names in sorted(used.items()):
            if names:
                for nm in sorted(set(names)):
                    ctx.stat(f"uses_helper:{mod}.{nm}")
            else:
                ctx.stat(f"uses_helper:{mod}")
        ctx.note("helper modules the anchored automata/fa/dfa.py imports (exercised through it, not fingerprinted by "
                 "the ×3 rule): " + "; ".join(f"{m}" + (f" ({', '.join(sorted(set(n)))})" if n else "")
                                             for m, n in sorted(used.items())))
    except Exception as e:  # noqa: BLE001
        ctx.note(f"helper modules of dfa.py could not be listed: {type(e).__name__}: {e}")
    try:
        # only the helpers dfa.py actually imports from automata/base/utils.py (functions by name, classes by their
        # methods): other functions of that file are not reached through the anchored code
        import automata.base.utils as utils_mod
        wanted = set(used.get("automata.base.utils", []))
        for node in ast.parse(open(utils_mod.__file__).read()).body:
            if isinstance(node, ast.ClassDef) and node.name in wanted:
                wanted.update(n.name for n in node.body if isinstance(n, (ast.FunctionDef, ast.AsyncFunctionDef)))
        verif = os.path.dirname(os.path.dirname(os.path.abspath(__file__)))
        cur = json.load(open(os.path.join(verif, "build", "fingerprints.json")))
        base = json.load(open(os.path.join(verif, "harness", "fingerprints_baseline.json")))

        def strip(d):
            out: Dict[Tuple[str, str], set] = {}
            for k, v in d.items():
                f, name, _ = k.rsplit(":", 2)
                if f == "automata/base/utils.py" and name in wanted:
                    out.setdefault((f, name), set()).add(v)
            return out
        c, b = strip(cur), strip(base)
        changed = sorted(n for (f, n) in set(c) | set(b) if c.get((f, n)) != b.get((f, n)))
        if changed:
            scale = 3
            ctx.stat("helper_function_changed", len(changed))
            ctx.note(f"{len(changed)} helper function(s) of automata/base/utils.py used by dfa.py differ from the "
                     f"fingerprint baseline ({', '.join(changed[:6])}): large-product family ×3")
    except Exception:  # noqa: BLE001
        pass
    return scale


def run_large_products(ctx: Ctx):
    """Runs on EVERY run (quick and thorough), whatever the changed-function rule says."""
    rng = ctx.rng
    scale = helper_modules_note(ctx)
    rounds = ctx.budget(2, 8) * scale
    for rnd in range(rounds):
        # every (operation, retain_names, minify) combination on a cyclic counter product with > 128 pairs
        for opname in BINOPS:
            for opts in OPTS:
                style = rng.randrange(3)
                specs = draw_counter_pair(rng, partial=False) if style == 0 else \
                    draw_counter_pair(rng) if style == 1 else draw_length_pair(rng)
                do_large(ctx, specs, _binop(rng, opname, opts), rng.randrange(1 << 30),
                         ["counters_complete", "counters_mixed", "length_counters"][style])
        # library-built operands with dozens of states
        for opname in BINOPS:
            for _ in range(3):
                do_large(ctx, draw_library_pair(rng), _binop(rng, opname), rng.randrange(1 << 30), "library_operand")
        # the operators (default options)
        for opname in BINOPS:
            specs = draw_counter_pair(rng) if rng.random() < 0.6 else draw_length_pair(rng)
            do_large(ctx, specs, _binop(rng, opname, (False, True), use_op=True), rng.randrange(1 << 30), "operator")
        # chains
        for _ in range(8):
            specs, tree = draw_chain(rng)
            do_large(ctx, specs, tree, rng.randrange(1 << 30), "chain")


def replay_case(ctx: Ctx, rp: dict):
    do_large(ctx, rp["leaves"], rp["tree"], rp["word_seed"], "replay", known_word=rp.get("word"))
