"""Independent language oracles over the *definitions* of real automata objects.

Nothing here calls the library's algorithms: machines are stepped straight from
their transition dicts (DFA: partial function with a None sink; NFA: ε-closed subset
semantics).  `find_word` does a BFS over tuples of machine states and returns a
SHORTEST word whose tuple of verdicts satisfies `bad`, or None — complete, because the
tuple space is finite.  Callers re-confirm every reported word through the real
`accepts_input`, so a reported violation never rests on this file being right.
"""
from __future__ import annotations

from collections import deque
from typing import Any, Callable, Iterable, List, Optional, Sequence, Tuple


class DFAMachine:
    def __init__(self, d):
        self.t = d.transitions
        self.init = d.initial_state
        self.fin = d.final_states

    def start(self):
        return ("q", self.init)

    def step(self, s, a):
        if s is None:
            return None
        row = self.t.get(s[1])
        if row is None or a not in row:
            return None
        return ("q", row[a])

    def accepting(self, s) -> bool:
        return s is not None and s[1] in self.fin


class NFAMachine:
    def __init__(self, n):
        self.t = n.transitions
        self.init = n.initial_state
        self.fin = n.final_states

    def _closure(self, S):
        S = set(S)
        work = list(S)
        while work:
            q = work.pop()
            for t in self.t.get(q, {}).get("", ()):
                if t not in S:
                    S.add(t)
                    work.append(t)
        return frozenset(S)

    def start(self):
        return self._closure({self.init})

    def step(self, S, a):
        nxt = set()
        for q in S:
            nxt |= set(self.t.get(q, {}).get(a, ()))
        return self._closure(nxt)

    def accepting(self, S) -> bool:
        return any(q in self.fin for q in S)


def machine(m):
    from automata.fa.dfa import DFA
    from automata.fa.nfa import NFA
    if isinstance(m, DFA):
        return DFAMachine(m)
    if isinstance(m, NFA):
        return NFAMachine(m)
    raise TypeError(type(m))


def find_word(machines: Sequence[Any], alphabet: Iterable[str],
              bad: Callable[[Tuple[bool, ...]], bool], limit: int = 2_000_000) -> Optional[str]:
    """Shortest word w with bad(verdicts(w)); None if there is none."""
    alphabet = sorted(alphabet)
    ms = [machine(m) if not hasattr(m, "step") else m for m in machines]
    start = tuple(m.start() for m in ms)
    seen = {start}
    queue = deque([(start, "")])
    n = 0
    while queue:
        st, w = queue.popleft()
        if bad(tuple(m.accepting(s) for m, s in zip(ms, st))):
            return w
        for a in alphabet:
            nx = tuple(m.step(s, a) for m, s in zip(ms, st))
            if nx not in seen:
                seen.add(nx)
                queue.append((nx, w + a))
                n += 1
                if n > limit:
                    raise RuntimeError("langoracle: state space too large")
    return None


def confirm(machines: Sequence[Any], w: str) -> Tuple[bool, ...]:
    """Verdicts of the REAL objects on w (through the library's accepts_input)."""
    return tuple(bool(m.accepts_input(w)) for m in machines)


def nerode_index(d, alphabet: Iterable[str]) -> Tuple[int, int]:
    """(number of Myhill–Nerode classes of the language of DFA d over `alphabet` for the
    completed automaton, number of those classes that are live = have a non-empty right
    language).  Moore refinement on the reachable part completed with a sink."""
    alphabet = sorted(alphabet)
    m = DFAMachine(d)
    start = m.start()
    states = [start]
    seen = {start}
    i = 0
    while i < len(states):
        s = states[i]
        i += 1
        for a in alphabet:
            t = m.step(s, a)
            if t not in seen:
                seen.add(t)
                states.append(t)
    cls = {s: int(m.accepting(s)) for s in states}
    while True:
        sig = {s: (cls[s],) + tuple(cls[m.step(s, a)] for a in alphabet) for s in states}
        ids = {}
        new = {}
        for s in states:
            new[s] = ids.setdefault(sig[s], len(ids))
        if len(set(new.values())) == len(set(cls.values())):
            cls = new
            break
        cls = new
    n_classes = len(set(cls.values()))
    # live classes: can reach an accepting state
    live = {s for s in states if m.accepting(s)}
    changed = True
    while changed:
        changed = False
        for s in states:
            if s not in live and any(m.step(s, a) in live for a in alphabet):
                live.add(s)
                changed = True
    n_live = len({cls[s] for s in live})
    return n_classes, n_live
