"""Generators for C03's long-tape family (round 4): deterministic "zig-zag" programs whose head sweeps
over the whole stored tape, runs off one end, comes back and runs off the other end — on inputs long
enough (63–300 symbols) that the stored tape crosses the usual size thresholds (64, 128, 256 cells), and
"shuttle" machines that grow a short tape past such a threshold themselves.

A program is a list of phases compiled to a DTM table:
  ("sweep", d, rho, w, e)  one state: on a non-blank a write rho[a] and move d (stay in the state);
                           on the blank write w, move e, go to the next phase
  ("walk", d, k, mark)     k states: on every symbol write `mark` (None: the symbol read), move d
  ("test", accept)         one state: on a symbol of `accept` go to the final state (N move); no other row
The last phase's successor is the final state, or — `loop=True` — the first state (a shuttle).
"""
from __future__ import annotations

import random
from typing import Any, Dict, List, Sequence, Tuple

NAME_POOLS = [
    lambda n: [f"q{i}" for i in range(n)],
    lambda n: list(range(n)),
    lambda n: [(i, i % 2 == 0) for i in range(n)],
    lambda n: [frozenset({i}) for i in range(n)],
    lambda n: [-i for i in range(n)],
    lambda n: ["s" * (i + 1) for i in range(n)],
]
ALPHABETS = [  # (input symbols, extra tape symbols, blank)
    ("01", "", "#"), ("01", "x", "#"), ("ab", "xy", "."), ("0", "1", "#"), ("a", "", "b"), ("01", "", " "),
    ("é", "λ", "#"),
]
# stored-tape sizes around the usual thresholds: an input of length L becomes a tape of L+1 cells once
# the head has stepped off its right end
LONG_LENGTHS = [62, 63, 64, 65, 66, 127, 128, 129, 255, 256, 257, 300]

OPP = {"L": "R", "R": "L", "N": "N"}


def n_states(prog) -> int:
    return sum(p[2] if p[0] == "walk" else 1 for p in prog)


def compile_program(prog, names: Sequence[Any], tsy: Sequence[str], blank: str, loop: bool = False):
    """→ (table, final state, states used).  `names` needs n_states(prog) + 1 entries."""
    need = n_states(prog)
    final = names[need]
    entry, k = [], 0
    for p in prog:
        entry.append(k)
        k += p[2] if p[0] == "walk" else 1
    succ_of_last = names[0] if loop else final
    table: Dict[Any, Dict[str, tuple]] = {}
    for i, p in enumerate(prog):
        nxt = names[entry[i + 1]] if i + 1 < len(prog) else succ_of_last
        s = names[entry[i]]
        if p[0] == "sweep":
            _, d, rho, w, e = p
            row = {a: (s, rho.get(a, a), d) for a in tsy if a != blank}
            row[blank] = (nxt, w, e)
            table[s] = row
        elif p[0] == "walk":
            _, d, cnt, mark = p
            for j in range(cnt):
                here = names[entry[i] + j]
                there = names[entry[i] + j + 1] if j + 1 < cnt else nxt
                table[here] = {a: (there, a if mark is None else mark, d) for a in tsy}
        else:
            _, accept = p
            table[s] = {a: (final, a, "N") for a in accept}
    return table, final, list(names[:need + 1])


def rand_program(rng: random.Random, tsy: Sequence[str], blank: str, max_sweeps: int = 4):
    nonblank = [a for a in tsy if a != blank]
    prog: List[tuple] = []
    d = "R"
    for _ in range(rng.choice([k for k in (2, 2, 3, 4) if k <= max(2, max_sweeps)])):
        r = rng.random()
        if r < 0.5:
            rho = {}
        elif r < 0.8:
            rho = {a: rng.choice(nonblank) for a in nonblank}
        else:
            perm = nonblank[:]
            rng.shuffle(perm)
            rho = dict(zip(nonblank, perm))
        w = blank if rng.random() < 0.5 else rng.choice(nonblank)
        e = OPP[d] if rng.random() < 0.7 else rng.choice("LRN")
        prog.append(("sweep", d, rho, w, e))
        if rng.random() < 0.4:
            # keep going past the end (several run-offs in a row) or step back into the contents
            prog.append(("walk", d if rng.random() < 0.6 else OPP[d], rng.randint(1, 3),
                         None if rng.random() < 0.6 else rng.choice(nonblank)))
        d = OPP[d]
    if rng.random() < 0.7:
        prog.append(("walk", d, rng.randint(1, 3), None))
    k = rng.randint(1, len(tsy))
    prog.append(("test", sorted(rng.sample(list(tsy), k))))
    return prog


def rand_parts(rng: random.Random, n: int) -> Tuple[list, str, str, str]:
    names = NAME_POOLS[rng.randrange(len(NAME_POOLS))](n)
    isy, extra, blank = ALPHABETS[rng.randrange(len(ALPHABETS))]
    return names, isy, isy + extra + blank, blank


def kw_of(names, isy, tsy, blank, final, init):
    return dict(states=set(names), input_symbols=set(isy), tape_symbols=set(tsy), initial_state=init,
                blank_symbol=blank, final_states={final})


def rand_long_input(rng: random.Random, isy: str, length: int) -> str:
    r = rng.random()
    if r < 0.3:
        return (isy * length)[:length]  # periodic
    if r < 0.4:
        return isy[0] * length
    return "".join(rng.choice(isy) for _ in range(length))


def shuttle(rng: random.Random):
    """Two sweeping states that never halt: every turn writes a mark beyond the end, so the stored tape
    grows by one cell per sweep, alternately at the right and at the left end."""
    names, isy, tsy, blank = rand_parts(rng, 3)
    nonblank = [a for a in tsy if a != blank]
    m1, m2 = rng.choice(nonblank), rng.choice(nonblank)
    prog = [("sweep", "R", {}, m1, "L"), ("sweep", "L", {}, m2, "R")]
    if rng.random() < 0.5:
        prog.reverse()
    table, final, used = compile_program(prog, names, tsy, blank, loop=True)
    return kw_of(used, isy, tsy, blank, final, used[0]), table


def copy_and_return(rng: random.Random):
    """Two tapes: copy the input to tape 2 while sweeping right (tape 2 is *written* that far), walk both
    heads back past the left end, step right again and accept iff the first symbol is in a chosen set.
    → constructor arguments of a 2-tape MNTM."""
    names, isy, tsy, blank = rand_parts(rng, 4)
    s0, s1, s2, final = names[:4]
    nonblank = [a for a in tsy if a != blank]
    back = rng.choice(["L", "L", "N"])  # tape 2 may stay at its right end
    table = {
        s0: {(a, blank): [(s0, ((a, "R"), (a, "R")))] for a in nonblank},
        s1: {}, s2: {},
    }
    table[s0][(blank, blank)] = [(s1, ((blank, "L"), (blank, back)))]
    for a in nonblank:
        if back == "L":
            table[s1][(a, a)] = [(s1, ((a, "L"), (a, "L")))]
        else:
            table[s1][(a, blank)] = [(s1, ((a, "L"), (blank, "N")))]
    table[s1][(blank, blank)] = [(s2, ((blank, "R"), (blank, "R" if back == "L" else "N")))]
    accept = rng.sample(nonblank, rng.randint(1, len(nonblank)))
    for a in accept:
        table[s2][(a, a if back == "L" else blank)] = [(final, ((a, "N"), (blank if back == "N" else a, "N")))]
    kw = dict(states={s0, s1, s2, final}, input_symbols=set(isy), tape_symbols=set(tsy), n_tapes=2,
              transitions=table, initial_state=s0, blank_symbol=blank, final_states={final})
    return kw, isy
