"""Generated/Pda.lean — literals of automata/pda/pda.py (pure `ast`, library not imported).

Called from harness/extract_tables.py.  Extracted:
  * `_validate_acceptance`: the tuple of acceptance-mode literals that validate;
  * `_has_accepted`: whether the first statement is `if remaining_input: return False`,
    then, in source order, every `if self.acceptance_mode in (<literals>)` (or `== <literal>`)
    together with what its body tests before `return True`
    (`not configuration.stack` ↦ stackEmpty, `configuration.state in self.final_states` ↦ stateFinal).
The model's `hasAccepted` interprets this table, so a change of the literals changes the
model, and the theorems that tie `hasAccepted` to the specification's `Accepting` are
re-checked against what the source says now.
  * `hasAcceptedShapeOk` is false as soon as a statement of `_has_accepted` is not of the shapes
    above (an extra `if`, an unrecognised test inside a mode `if`, an `else`, another final
    `return`) **or** one of the helpers the model takes from pda.py (`_has_accepted`,
    `_validate_acceptance`, `_has_lambda_transition`, `_replace_stack_top`, `validate`) is overridden
    in npda.py / dpda.py (`overriddenInSubclasses`).  `C02_has_accepted_shape` (Props/C02.lean)
    is the registered obligation `hasAcceptedShapeOk = true`, so either change breaks it.
"""
from __future__ import annotations

import ast
import json


def _lean_str(s: str) -> str:
    return json.dumps(s, ensure_ascii=False)


def _is_attr(node, name, attr) -> bool:
    return (isinstance(node, ast.Attribute) and node.attr == attr
            and isinstance(node.value, ast.Name) and node.value.id == name)


def _mode_compare(test):
    """`self.acceptance_mode in (..)` / `== ".."` / `not in (..)` → (op, [literals]) or None."""
    if not (isinstance(test, ast.Compare) and len(test.ops) == 1 and _is_attr(test.left, "self", "acceptance_mode")):
        return None
    comp = test.comparators[0]
    if isinstance(comp, (ast.Tuple, ast.List, ast.Set)):
        lits = [e.value for e in comp.elts if isinstance(e, ast.Constant) and isinstance(e.value, str)]
        if len(lits) != len(comp.elts):
            return None
    elif isinstance(comp, ast.Constant) and isinstance(comp.value, str):
        lits = [comp.value]
    else:
        return None
    op = type(test.ops[0]).__name__
    return op, lits


def _returns(body, value) -> bool:
    return (len(body) == 1 and isinstance(body[0], ast.Return) and isinstance(body[0].value, ast.Constant)
            and body[0].value.value is value)


def _acc_test(body, cfg_name) -> str:
    """Body of a mode `if`: one inner `if <test>: return True`."""
    if len(body) == 1 and isinstance(body[0], ast.If) and not body[0].orelse and _returns(body[0].body, True):
        t = body[0].test
        if isinstance(t, ast.UnaryOp) and isinstance(t.op, ast.Not) and _is_attr(t.operand, cfg_name, "stack"):
            return "stackEmpty"
        if (isinstance(t, ast.Compare) and len(t.ops) == 1 and isinstance(t.ops[0], ast.In)
                and _is_attr(t.left, cfg_name, "state") and _is_attr(t.comparators[0], "self", "final_states")):
            return "stateFinal"
    return "other"


BASE_HELPERS = ("_has_accepted", "_validate_acceptance", "_has_lambda_transition", "_replace_stack_top", "validate")


def gen_pda(parse) -> str:
    tree = parse("automata/pda/pda.py")
    valid_modes = []
    checks_input = False
    rules = []
    shape_ok = True
    for node in ast.walk(tree):
        if isinstance(node, ast.FunctionDef) and node.name == "_validate_acceptance":
            for st in node.body:
                if isinstance(st, ast.If):
                    mc = _mode_compare(st.test)
                    if mc and mc[0] == "NotIn":
                        valid_modes = mc[1]
        if isinstance(node, ast.FunctionDef) and node.name == "_has_accepted":
            cfg = node.args.args[1].arg if len(node.args.args) > 1 else "current_configuration"
            body = [st for st in node.body
                    if not (isinstance(st, ast.Expr) and isinstance(getattr(st, "value", None), ast.Constant))]
            if body and isinstance(body[0], ast.If) and _is_attr(body[0].test, cfg, "remaining_input") \
                    and _returns(body[0].body, False) and not body[0].orelse:
                checks_input = True
                body = body[1:]
            for st in body:
                if isinstance(st, ast.If) and not st.orelse:
                    mc = _mode_compare(st.test)
                    if mc and mc[0] in ("In", "Eq"):
                        t = _acc_test(st.body, cfg)
                        rules.append((mc[1], t))
                        if t == "other":
                            shape_ok = False
                    else:
                        rules.append(([], "other"))
                        shape_ok = False
                elif isinstance(st, ast.Return) and isinstance(st.value, ast.Constant) and st.value.value is False:
                    pass
                else:
                    shape_ok = False
    # the helpers the model takes from the base class must not be overridden in the subclasses
    overridden = []
    for rel in ("automata/pda/npda.py", "automata/pda/dpda.py"):
        try:
            sub = parse(rel)
        except (FileNotFoundError, SyntaxError):
            continue
        for node in ast.walk(sub):
            if isinstance(node, (ast.FunctionDef, ast.AsyncFunctionDef)) and node.name in BASE_HELPERS:
                overridden.append(rel.rsplit("/", 1)[1] + ":" + node.name)
            # assignment in a class body / monkey patch: `_has_accepted = ...`, `NPDA._has_accepted = ...`
            if isinstance(node, ast.Assign):
                for tg in node.targets:
                    name = tg.id if isinstance(tg, ast.Name) else tg.attr if isinstance(tg, ast.Attribute) else None
                    if name in BASE_HELPERS:
                        overridden.append(rel.rsplit("/", 1)[1] + ":" + name)
    overridden = sorted(set(overridden))
    if overridden:
        shape_ok = False
    out = [
        "/- GENERATED by harness/extract_tables.py (extract_pda.py) from automata/pda/pda.py — do not edit. -/",
        "namespace AV.Gen.Pda",
        "",
        "/-- What the body of an acceptance-mode `if` of `_has_accepted` tests before `return True`. -/",
        "inductive AccTest",
        "  | stackEmpty   -- `not current_configuration.stack`",
        "  | stateFinal   -- `current_configuration.state in self.final_states`",
        "  | other        -- anything else (the model does not know it: treated as never true)",
        "  deriving DecidableEq, Repr, Inhabited",
        "",
        "/-- `_validate_acceptance`: the acceptance-mode literals that validate. -/",
        "def validModes : List String := [" + ", ".join(_lean_str(m) for m in valid_modes) + "]",
        "",
        "/-- `_has_accepted` starts with `if remaining_input: return False`. -/",
        f"def hasAcceptedChecksInput : Bool := {'true' if checks_input else 'false'}",
        "",
        "/-- `_has_accepted`, in source order: (modes for which the test is made, the test);",
        "the function returns True at the first rule that applies and False otherwise. -/",
        "def hasAcceptedRules : List (List String × AccTest) := [",
        ",\n".join("  ([" + ", ".join(_lean_str(m) for m in ms) + f"], .{t})" for ms, t in rules),
        "]",
        "",
        "/-- Helpers of pda.py that npda.py / dpda.py override (the model reads them from pda.py only). -/",
        "def overriddenInSubclasses : List String := [" + ", ".join(_lean_str(m) for m in overridden) + "]",
        "",
        "/-- The statements of `_has_accepted` all have the expected shape and no subclass overrides a",
        "helper the model takes from pda.py. -/",
        f"def hasAcceptedShapeOk : Bool := {'true' if shape_ok else 'false'}",
        "",
        "end AV.Gen.Pda",
        "",
    ]
    return "\n".join(out)
