"""C11, round 6: the comparison helpers called WITH THEIR DEFAULT ARGUMENTS (generator + judge).

`regex.isequal / issubset / issuperset(re1, re2)` without `input_symbols` compile each expression over its own
default alphabet = the non-reserved characters of its text (literals, and the digits / comma of its quantifier
braces).  When the two texts have the SAME default alphabet Σ the two expressions are compared over one common
alphabet, so the property applies: the answers are the language comparison over exactly Σ — in particular the
wildcard `.` ranges over Σ (isequal('a|.', 'a') is True) and a literal need not be alphanumeric ('-', '_', '#',
'é', '٣' are ordinary symbols).  Pairs whose default alphabets differ are outside the property (finding F17) and are
never produced here (the generator pads the poorer side with a branch that mentions the missing symbol).

Nothing here shares code with the library: the expected answers come from the ASTs the strings were rendered from
(`rx_common.ast_cmp`, Brzozowski derivatives over Σ), cross-checked on every pair against brute-force set
semantics (`rx_common.den_words`, all words of length ≤ 3 / 2).
"""
from __future__ import annotations

from typing import Callable, List, Optional, Tuple

from harness import rx_common as R
from harness.common import InfraError
from harness.rx_sequences import RESERVED, default_alphabet, est_states, leaves, put

ANY, EPS = ("any",), ("eps",)
ASCII_LETTERS = "abcxyzABQZ"
ASCII_DIGITS = "0123456789"
PUNCT = list("-_#,:;=!@%~<>/'\"[]$\\")
# non-ASCII letters (Latin-1, Greek, Cyrillic, CJK, non-BMP), the micro sign, a non-ASCII decimal digit (an ordinary
# symbol when it is a literal; never used inside quantifier braces)
UNICODE = ["é", "ß", "λ", "µ", "Ж", "中", "\U0001d4b3", "٣"]
ASCII_ALNUM = frozenset("abcdefghijklmnopqrstuvwxyzABCDEFGHIJKLMNOPQRSTUVWXYZ0123456789")


def lit(c: str) -> tuple:
    return ("lit", c)


def word(s: str) -> tuple:
    e = lit(s[0])
    for c in s[1:]:
        e = ("cat", e, lit(c))
    return e


def alt_of(symbols) -> tuple:
    syms = sorted(symbols)
    e = lit(syms[0])
    for c in syms[1:]:
        e = ("alt", e, lit(c))
    return e


def literal_class(sigma) -> str:
    """alnum = only ASCII letters / digits (a fixed 'letters and digits' alphabet would contain it), punct = some
    ASCII punctuation, unicode = some non-ASCII symbol (punct wins when both occur: reported separately)."""
    s = set(sigma)
    if s <= ASCII_ALNUM:
        return "alnum"
    has_p = any(c in PUNCT for c in s)
    has_u = any(ord(c) > 127 for c in s)
    return "punct_and_unicode" if has_p and has_u else ("punct" if has_p else "unicode")


def draw_literals(rng) -> List[str]:
    k = rng.choice([1, 1, 2, 2, 2, 3])
    cls = rng.choice(["alnum", "alnum", "punct", "punct", "unicode", "mixed"])
    if cls == "alnum":
        pool = list(ASCII_LETTERS) + list(ASCII_DIGITS[:4])
    elif cls == "punct":
        pool = PUNCT
    elif cls == "unicode":
        pool = UNICODE
    else:
        pool = list(ASCII_LETTERS) + list(ASCII_DIGITS) + PUNCT + UNICODE
    out = rng.sample(pool, min(k, len(pool)))
    if cls in ("punct", "unicode") and rng.random() < 0.5:
        out = out[: max(1, k - 1)] + [rng.choice(ASCII_LETTERS)]        # 'a-b', 'éa'
    return list(dict.fromkeys(out))


def strip_quantifiers(rng, e) -> tuple:
    """The same shape without {m,n} (so that the alphabet is exactly the literal set)."""
    if e[0] == "rep":
        return (rng.choice(["star", "plus", "opt"]), strip_quantifiers(rng, e[1]))
    return tuple(strip_quantifiers(rng, x) if isinstance(x, tuple) else x for x in e)


def insert_wildcard(rng, e, lits: List[str]) -> tuple:
    r = rng.random()
    if r < 0.3:
        ps = leaves(e)
        return put(e, rng.choice(ps), ANY)                              # a leaf becomes '.'
    if r < 0.45:
        return ("alt", e, ANY)                                          # r|.
    if r < 0.55:
        return ("cat", ANY, e) if rng.random() < 0.5 else ("cat", e, ANY)
    if r < 0.7:
        return ("cat", e, ("star", ("alt", lit(rng.choice(lits)), ANY)))  # r(a|.)*
    if r < 0.8:
        return ("and", e, ("star", ANY))                                # r&.*   (= r)
    if r < 0.9:
        return ("alt", e, ("cat", ANY, lit(rng.choice(lits))))          # r|.a
    return ("shuf", e, ("opt", ANY))


def map_leaves(e, f: Callable[[tuple], tuple]) -> tuple:
    if e[0] in ("lit", "any", "eps"):
        return f(e)
    return tuple(map_leaves(x, f) if isinstance(x, tuple) else x for x in e)


def derive_second(rng, e1, sigma1, lits: List[str], rewrite_equiv) -> Tuple[tuple, str]:
    """Second expression from the first: language-preserving and language-changing rewrites (the oracle decides
    which it was — the relation is only a tag of the distribution)."""
    has_any = "any" in R.ops_of(e1)
    rels = ["equiv", "equiv", "superset", "independent"]
    if has_any:
        rels += ["expand_any", "expand_any", "any_to_lit", "any_to_lit"]
    rels += ["lit_to_any"]
    rel = rng.choice(rels)
    if rel == "equiv":
        return rewrite_equiv(rng, e1), rel
    if rel == "superset":
        return ("alt", e1, R.rand_ast(rng, lits, 1)), rel
    if rel == "independent":
        e2 = R.rand_ast(rng, lits, rng.choice([1, 2]))
        if rng.random() < 0.5:
            e2 = insert_wildcard(rng, e2, lits)
        return e2, rel
    if rel == "expand_any":
        # '.' spelled out as the alternation of the symbols of the alphabet: the same language over exactly Σ
        full = alt_of(sigma1)
        return map_leaves(e1, lambda x: full if x == ANY else x), rel
    if rel == "any_to_lit":
        c = rng.choice(lits)
        ps = [p for p in leaves(e1) if _at(e1, p) == ANY]
        e2 = put(e1, rng.choice(ps), lit(c))
        return e2, rel
    ps = [p for p in leaves(e1) if _at(e1, p)[0] == "lit"]
    if not ps:
        return ("alt", e1, ANY), rel
    return put(e1, rng.choice(ps), ANY), rel


def _at(e, path):
    for i in path:
        e = e[i]
    return e


def pad(rng, e, s: str, missing) -> Tuple[tuple, str]:
    """Mention the symbols `missing` in (e, s) — AST and text together — so that the default alphabets of a pair
    coincide: `|(c&())` and `&(c|.)*`-free variants keep the language, `|c` changes it (the oracle decides)."""
    for c in sorted(missing):
        r = rng.random()
        if r < 0.5:
            e, s = ("alt", e, ("and", lit(c), EPS)), "(" + s + ")|(" + c + "&())"
        elif r < 0.7:
            e, s = ("cat", ("opt", ("and", lit(c), EPS)), e), "(" + c + "&())?(" + s + ")"
        else:
            e, s = ("alt", e, lit(c)), "(" + s + ")|" + c
    return e, s


def gen_pair(rng, rewrite_equiv) -> Optional[dict]:
    """One pair of expressions with the same default alphabet (None: too large, try again)."""
    lits = draw_literals(rng)
    e1 = R.rand_ast(rng, lits, rng.choice([1, 2, 2, 3]), p_wide=0.1)
    quant = rng.random() < 0.4
    if not quant:
        e1 = strip_quantifiers(rng, e1)
    want_any = rng.random() < 0.7
    if want_any and "any" not in R.ops_of(e1):
        e1 = insert_wildcard(rng, e1, lits)
    if not want_any:
        e1 = map_leaves(e1, lambda x: lit(rng.choice(lits)) if x == ANY else x)
    if not R.lits_of(e1):
        e1 = ("cat", e1, lit(rng.choice(lits))) if rng.random() < 0.5 else ("alt", lit(rng.choice(lits)), e1)
    style = rng.choice(["min", "min", "min", "full", "blank", "extra"])
    s1 = R.render(e1, style, rng)
    e2, rel = derive_second(rng, e1, default_alphabet(s1), lits, rewrite_equiv)
    if not quant:
        e2 = strip_quantifiers(rng, e2)
    if not want_any and rel != "lit_to_any":
        e2 = map_leaves(e2, lambda x: lit(rng.choice(lits)) if x == ANY else x)
    if R.size(e1) + R.size(e2) > 22 or est_states(e1) > 24 or est_states(e2) > 24:
        return None
    s2 = R.render(e2, rng.choice(["min", style]), rng)
    a1, a2 = default_alphabet(s1), default_alphabet(s2)
    padded = a1 != a2
    if a2 - a1:
        e1, s1 = pad(rng, e1, s1, a2 - a1)
    if a1 - a2:
        e2, s2 = pad(rng, e2, s2, a1 - a2)
    if default_alphabet(s1) != default_alphabet(s2) or not default_alphabet(s1):
        raise InfraError(f"default-argument generator: alphabets of {s1!r} and {s2!r} differ after padding")
    if rng.random() < 0.3:
        e1, s1, e2, s2 = e2, s2, e1, s1
        rel += "_swapped"
    return dict(re1=s1, re2=s2, ast1=e1, ast2=e2, rel=rel, padded=padded, quant=quant)


# --------------------------------------------------------------------------- corpus and the exhaustive sub-domain
def corpus() -> List[Tuple[tuple, tuple]]:
    a, b, m, u, one = lit("a"), lit("b"), lit("-"), lit("é"), lit("1")
    return [
        (("alt", a, ANY), a),                                            # a|.   = a      over {a}
        (("cat", ANY, a), ("cat", a, a)),                                # .a    = aa
        (("star", ("alt", a, ANY)), ("star", a)),                        # (a|.)* = a*
        (("alt", ("cat", ANY, a), word("bb")), ("alt", ("alt", word("aa"), word("ba")), word("bb"))),  # .a|bb = aa|ba|bb  over {a,b}
        (("alt", ("cat", ANY, b), a), ("alt", word("ab"), a)),           # .b|a ⊋ ab|a    over {a,b}
        (word("a-b"), ("alt", word("a-b"), word("a-b"))),                # a-b = a-b|a-b
        (word("a-b"), ("alt", word("a-b"), a)),                          # a-b ⊊ a-b|a
        (("star", ("alt", a, m)), ("cat", word("a-"), a)),               # (a|-)* ⊋ a-a
        (word("a-b"), word("b-a")),                                      # incomparable
        (("cat", m, ANY), ("cat", m, m)),                                # -.  = --       over {-}
        (("cat", u, ANY), ("alt", ("cat", u, u), ("cat", u, ANY))),      # é. = éé|é.
        (word("_#"), ("and", word("_#"), ("star", ("alt", lit("_"), lit("#"))))),
        (("cat", one, ANY), ("cat", one, one)),                          # 1. = 11        over {1}
        (("rep", ANY, 1, 2), ("alt", ("alt", one, lit(",")), lit("2"))),  # .{1,2} ⊋ 1|,|2  over {1 , 2}
        (("rep", a, 1, 1), ("alt", ("and", a, ANY), ("and", ("cat", one, lit(",")), EPS))),  # a{1,1} = a&.|(1,&())
        (("star", ("alt", ANY, ("alt", lit("٣"), lit("中")))), ("star", ("alt", lit("٣"), lit("中")))),   # (.|٣|中)* = (٣|中)*
    ]


def small_pool(c: str) -> List[tuple]:
    """Every AST of depth ≤ 1 over the atoms c, '.', '()' without quantifiers (48)."""
    return list(R.asts_upto(c, 1, []))


def exhaustive_pairs(c: str):
    """All ordered pairs (e1, e2) of `small_pool(c)` in which both mention the literal c (same default alphabet
    {c}) and at least one contains the wildcard."""
    pool = [e for e in small_pool(c) if R.lits_of(e)]
    for e1 in pool:
        w1 = "any" in R.ops_of(e1)
        for e2 in pool:
            if w1 or "any" in R.ops_of(e2):
                yield e1, e2


# ------------------------------------------------------------------------------------------------------ the judge
def oracle(e1, e2, sigma) -> Tuple[bool, bool]:
    """(L(e1) ⊆ L(e2), L(e2) ⊆ L(e1)) over sigma by derivatives, cross-checked against brute-force set semantics on
    short words (raises R.OracleBudget when the derivative search is too large)."""
    sig = sorted(sigma)
    sub, sup = R.ast_cmp(e1, e2, sig)
    n = 3 if len(sig) <= 4 else 2
    w1, w2 = R.den_words(e1, sig, n), R.den_words(e2, sig, n)
    if (sub and not w1 <= w2) or (sup and not w2 <= w1):
        raise InfraError(f"oracles disagree on {e1!r} vs {e2!r} over {sig}: derivatives say sub={sub} sup={sup}, "
                         f"short words say {sorted(w1 - w2)[:3]} / {sorted(w2 - w1)[:3]}")
    return sub, sup


def witness(e1, e2, sigma) -> str:
    """A short word in exactly one of the two languages (for the failure message), '' when none of length ≤ 4."""
    sig = sorted(sigma)
    for w in R.words_upto(sig, 4 if len(sig) <= 3 else 3):
        m1, m2 = R.matches(e1, w, sig), R.matches(e2, w, sig)
        if m1 != m2:
            return f"{w!r} is in the {'first' if m1 else 'second'} language only"
    return ""


def alphabet_sensitive(e1, e2, sigma, verdict) -> bool:
    """Would the answers change if '.' ranged over one more symbol?  (evidence: the pairs on which the meaning of
    the default alphabet is observable)"""
    if "any" not in (R.ops_of(e1) | R.ops_of(e2)):
        return False
    x = next(c for c in "zq§†" if c not in sigma)
    try:
        return R.ast_cmp(e1, e2, sorted(set(sigma) | {x})) != verdict
    except R.OracleBudget:
        return False


NAMES = ("isequal", "issubset", "issuperset")


def call_helpers(s1: str, s2: str, how, sigma=None) -> list:
    """The three helpers on (s1, s2): how = 'omitted' (no keyword at all), 'none' (input_symbols=None spelled out),
    'explicit' (input_symbols=frozenset(sigma))."""
    from automata.regex import regex as rx
    out = []
    for fn in (rx.isequal, rx.issubset, rx.issuperset):
        try:
            if how == "omitted":
                r = fn(s1, s2)
            elif how == "none":
                r = fn(s1, s2, input_symbols=None)
            else:
                r = fn(s1, s2, input_symbols=frozenset(sigma))
            out.append(("ok", r))
        except RecursionError:
            raise
        except Exception as ex:  # noqa: BLE001
            out.append(("err", type(ex).__name__))
    return out


def judge_pair(s1: str, s2: str, e1, e2, spell: str = "omitted") -> dict:
    """Evaluate the property on one pair through the real library.  Returns dict(skip=reason) or
    dict(sigma, want, default, explicit, wrong=[texts], sensitive)."""
    from automata.fa.nfa import NFA
    from automata.regex import regex as rx
    sigma = default_alphabet(s1)
    if sigma != default_alphabet(s2) or not sigma:
        return dict(skip="different_default_alphabets")                 # outside the property (F17)
    if not (R.lits_of(e1) | R.lits_of(e2)) <= sigma or (sigma & RESERVED):
        raise InfraError(f"default-argument pair {s1!r} / {s2!r}: AST literals not in the alphabet of the text")
    try:
        sub, sup = oracle(e1, e2, sigma)
    except R.OracleBudget:
        return dict(skip="oracle_budget")
    want = [("ok", sub and sup), ("ok", sub), ("ok", sup)]
    wrong: List[str] = []
    # validate / from_regex with the default alphabet: both succeed, '.' ranges over the symbols of the text
    for s, e in ((s1, e1), (s2, e2)):
        try:
            rx.validate(s)
        except RecursionError:
            raise
        except Exception as ex:  # noqa: BLE001
            wrong.append(f"validate({s!r}) raises {type(ex).__name__} on an expression of the grammar")
        try:
            nfa = NFA.from_regex(s)
        except RecursionError:
            raise
        except Exception as ex:  # noqa: BLE001
            wrong.append(f"NFA.from_regex({s!r}) raises {type(ex).__name__} on an expression of the grammar")
            continue
        try:
            v = R.nfa_vs_ast(nfa, e, sorted(sigma), extra=sorted(set(nfa.input_symbols) - sigma))
        except R.OracleBudget:
            v = None
        if v is not None:
            wrong.append(f"NFA.from_regex({s!r}) {'rejects' if v[1] else 'accepts'} {v[0]!r} but over the symbols of "
                         f"the expression {sorted(sigma)} it {'denotes' if v[1] else 'does not denote'} it")
    got_default = call_helpers(s1, s2, spell)
    got_explicit = call_helpers(s1, s2, "explicit", sigma)
    for how, got in ((f"default arguments{' (input_symbols=None)' if spell == 'none' else ''}", got_default),
                     (f"input_symbols={sorted(sigma)}", got_explicit)):
        bad = [f"{n}={r[1]} (languages say {w[1]})" for n, r, w in zip(NAMES, got, want) if r != w]
        if bad:
            wrong.append(f"with {how}: " + "; ".join(bad))
    if wrong:
        # re-confirm through a second round of the same real calls (the replay is a statement about the library)
        again_d, again_e = call_helpers(s1, s2, spell), call_helpers(s1, s2, "explicit", sigma)
        if (again_d, again_e) != (got_default, got_explicit):
            wrong.append(f"and the same calls repeated answer {again_d} / {again_e}")
        w = witness(e1, e2, sigma)
        if w:
            wrong.append(f"({w}; both texts use exactly the symbols {sorted(sigma)})")
    return dict(sigma=sigma, want=want, default=got_default, explicit=got_explicit, wrong=wrong, sub=sub, sup=sup)
