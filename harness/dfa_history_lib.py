"""Round-4 helpers of the C06 / C13 / C14 checks: HISTORIES on live DFA objects, as JSON-able data.

Nothing here judges an answer; the ops modules do that with their own property oracles.

* `spec_of(d)` / `twin_of(d)`: the definition of a DFA as constructor arguments / a NEW object built from
  it (empty caches, no memo tables): the object the oracles look at, never queried through the library.
* other-family queries (`OTHER_KINDS`): the read-only queries of the DFA class that belong to OTHER query
  families than the one under test — word counting / enumeration / iteration / successor search / length
  queries / cardinality / random sampling / clear_cache — as steps `dict(q=..., ...)`; `rand_other`
  draws one with parameters in the domain (lengths around n and 2n, n = number of states, where length
  arguments decide emptiness / finiteness), `exec_other` asks it of a live object (answer NOT judged:
  the step only has to leave the object in whatever state that query leaves it in), `show_other` prints it.
* `DERIVE`: library operations that make a new DFA from a (queried) DFA, by name, so that a replay is a
  concrete, re-executable description: complement (both minify values, retain_names), ~, copy,
  to_complete, to_partial, minify, the four boolean operations as methods (minify on / off) and as
  operators with a second operand on either side or with the object itself.
* `lasso_dfa`: tail + cycle automata whose accepted lengths skip whole windows (emptiness / finiteness
  shortcuts that look at a window of lengths are wrong exactly here).
"""
from __future__ import annotations

import itertools
import random
from typing import Any, Callable, Dict, List, Optional, Sequence, Tuple

from automata.fa.dfa import DFA

from harness import dfa_query_lib as L

STEP_TIMEOUT_S = 4


def spec_of(d: DFA) -> dict:
    return dict(states=d.states, input_symbols=d.input_symbols, transitions=d.transitions,
                initial_state=d.initial_state, final_states=d.final_states, allow_partial=d.allow_partial)


def twin_of(d: DFA) -> DFA:
    """A new object with d's definition (plain copies of the containers; built under the default options)."""
    return DFA(states=set(d.states), input_symbols=set(d.input_symbols),
               transitions={k: dict(row) for k, row in d.transitions.items()}, initial_state=d.initial_state,
               final_states=set(d.final_states), allow_partial=d.allow_partial)


# ------------------------------------------------------------------ other-family queries (not judged)
OTHER_KINDS = ["count", "words", "words_part", "iter", "min", "max", "card", "len", "random", "clear",
               "succ", "pred", "succs", "preds"]


def _max_enum_len(n_symbols: int, cap: int = 400) -> int:
    """Largest k with |Σ|^k ≤ cap (words_of_length builds every word of every level ≤ k)."""
    if n_symbols <= 1:
        return 24
    k = 0
    while n_symbols ** (k + 1) <= cap:
        k += 1
    return k


def rand_other(rng: random.Random, ref: DFA, kinds: Sequence[str] = OTHER_KINDS) -> dict:
    n = len(ref.states)
    sy = sorted(ref.input_symbols)
    k = rng.choice([0, 1, n - 1, n, n, n + 1, 2 * n - 2, 2 * n - 1, 2 * n, rng.randint(0, 2 * n + 1),
                    rng.randint(n, 2 * n)])
    k = max(0, k)
    ke = min(k, _max_enum_len(len(sy)))
    q = rng.choice(list(kinds))
    if q == "count":
        return dict(q=q, k=k)
    if q == "words":
        return dict(q=q, k=ke)
    if q == "words_part":
        return dict(q=q, k=ke, n=rng.randint(0, 3))
    if q == "iter":
        # words_of_length(i) builds level i of the word table for EVERY state: ask only for a prefix of the iteration
        # that is reached within the lengths that are cheap to enumerate (a finite language ends after level n - 1)
        want = rng.choice([0, 1, 2, 5, 9])
        if not L.language_shape(ref)["finite"]:
            from harness import dfa_query_lib2 as L2
            want = min(want, sum(L2.forward_counts(ref, _max_enum_len(len(sy)))))
        return dict(q=q, n=want)
    if q == "random":
        return dict(q=q, k=k, seed=rng.randrange(1 << 20))
    if q in ("succ", "pred", "succs", "preds"):
        w = "".join(rng.choice(sy) for _ in range(rng.randint(0, n + 1))) if sy else ""
        s = dict(q=q, w=(None if q == "succs" and rng.random() < 0.3 else w), strict=rng.random() < 0.7)
        if rng.random() < 0.3:
            s["min_length"] = rng.randint(0, n)
        if q in ("succ", "succs") or rng.random() < 0.3:
            # forward search always with a window (on an infinite language it need not produce a next word otherwise)
            s["max_length"] = rng.randint(n, 2 * n) if rng.random() < 0.7 else rng.randint(0, n)
        if q in ("succs", "preds"):
            s["n"] = rng.randint(1, 4)
        return s
    return dict(q=q)


def show_other(s: dict) -> str:
    q = s["q"]
    if q in ("succ", "pred", "succs", "preds"):
        kw = "".join(f", {k}={s[k]}" for k in ("min_length", "max_length") if k in s)
        base = {"succ": "successor", "pred": "predecessor", "succs": "successors", "preds": "predecessors"}[q]
        txt = f"{base}({s['w']!r}, strict={s['strict']}{kw})"
        return txt if q in ("succ", "pred") else f"first {s['n']} of {txt}"
    return {"count": lambda: f"count_words_of_length({s['k']})", "words": lambda: f"list(words_of_length({s['k']}))",
            "words_part": lambda: f"first {s['n']} of words_of_length({s['k']})", "iter": lambda: f"first {s['n']} of iter()",
            "min": lambda: "minimum_word_length()", "max": lambda: "maximum_word_length()", "empty": lambda: "isempty()",
            "finite": lambda: "isfinite()", "card": lambda: "cardinality()", "len": lambda: "len()",
            "random": lambda: f"random_word({s['k']}, seed={s['seed']})", "clear": lambda: "clear_cache()"}[q]()


def exec_other(x: DFA, s: dict, keep: List[Any]):
    """Ask the query of the live object x; ("ok", value) / ("err", class name).  Generators that are only
    partly consumed are kept alive in `keep` (left suspended, as a caller's loop with `break` leaves them)."""
    q = s["q"]
    g = lambda f: L.guarded(f, STEP_TIMEOUT_S)
    if q == "count":
        return g(lambda: x.count_words_of_length(s["k"]))
    if q == "words":
        return g(lambda: list(x.words_of_length(s["k"])))
    if q in ("words_part", "iter", "succs", "preds"):
        def part():
            if q == "words_part":
                it = x.words_of_length(s["k"])
            elif q == "iter":
                it = iter(x)
            else:
                kw = {k: s[k] for k in ("min_length", "max_length") if k in s}
                it = (x.successors if q == "succs" else x.predecessors)(s["w"], strict=s["strict"], **kw)
            keep.append(it)
            return list(itertools.islice(it, s["n"]))
        return g(part)
    if q in ("succ", "pred"):
        kw = {k: s[k] for k in ("min_length", "max_length") if k in s}
        return g(lambda: (x.successor if q == "succ" else x.predecessor)(s["w"], strict=s["strict"], **kw))
    if q == "random":
        return g(lambda: x.random_word(s["k"], seed=s["seed"]))
    if q == "clear":
        return g(lambda: x.clear_cache())
    f = {"min": lambda: x.minimum_word_length(), "max": lambda: x.maximum_word_length(), "empty": lambda: x.isempty(),
         "finite": lambda: x.isfinite(), "card": lambda: x.cardinality(), "len": lambda: len(x)}[q]
    return g(f)


# ------------------------------------------------------------------ derived objects
# name -> (needs a second operand?, function(d, other))
DERIVE: Dict[str, Tuple[bool, Callable[[DFA, Optional[DFA]], DFA]]] = {
    "complement(minify=False)": (False, lambda d, o: d.complement(minify=False)),
    "complement()": (False, lambda d, o: d.complement()),
    "complement(retain_names=True, minify=False)": (False, lambda d, o: d.complement(retain_names=True, minify=False)),
    "complement(retain_names=True)": (False, lambda d, o: d.complement(retain_names=True)),
    "~d": (False, lambda d, o: ~d),
    "copy()": (False, lambda d, o: d.copy()),
    "to_complete()": (False, lambda d, o: d.to_complete()),
    "to_partial()": (False, lambda d, o: d.to_partial()),
    "to_partial(minify=False)": (False, lambda d, o: d.to_partial(minify=False)),
    "to_partial(retain_names=True, minify=False)": (False, lambda d, o: d.to_partial(retain_names=True, minify=False)),
    "minify()": (False, lambda d, o: d.minify()),
    "minify(retain_names=True)": (False, lambda d, o: d.minify(retain_names=True)),
    "union(d, minify=False)": (False, lambda d, o: d.union(d, minify=False)),
    "intersection(d, minify=False)": (False, lambda d, o: d.intersection(d, minify=False)),
    "difference(d, minify=False)": (False, lambda d, o: d.difference(d, minify=False)),
    "d ^ d": (False, lambda d, o: d ^ d),
    "union(other)": (True, lambda d, o: d.union(o)),
    "union(other, minify=False)": (True, lambda d, o: d.union(o, minify=False)),
    "other.union(d, minify=False)": (True, lambda d, o: o.union(d, minify=False)),
    "intersection(other)": (True, lambda d, o: d.intersection(o)),
    "intersection(other, minify=False)": (True, lambda d, o: d.intersection(o, minify=False)),
    "other.intersection(d, retain_names=True, minify=False)": (True, lambda d, o: o.intersection(d, retain_names=True, minify=False)),
    "difference(other, minify=False)": (True, lambda d, o: d.difference(o, minify=False)),
    "other.difference(d)": (True, lambda d, o: o.difference(d)),
    "symmetric_difference(other, minify=False)": (True, lambda d, o: d.symmetric_difference(o, minify=False)),
    "d | other": (True, lambda d, o: d | o),
    "d & other": (True, lambda d, o: d & o),
    "other - d": (True, lambda d, o: o - d),
    "d ^ other": (True, lambda d, o: d ^ o),
}
DERIVE_NAMES = list(DERIVE)


def derive(name: str, d: DFA, other: Optional[DFA]) -> DFA:
    return DERIVE[name][1](d, other)


# ------------------------------------------------------------------ shapes
def lasso_dfa(rng: random.Random, max_states: int = 6) -> DFA:
    """tail + cycle: states 0..t+c-1, i -> i+1 on every symbol (on some symbols when partial), the last
    state goes back to state t (c > 0), nowhere or to a sink (c == 0); 1–2 final positions.  The accepted
    lengths are an arithmetic pattern that skips whole windows of lengths."""
    from harness import gen
    sy = list(rng.choice(gen.ALPHABETS))[: rng.randint(1, 2)]
    n = rng.randint(1, max_states)
    c = rng.randint(0, n)
    t = n - c
    partial = rng.random() < 0.5
    use = [a for a in sy if not partial or rng.random() < 0.7] or sy[:1]
    trans: Dict[Any, Dict[str, Any]] = {i: {a: i + 1 for a in use} for i in range(n - 1)}
    states = set(range(n))
    if c > 0:
        trans[n - 1] = {a: t for a in use}
    elif partial:
        trans[n - 1] = {}
    else:
        trans[n - 1] = {a: "sink" for a in sy}
        trans["sink"] = {a: "sink" for a in sy}
        states.add("sink")
    if not partial:
        for i in range(n):
            for a in sy:
                trans[i].setdefault(a, trans[i][use[0]])
    finals = {rng.randrange(n) for _ in range(rng.choice([1, 1, 2]))}
    if rng.random() < 0.1:
        finals = set()
    return DFA(states=states, input_symbols=set(sy), transitions=trans, initial_state=0, final_states=finals,
               allow_partial=partial)
