"""Dict / set SUBCLASSES and look-alikes a user may hand to a constructor under
allow_mutable_automata=True (shared by ops/C18.py — the definition must stay as built — and
ops/C19.py — the object must stay valid and answer like the default configuration).

Defined in a regular module so that automata holding such containers can be pickled.
"""
from __future__ import annotations

import collections
import functools
from typing import Any, Dict

from harness import gen_misc as G


class InsertingDict(dict):
    """A dict subclass whose __missing__ inserts a default (what collections.defaultdict does)."""
    factory = dict

    def __missing__(self, key):
        v = self[key] = self.factory()
        return v


class InsertingSetDict(InsertingDict):
    factory = set


class InsertingListDict(InsertingDict):
    factory = list


class DefaultingDict(dict):
    """A dict subclass whose __missing__ answers with a default WITHOUT inserting it."""

    def __missing__(self, key):
        return frozenset()


class SetSub(set):
    pass


INNER_FACTORY = {"NFA": set, "NTM": set, "MNTM": list, "DPDA": dict, "NPDA": dict}
FLAVOURS = ("defaultdict", "defaultdict-outer", "OrderedDict", "missing-inserts", "missing-defaults", "set-subclass")
# flavours whose OUTER table inserts a row when a missing key is subscripted
INSERTING_FLAVOURS = ("defaultdict", "defaultdict-outer", "missing-inserts")


def flavoured(cls: str, kw: Dict[str, Any], flavour: str) -> Dict[str, Any]:
    """The definition `kw` with its transition table (and sets) rebuilt in dict / set SUBCLASSES a user may
    well pass under allow_mutable_automata=True: collections.defaultdict (outer and rows — the usual way such
    tables are built), OrderedDict, dict subclasses with __missing__ (inserting / answering a default), a set
    subclass.  Same content, other container classes."""
    kw = G._dc(kw)
    t = kw["transitions"]
    inner = INNER_FACTORY.get(cls)
    if flavour == "defaultdict":
        mk_row = (lambda row: collections.defaultdict(inner, row)) if inner else dict
        row_factory = functools.partial(collections.defaultdict, inner) if inner else dict
        kw["transitions"] = collections.defaultdict(row_factory, {q: mk_row(row) for q, row in t.items()})
    elif flavour == "defaultdict-outer":
        kw["transitions"] = collections.defaultdict(dict, t)
    elif flavour == "OrderedDict":
        kw["transitions"] = collections.OrderedDict((q, collections.OrderedDict(row)) for q, row in t.items())
    elif flavour == "missing-inserts":
        rowcls = {set: InsertingSetDict, list: InsertingListDict, dict: InsertingDict}.get(inner)
        kw["transitions"] = InsertingDict({q: (rowcls(row) if rowcls else dict(row)) for q, row in t.items()})
    elif flavour == "missing-defaults":
        kw["transitions"] = DefaultingDict({q: (DefaultingDict(row) if inner in (set, list) else dict(row))
                                            for q, row in t.items()})
    elif flavour == "set-subclass":
        for k in G.SET_PARAMS:
            if k in kw:
                kw[k] = SetSub(kw[k])
        if cls in ("NFA", "NTM"):
            kw["transitions"] = {q: {a: (SetSub(ts) if isinstance(ts, (set, frozenset)) else ts) for a, ts in row.items()}
                                 for q, row in t.items()}
    return kw
