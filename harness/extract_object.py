"""Generated/ObjectProtocol.lean — the object protocol of the automaton classes (C18), regenerated
from /repo by pure `ast` (called from extract_misc.write_all; deterministic output).

  * automatonClasses   : `Automaton` and every class of the package that derives from it
                         (transitively, resolved by class name over all automata/**/*.py)
  * attrHooks          : (class, hook, body shape) for every `__setattr__` / `__delattr__` one of
                         these classes defines.  The shape is
                         "raise AttributeError" exactly when the body (docstring aside) is the
                         single statement `raise AttributeError(...)` — an unconditional raise; a
                         raise under an `if`, an extra statement, a decorator … give another string
  * objectSetattrSites : (class, method, attribute names) of every call
                         `object.__setattr__(self, …)` / `object.__delattr__(self, …)` inside these
                         classes — the only ways around the hooks ("<dynamic>" when the name is not
                         a string literal)
  * postInitAttrs      : per concrete class, the attributes bound by `object.__setattr__(self,
                         "<name>", <value>)` in the methods `__init__` calls on `self` after
                         `super().__init__` (DFA.clear_cache), with the shape of the value
  * initKeywordOnly    : per concrete class, is `__init__` of the form `(self, *, …)` — nothing
                         positional but `self`, no *args / **kwargs
  * initDefaults       : per concrete class, (parameter, default value) of the `__init__`
                         parameters that have a default
"""
from __future__ import annotations

import ast
import json
import os

CONCRETE = [
    ("automata/fa/dfa.py", "DFA"),
    ("automata/fa/nfa.py", "NFA"),
    ("automata/fa/gnfa.py", "GNFA"),
    ("automata/pda/dpda.py", "DPDA"),
    ("automata/pda/npda.py", "NPDA"),
    ("automata/tm/dtm.py", "DTM"),
    ("automata/tm/ntm.py", "NTM"),
    ("automata/tm/mntm.py", "MNTM"),
]
HOOKS = ("__setattr__", "__delattr__")


def lean_str(s: str) -> str:
    return json.dumps(s, ensure_ascii=False)


def lean_list(xs) -> str:
    return "[" + ", ".join(lean_str(x) for x in xs) + "]"


def package_files(repo: str):
    out = []
    root = os.path.join(repo, "automata")
    for d, dirs, files in os.walk(root):
        dirs.sort()
        for f in sorted(files):
            if f.endswith(".py"):
                out.append(os.path.relpath(os.path.join(d, f), repo).replace(os.sep, "/"))
    return sorted(out)


def base_name(b) -> str:
    if isinstance(b, ast.Name):
        return b.id
    if isinstance(b, ast.Attribute):
        return b.attr
    if isinstance(b, ast.Subscript):
        return base_name(b.value)
    return "?"


def strip_doc(body):
    if body and isinstance(body[0], ast.Expr) and isinstance(getattr(body[0], "value", None), ast.Constant) \
            and isinstance(body[0].value.value, str):
        return body[1:]
    return body


def exc_name(node) -> str:
    if isinstance(node, ast.Call):
        node = node.func
    if isinstance(node, ast.Attribute):
        return node.attr
    if isinstance(node, ast.Name):
        return node.id
    return "?"


def body_shape(fn) -> str:
    body = strip_doc(fn.body)
    pre = "decorated " if fn.decorator_list else ""
    if len(body) == 1 and isinstance(body[0], ast.Raise) and body[0].exc is not None:
        return pre + "raise " + exc_name(body[0].exc)
    return pre + "other: " + ",".join(type(s).__name__ for s in body)


def methods(cnode):
    return [it for it in cnode.body if isinstance(it, (ast.FunctionDef, ast.AsyncFunctionDef))]


def ordered_walk(node):
    yield node
    for ch in ast.iter_child_nodes(node):
        yield from ordered_walk(ch)


def object_attr_calls(fn):
    """(hook, attribute name or "<dynamic>", value node or None) of `object.__setattr__(self, …)`
    / `object.__delattr__(self, …)` calls in fn, in source order."""
    out = []
    for n in ordered_walk(fn):
        if (isinstance(n, ast.Call) and isinstance(n.func, ast.Attribute) and n.func.attr in ("__setattr__", "__delattr__")
                and isinstance(n.func.value, ast.Name) and n.func.value.id == "object"):
            name = "<dynamic>"
            if len(n.args) >= 2 and isinstance(n.args[1], ast.Constant) and isinstance(n.args[1].value, str):
                name = n.args[1].value
            out.append((n.func.attr, name, n.args[2] if len(n.args) >= 3 else None))
    return out


def value_shape(v) -> str:
    if isinstance(v, ast.List) and not v.elts:
        return "[]"
    if isinstance(v, ast.Dict) and not v.keys:
        return "{}"
    if isinstance(v, ast.Constant):
        return repr(v.value)
    return "?"


def lit(v) -> str:
    """Lean term of type `Lit` for a default value."""
    if isinstance(v, ast.Constant):
        c = v.value
        if isinstance(c, bool):
            return f".bool {'true' if c else 'false'}"
        if isinstance(c, int):
            return f".int ({c})"
        if isinstance(c, str):
            return f".str {lean_str(c)}"
        if c is None:
            return ".none"
    if isinstance(v, ast.UnaryOp) and isinstance(v.op, ast.USub) and isinstance(v.operand, ast.Constant) \
            and isinstance(v.operand.value, int) and not isinstance(v.operand.value, bool):
        return f".int (-{v.operand.value})"
    return f".other {lean_str(ast.unparse(v))}"


def gen_object_protocol(parse) -> str:
    repo = os.environ.get("VERIF_REPO", "/repo")
    classes = []  # (rel, ClassDef) in file order
    for rel in package_files(repo):
        try:
            tree = parse(rel)
        except (SyntaxError, FileNotFoundError):
            continue
        for node in tree.body:
            if isinstance(node, ast.ClassDef):
                classes.append((rel, node))
    # transitive subclasses of Automaton, by class name
    derived = {"Automaton"}
    changed = True
    while changed:
        changed = False
        for rel, c in classes:
            if c.name not in derived and any(base_name(b) in derived for b in c.bases):
                derived.add(c.name)
                changed = True
    auto = [(rel, c) for rel, c in classes if c.name in derived]
    by_name = {c.name: c for rel, c in auto}

    out = [
        "/- GENERATED by harness/extract_object.py from automata/**/*.py — do not edit. -/",
        "namespace AV.Gen.Object",
        "",
        "/-- A literal default value of an `__init__` parameter. -/",
        "inductive Lit",
        "  | bool (b : Bool)",
        "  | int (i : Int)",
        "  | str (s : String)",
        "  | none",
        "  | other (src : String)",
        "  deriving DecidableEq, Repr",
        "",
        "/-- `Automaton` and every class of the package deriving from it (file order). -/",
        "def automatonClasses : List String := " + lean_list([c.name for rel, c in auto]),
        "",
        "/-- (class, hook, shape of the body) of every attribute hook these classes define;",
        "\"raise AttributeError\" = the body is the single statement `raise AttributeError(...)`. -/",
        "def attrHooks : List (String × String × String) := [",
    ]
    rows = []
    for rel, c in auto:
        for fn in methods(c):
            if fn.name in HOOKS:
                rows.append(f"  ({lean_str(c.name)}, {lean_str(fn.name)}, {lean_str(body_shape(fn))})")
    out.append(",\n".join(rows))
    out.append("]")
    out.append("")
    out.append("/-- (class, method, hook, attribute names) of every `object.__setattr__(self, …)` /")
    out.append("`object.__delattr__(self, …)` call inside these classes. -/")
    out.append("def objectSetattrSites : List (String × String × String × List String) := [")
    rows = []
    for rel, c in auto:
        for fn in methods(c):
            calls = object_attr_calls(fn)
            for hook in ("__setattr__", "__delattr__"):
                names = [n for h, n, _ in calls if h == hook]
                if names:
                    rows.append(f"  ({lean_str(c.name)}, {lean_str(fn.name)}, {lean_str(hook)}, {lean_list(names)})")
    out.append(",\n".join(rows))
    out.append("]")
    out.append("")
    # per concrete class
    post, kwonly, defaults = [], [], []
    for rel, cls in CONCRETE:
        c = by_name.get(cls)
        init = None
        if c is not None:
            for fn in methods(c):
                if fn.name == "__init__":
                    init = fn
        attrs = []
        ko = False
        dfl = []
        if init is not None:
            a = init.args
            ko = ([x.arg for x in a.posonlyargs + a.args] == ["self"] and a.vararg is None and a.kwarg is None)
            pos = a.posonlyargs + a.args
            for x, d in zip(pos[len(pos) - len(a.defaults):], a.defaults):
                dfl.append((x.arg, lit(d)))
            for x, d in zip(a.kwonlyargs, a.kw_defaults):
                if d is not None:
                    dfl.append((x.arg, lit(d)))
            # self.<m>() statements of __init__ → object.__setattr__(self, "<name>", value) in <m>
            for st in strip_doc(init.body):
                if (isinstance(st, ast.Expr) and isinstance(st.value, ast.Call) and isinstance(st.value.func, ast.Attribute)
                        and isinstance(st.value.func.value, ast.Name) and st.value.func.value.id == "self"):
                    m = st.value.func.attr
                    for fn in methods(c):
                        if fn.name == m:
                            for h, n, v in object_attr_calls(fn):
                                if h == "__setattr__":
                                    attrs.append((n, value_shape(v)))
                for h, n, v in object_attr_calls(st):
                    if h == "__setattr__":
                        attrs.append((n, value_shape(v)))
        post.append(f"  ({lean_str(cls)}, [" + ", ".join(f"({lean_str(n)}, {lean_str(v)})" for n, v in attrs) + "])")
        kwonly.append(f"  ({lean_str(cls)}, {'true' if ko else 'false'})")
        defaults.append(f"  ({lean_str(cls)}, [" + ", ".join(f"({lean_str(n)}, {v})" for n, v in dfl) + "])")
    out.append("/-- Attributes each concrete class's `__init__` binds itself (directly or in a method it")
    out.append("calls on `self`) through `object.__setattr__(self, \"<name>\", <value>)`: (name, value shape). -/")
    out.append("def postInitAttrs : List (String × List (String × String)) := [")
    out.append(",\n".join(post))
    out.append("]")
    out.append("")
    out.append("/-- Is `__init__` of the form `(self, *, …)`: only `self` positional, no `*args` / `**kwargs`. -/")
    out.append("def initKeywordOnly : List (String × Bool) := [")
    out.append(",\n".join(kwonly))
    out.append("]")
    out.append("")
    out.append("/-- Default values of `__init__` parameters, per class, in signature order. -/")
    out.append("def initDefaults : List (String × List (String × Lit)) := [")
    out.append(",\n".join(defaults))
    out.append("]")
    out.append("")
    out.append("end AV.Gen.Object")
    out.append("")
    return "\n".join(out)
