"""C01, round 4: "constructor argument reuse" scenarios and NFAs whose target collections are not sets.

A scenario is plain data (so that it can be written to a replay file and re-run in a fresh process):

    (kind, mutable, kw0, steps)

kind     "DFA" | "NFA"
mutable  value of automata.base.config.allow_mutable_automata while constructing
kw0      constructor arguments as plain dict / set / list / tuple containers
steps    ("build", words, expect_ok)   construct from THE SAME container objects again and read `words`
         any other tuple               an in-place edit of the containers (see apply_edit)

Every automaton built must follow the containers as they are at the moment of its construction (the
textbook run of a deep copy taken then), whatever was built from the same objects before; and — in the
default configuration, where the constructor freezes its arguments — an automaton built earlier must
keep following the table it was built from when the containers are edited afterwards.
"""
from __future__ import annotations

import copy
import random
from typing import Any, Dict, List, Optional, Tuple

from harness import gen

NEW_NAMES = ["new", 77, ("n", 0), "q_new", -7, frozenset({"n"})]
TYPO_NAMES = ["typo", 404, ("typo",), "Q0"]


class Defn:
    """The definition as handed to a constructor (a deep copy), with the attributes that the encoders
    and the textbook interpreters of C01 read from an automaton."""

    def __init__(self, kind: str, kw: dict):
        kw = copy.deepcopy(kw)
        self.kind = kind
        self.states = list(kw["states"])
        self.input_symbols = list(kw["input_symbols"])
        self.transitions = kw["transitions"]
        self.initial_state = kw["initial_state"]
        self.final_states = frozenset(kw["final_states"])
        self.allow_partial = bool(kw.get("allow_partial", False))


def apply_edit(kw: dict, step: tuple):
    """In-place edit of the constructor arguments (the container objects stay the same ones)."""
    op, T = step[0], kw["transitions"]
    if op == "set":        # DFA: another target; NFA: a new target collection in the same row dict
        _, q, a, v = step
        T[q][a] = copy.deepcopy(v)
    elif op == "add":      # one more target in an existing set / list
        _, q, a, t = step
        c = T[q][a]
        c.add(t) if isinstance(c, set) else c.append(t)
    elif op == "discard":
        _, q, a, t = step
        c = T[q][a]
        c.discard(t) if isinstance(c, set) else c.remove(t)
    elif op == "del":
        _, q, a = step
        del T[q][a]
    elif op == "row":      # a new row dict under an old or a new key
        _, q, row = step
        T[q] = copy.deepcopy(row)
    elif op == "final+":
        kw["final_states"].add(step[1])
    elif op == "final-":
        kw["final_states"].discard(step[1])
    elif op == "state+":
        kw["states"].add(step[1])
    elif op == "initial":
        kw["initial_state"] = step[1]
    elif op == "alias":    # one collection object referenced from two places of the table
        _, q1, a1, q2, a2 = step
        T[q2][a2] = T[q1][a1]
    else:
        raise ValueError(step)


# ------------------------------------------------------------------ plain containers from a generated automaton
def collection(rng: random.Random, ts, style: str):
    ts = list(ts)
    rng.shuffle(ts)
    k = style if style != "mixed" else rng.choice(["set", "list", "tuple", "frozenset"])
    return {"set": set, "list": list, "tuple": tuple, "frozenset": frozenset}[k](ts)


def nfa_kw(rng: random.Random, n, style: str = "set") -> dict:
    return dict(states=set(n.states), input_symbols=set(n.input_symbols),
                transitions={q: {a: collection(rng, ts, style) for a, ts in row.items()}
                             for q, row in n.transitions.items()},
                initial_state=n.initial_state, final_states=set(n.final_states))


def dfa_kw(d) -> dict:
    return dict(states=set(d.states), input_symbols=set(d.input_symbols),
                transitions={q: dict(row) for q, row in d.transitions.items()},
                initial_state=d.initial_state, final_states=set(d.final_states), allow_partial=bool(d.allow_partial))


# ------------------------------------------------------------------ words that exercise an edit
def word_to(kind: str, kw: dict, goal) -> Optional[str]:
    """A shortest word on which the table can be in state `goal` (None: unreachable)."""
    T = kw["transitions"]
    seen = {kw["initial_state"]: ""}
    todo = [kw["initial_state"]]
    while todo:
        nxt = []
        for q in todo:
            if q == goal:
                return seen[q]
            for a, ts in T.get(q, {}).items():
                for t in ([ts] if kind == "DFA" else list(ts)):
                    if t not in seen:
                        seen[t] = seen[q] + a
                        # ε-successors are at the same distance: handle them in this round
                        (todo if a == "" else nxt).append(t)
        todo = nxt
    return seen.get(goal)


def words_for(rng: random.Random, kind: str, kw: dict, touched: List[Tuple[Any, str]], k: int = 5) -> List[str]:
    sy = sorted(kw["input_symbols"])
    f = gen.foreign_symbol(sy)
    ws = [""]
    for q, a in touched:
        p = word_to(kind, kw, q)
        if p is not None:
            ws.append(p + a)
            if sy:
                ws.append(p + a + rng.choice(sy))
    while len(ws) < k + 2 * len(touched):
        ws.append(gen.rand_word(rng, sy, 5, f))
    out = []
    for w in ws:
        if w not in out:
            out.append(w)
    return out


# ------------------------------------------------------------------ scenarios
def rand_scenario(rng: random.Random, kind: Optional[str] = None):
    kind = kind or rng.choice(["NFA", "NFA", "DFA"])
    mutable = rng.random() < 0.15
    if kind == "NFA":
        style = rng.choice(["set", "set", "set", "list", "mixed"])
        kw0 = nfa_kw(rng, gen.rand_nfa(rng, 4), style)
    else:
        kw0 = dfa_kw(gen.rand_dfa(rng, 4))
    cur = copy.deepcopy(kw0)
    steps: List[tuple] = []

    def emit(step):
        steps.append(step)
        apply_edit(cur, step)

    sy = sorted(cur["input_symbols"])
    labels = sy + ([""] if kind == "NFA" else [])
    if kind == "NFA" and rng.random() < 0.25:
        cells = [(q, a) for q, row in cur["transitions"].items() for a in row]
        if len(cells) >= 2:
            (q1, a1), (q2, a2) = rng.sample(cells, 2)
            emit(("alias", q1, a1, q2, a2))
    steps.append(("build", words_for(rng, kind, cur, [], 4), True))
    for _ in range(rng.choice([1, 1, 2, 2, 3])):
        touched: List[Tuple[Any, str]] = []
        typo = labels and rng.random() < 0.2
        for _ in range(rng.choice([1, 1, 2, 3])):
            names = sorted(cur["states"], key=repr)
            T = cur["transitions"]
            rows = [q for q in T if q in cur["states"]]
            r = rng.random()
            if r < 0.5 and rows and labels:
                q, a = rng.choice(rows), rng.choice(labels)
                t = rng.choice(names)
                if kind == "DFA":
                    if a in T[q] or cur["allow_partial"]:
                        if a in T[q] and cur["allow_partial"] and rng.random() < 0.25:
                            emit(("del", q, a))
                        else:
                            emit(("set", q, a, t))
                        touched.append((q, a))
                else:
                    c = T[q].get(a)
                    if isinstance(c, (set, list)) and rng.random() < 0.6:
                        if t in c and rng.random() < 0.5:
                            emit(("discard", q, a, t))
                        elif t not in c:
                            emit(("add", q, a, t))
                    elif c is not None and rng.random() < 0.15:
                        emit(("del", q, a))
                    else:
                        style = rng.choice(["set", "set", "list", "tuple", "frozenset"])
                        emit(("set", q, a, collection(rng, {x for x in names if rng.random() < 0.4} | {t}, style)))
                    touched.append((q, a))
            elif r < 0.7:
                q = rng.choice(names)
                emit(("final-", q) if q in cur["final_states"] else ("final+", q))
                touched.append((q, ""))
            elif r < 0.85 and rows and labels:
                # a new state with its row, entered from an old state
                qn = next((x for x in NEW_NAMES if x not in cur["states"]), None)
                if qn is None:
                    continue
                emit(("state+", qn))
                names2 = names + [qn]
                if kind == "DFA":
                    row = {a: rng.choice(names2) for a in sy if not cur["allow_partial"] or rng.random() < 0.7}
                else:
                    row = {a: {rng.choice(names2)} for a in labels if rng.random() < 0.6}
                emit(("row", qn, row))
                q, a = rng.choice(rows), rng.choice(sy if sy else labels)
                if kind == "DFA":
                    if a in T[q] or cur["allow_partial"]:
                        emit(("set", q, a, qn))
                else:
                    c = T[q].get(a)
                    emit(("add", q, a, qn) if isinstance(c, (set, list)) else
                         ("set", q, a, set(c or ()) | {qn}))
                if rng.random() < 0.5:
                    emit(("final+", qn))
                touched.append((qn, ""))
                touched.append((q, a))
            elif r < 0.93 and rows:
                # the whole row of a state replaced by a new dict
                q = rng.choice(rows)
                if kind == "DFA":
                    row = {a: rng.choice(names) for a in sy if not cur["allow_partial"] or rng.random() < 0.7}
                else:
                    row = {a: {x for x in names if rng.random() < 0.4} for a in labels if rng.random() < 0.6}
                emit(("row", q, row))
                touched += [(q, a) for a in row]
            else:
                q = rng.choice(names)
                if q in T:
                    emit(("initial", q))
        if typo and cur["transitions"]:
            # a definition that is invalid for a while: a target that is no state (must be refused), then fixed
            rows = [q for q in cur["transitions"] if q in cur["states"]]
            q, a = rng.choice(rows), rng.choice(sy if sy else labels)
            old = copy.deepcopy(cur["transitions"][q].get(a))
            bad = next(x for x in TYPO_NAMES if x not in cur["states"])
            emit(("set", q, a, bad if kind == "DFA" else {bad}))
            steps.append(("build", [], False))
            fix = rng.choice(sorted(cur["states"], key=repr))
            if old is not None and rng.random() < 0.5:
                emit(("set", q, a, old))
            else:
                emit(("set", q, a, fix if kind == "DFA" else {fix}))
            touched.append((q, a))
        steps.append(("build", words_for(rng, kind, cur, touched[:3], 3), True))
    return kind, mutable, kw0, steps
