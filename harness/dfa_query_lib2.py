"""Additional helpers of the C13 check (round 2, review gaps G1/G3/G5/X2); kept apart from
harness/dfa_query_lib.py, which is shared with C14/C20 and edited by another builder.

* forward path counting (an oracle for counts/cardinalities of DFAs that are too big for
  brute-force enumeration; the code counts *backwards* from the final states);
* a longest-path oracle for digraphs (DFS colouring + memo; the model's contract function is
  level-based) and a generator of digraphs with self-loops, 2-cycles and back edges (G3);
* DFAs over the empty alphabet, bigger DFAs (10–14 states) (G5);
* the probes of the two open findings: `len()` ≥ 2^63 (G1) and cached queries on an unbound
  temporary (X2).
"""
from __future__ import annotations

import random
from typing import Any, Dict, Iterator, List, Optional, Sequence, Tuple

import networkx as nx
from automata.fa.dfa import DFA

from harness import gen

SSIZE_LIMIT = 2 ** 63  # sys.maxsize + 1 on the pinned 64-bit CPython

KEY_LEN = "C13:len-overflow-2^63"
KEY_TMP = "C06:cached-query-on-temporary"


# ------------------------------------------------------------------ counting without enumeration
def forward_counts(d: DFA, upto: int) -> List[int]:
    """counts[k] = number of accepted words of length k, by pushing path counts FORWARD from the
    initial state over `transitions[q].items()` (one path per word: the automaton is
    deterministic).  Shares nothing with the code's backward DP over the final states."""
    cur: Dict[Any, int] = {d.initial_state: 1}
    out = []
    for _ in range(upto + 1):
        out.append(sum(n for q, n in cur.items() if q in d.final_states))
        nxt: Dict[Any, int] = {}
        for q, n in cur.items():
            for _a, t in d.transitions[q].items():
                nxt[t] = nxt.get(t, 0) + n
        cur = nxt
    return out


# ------------------------------------------------------------------ G3: dag_longest_path_length
def longest_path_oracle(edges: Sequence[Tuple[int, int]], V: Sequence[int]) -> Optional[int]:
    """Number of edges of a longest path of the subgraph induced by V, None if it has a cycle
    (a self-loop is a cycle).  Three-colour DFS with memo."""
    vs = set(V)
    succ: Dict[int, List[int]] = {v: [] for v in vs}
    for u, v in edges:
        if u in vs and v in vs:
            succ[u].append(v)
    best: Dict[int, int] = {}
    on_stack = set()

    def go(v: int) -> Optional[int]:
        if v in best:
            return best[v]
        if v in on_stack:
            return None
        on_stack.add(v)
        m = 0
        for u in succ[v]:
            r = go(u)
            if r is None:
                return None
            m = max(m, r + 1)
        on_stack.discard(v)
        best[v] = m
        return m

    out = 0
    for v in vs:
        r = go(v)
        if r is None:
            return None
        out = max(out, r)
    return out


def networkx_longest(edges: Sequence[Tuple[int, int]], nodes: Sequence[int], V: Sequence[int]):
    """Exactly the calls of DFA.maximum_word_length on a DiGraph: subgraph + dag_longest_path_length,
    NetworkXUnfeasible -> None."""
    g = nx.DiGraph()
    g.add_nodes_from(nodes)
    g.add_edges_from(edges)
    sub = g.subgraph(V)
    try:
        return nx.dag_longest_path_length(sub)
    except nx.exception.NetworkXUnfeasible:
        return None


def rand_digraph(rng: random.Random) -> Tuple[List[int], List[Tuple[int, int]], List[int], str]:
    """(nodes, edges, V, kind): 10–40 nodes; a random DAG (edges along a hidden order) to which
    self-loops, 2-cycles and back edges are added in some of the cases; V is all nodes or a
    random subset (which may or may not cut the cycles)."""
    n = rng.randint(10, 40)
    nodes = list(range(n))
    order = list(nodes)
    rng.shuffle(order)
    pos = {v: i for i, v in enumerate(order)}
    p = rng.choice([0.03, 0.08, 0.15, 0.3])
    span = rng.choice([2, 5, n])
    edges = []
    for u in nodes:
        for v in nodes:
            if pos[u] < pos[v] <= pos[u] + span and rng.random() < p:
                edges.append((u, v))
    kind = "dag"
    r = rng.random()
    if r < 0.15:
        v = rng.choice(nodes)
        edges.append((v, v))
        kind = "self_loop"
    elif r < 0.3 and edges:
        u, v = rng.choice(edges)
        edges.append((v, u))
        kind = "two_cycle"
    elif r < 0.45 and edges:
        for _ in range(rng.randint(1, 3)):
            u, v = rng.sample(nodes, 2)
            if pos[u] > pos[v]:
                edges.append((u, v))
        kind = "back_edges"
    rng.shuffle(edges)
    if rng.random() < 0.5:
        V = list(nodes)
    else:
        V = [v for v in nodes if rng.random() < rng.choice([0.5, 0.8, 0.95])]
        kind += "+subset"
    rng.shuffle(V)
    return nodes, edges, V, kind


def enc_digraph(edges: Sequence[Tuple[int, int]], V: Sequence[int]) -> str:
    from harness.common import toks
    return toks(len(edges), [[u, v] for u, v in edges], len(V), list(V))


# ------------------------------------------------------------------ G5: generators
def empty_alphabet_dfas(max_states: int = 3) -> Iterator[DFA]:
    """Every DFA over the EMPTY alphabet with ≤ max_states states (all initial states, all final
    sets; complete and partial declare the same table: every row is empty)."""
    for n in range(1, max_states + 1):
        states = list(range(n))
        for init in states:
            for mask in range(1 << n):
                finals = {q for q in states if mask >> q & 1}
                for partial in (False, True):
                    yield DFA(states=set(states), input_symbols=set(), transitions={q: {} for q in states},
                              initial_state=init, final_states=finals, allow_partial=partial)


def big_acyclic_dfa(rng: random.Random, alpha: Sequence[str], n: int) -> DFA:
    """A partial DFA with n states whose live part is a DAG along a hidden order (finite
    language), plus — in some cases — cycles among states that cannot reach a final state."""
    names = list(range(n))
    order = list(names)
    rng.shuffle(order)
    pos = {q: i for i, q in enumerate(order)}
    finals = {q for q in names if rng.random() < 0.3}
    dead = set(rng.sample(names, rng.randint(0, 3))) - finals if rng.random() < 0.4 else set()
    trans: Dict[Any, Dict[str, Any]] = {}
    for q in names:
        row = {}
        for a in alpha:
            later = [t for t in names if pos[t] > pos[q] and (q not in dead or t in dead)]
            r = rng.random()
            if q in dead:
                if r < 0.7 and dead:
                    row[a] = rng.choice(sorted(dead))  # cycles inside the dead part
            elif r < 0.7 and later:
                row[a] = rng.choice(later[: rng.choice([2, 4, n])])
            elif r < 0.8 and dead:
                row[a] = rng.choice(sorted(dead))
        items = list(row.items())
        rng.shuffle(items)
        trans[q] = dict(items)
    return DFA(states=set(names), input_symbols=set(alpha), transitions=trans,
               initial_state=order[0] if rng.random() < 0.85 else rng.choice(names),
               final_states=finals, allow_partial=True)


def bigger_dfa(rng: random.Random) -> Tuple[DFA, str]:
    """10–14 states over one or two symbols (brute force over the words stays feasible for the
    short lengths; counts and cardinalities go through `forward_counts`)."""
    alpha = rng.choice([("a", "b"), ("a",), ("0", "1")])
    r = rng.random()
    if r < 0.5:
        d, kind = big_acyclic_dfa(rng, alpha, rng.randint(10, 14)), "big_acyclic"
    elif r < 0.85:
        d, kind = gen.rand_dfa(rng, 14, alphabet=alpha, min_states=10), "big_rand"
    else:
        lo = rng.randint(0, 6)
        d, kind = DFA.of_length(set(alpha), min_length=lo, max_length=lo + rng.randint(3, 7)), "big_of_length"
    return d, kind


# ------------------------------------------------------------------ G1: len() and big cardinalities
LEN_PROBES = [
    # (expression, what it is for)
    ("DFA.of_length({'a','b'}, min_length=0, max_length=64)", "the finding: 2^65-1 words"),
    ("DFA.of_length({'a','b'}, min_length=0, max_length=62)", "2^63-1 words: the largest len() that fits"),
    ("DFA.of_length({'a','b'}, min_length=0, max_length=63)", "2^64-1 words"),
    ("DFA.of_length({'a','b'}, min_length=63, max_length=63)", "exactly 2^63 words: the first len() that does not fit"),
    ("DFA.of_length(set('abcdefgh'), min_length=0, max_length=21)", "(8^22-1)/7 words: the witness of C13_len_full_fails"),
    ("DFA.of_length({'a','b'}, min_length=0, max_length=70)", "G5: cardinality 2^71-1"),
    ("DFA.of_length({'a','b','c'}, min_length=5, max_length=45)", "G5: three symbols"),
    ("DFA.of_length({'a'}, min_length=0, max_length=100)", "many states, 101 words"),
]


def eval_dfa(expr: str) -> DFA:
    return eval(expr, {"DFA": DFA, "frozenset": frozenset})


# ------------------------------------------------------------------ X2: cached queries on a temporary
TEMP_EXPRS = [
    "DFA.universal_language({'a'})",
    "DFA.of_length({'a'}, min_length=1, max_length=3)",
    "(DFA.of_length({'a'}, min_length=1, max_length=3) | DFA.of_length({'a'}, min_length=2, max_length=5))",
    "DFA.from_finite_language({'a','b'}, {'ab','b',''}).minify()",
    "DFA.empty_language({'a','b'}).copy()",
]
TEMP_METHODS = ["cardinality", "minimum_word_length", "maximum_word_length", "isfinite"]


def on_temporary(expr: str, meth: str):
    """Evaluate `<expr>.<meth>()` exactly as a user would write it: the receiver is an unbound
    temporary."""
    from harness.common import call
    return call(lambda: eval(f"({expr}).{meth}()", {"DFA": DFA, "frozenset": frozenset}))


def on_bound(expr: str, meth: str):
    from harness.common import call
    obj = eval_dfa(expr)
    return call(lambda: getattr(obj, meth)())
