"""Shared helpers of the C08 / C09 / C16 ops modules: the NFAX wire format of drv_nfa_ops,
raw-table textbook constructions, an independent subset-construction equivalence check,
bounded brute-force language evaluation through the real reader, generator families.

Nothing here calls the library operations under test (union, …, __eq__, edit_distance);
the only library calls are the reader primitives tied to the definition by C01.
"""
from __future__ import annotations

import itertools
import random
from typing import Any, Dict, FrozenSet, Iterable, List, Optional, Sequence, Set, Tuple

from automata.fa.nfa import NFA

from harness import gen
from harness.common import InfraError, Names, Toks, toks


# ------------------------------------------------------------------ wire format
def nat_of(name: Any) -> Optional[int]:
    """The natural number a Python state name is equal to (`1 == True == 1.0`), if any."""
    import numbers
    if isinstance(name, numbers.Number):      # int, bool, float, Fraction, Decimal, complex: equal numbers are ONE key
        try:
            x = name
            if isinstance(x, complex):
                if x.imag != 0:
                    return None
                x = x.real
            k = int(x)
            if x == k and k >= 0:
                return k
        except (OverflowError, ValueError, TypeError, ArithmeticError):
            return None
    return None


class StateEnc:
    """Python state names of one operand ↔ protocol integers.  Names equal to a natural
    number k are sent as k (so that `_add_new_state` can be replayed); every other name
    gets a negative integer.  `order` is the live iteration order of the state set."""

    def __init__(self, states: Iterable[Any], extra: Iterable[Any] = ()):
        self.order = list(states)
        self.code: Dict[Any, int] = {}
        self.names: Dict[int, Any] = {}
        self._neg = 0
        for s in self.order:
            self(s)
        for s in extra:
            self(s)

    def __call__(self, name: Any) -> int:
        if name in self.code:
            return self.code[name]
        k = nat_of(name)
        if k is None:
            self._neg += 1
            k = -self._neg
        self.code[name] = k
        self.names[k] = name
        return k


def enc_nfax(n: NFA, sy: Names, st: Optional[StateEnc] = None) -> Tuple[str, StateEnc]:
    st = st or StateEnc(n.states)
    rows = []
    for k, row in n.transitions.items():
        ent = []
        for a, ts in row.items():
            ent.append(toks(-1 if a == "" else sy(a), len(ts), [st(t) for t in ts]))
        rows.append(toks(st(k), len(row), ent))
    order = [sy(a) for a in n.input_symbols]
    s = toks(len(st.order), [st(q) for q in st.order], len(order), order, st(n.initial_state),
             len(n.final_states), [st(q) for q in n.final_states], len(rows), rows)
    return s, st


def parse_nfag(t: Toks) -> dict:
    """`<arity> <NFA over arity-tuples>` → plain dict (states are ints or int tuples)."""
    ar = t.int()

    def state():
        if ar == 1:
            return t.int()
        return tuple(t.int() for _ in range(ar))

    states = t.many(state)
    syms = t.ints()
    init = state()
    finals = t.many(state)
    trans = {}
    for _ in range(t.int()):
        k = state()
        row = {}
        for _ in range(t.int()):
            a = t.int()
            row[a] = set(t.many(state))
        trans[k] = row
    return dict(states=set(states), syms=set(syms), init=init, finals=set(finals), trans=trans)


def parse_res_nfag(line: str):
    t = Toks(line)
    k = t.next()
    if k == "err":
        return ("err", t.next())
    if k != "ok":
        raise InfraError(f"protocol: expected ok/err, got {k}")
    p = parse_nfag(t)
    if not t.at_end():
        raise InfraError("protocol: trailing tokens in NFA answer")
    return ("ok", p)


def plain(n: NFA, sy: Names, fstate) -> dict:
    """Live NFA → plain dict over protocol values (`fstate` maps a state name)."""
    return dict(states={fstate(q) for q in n.states}, syms={sy(a) for a in n.input_symbols},
                init=fstate(n.initial_state), finals={fstate(q) for q in n.final_states},
                trans={fstate(k): {(-1 if a == "" else sy(a)): {fstate(t) for t in ts} for a, ts in row.items()}
                       for k, row in n.transitions.items()})


# ------------------------------------------------------------- raw textbook NFAs
class Raw:
    """A textbook ε-NFA: set of start states, set of final states, edges {(q, a): set}, a = "" for ε."""

    def __init__(self, starts, finals, edges, alphabet):
        self.starts = set(starts)
        self.finals = set(finals)
        self.edges: Dict[Tuple[Any, str], Set[Any]] = edges
        self.alphabet = set(alphabet)

    def closure(self, S) -> FrozenSet[Any]:
        S = set(S)
        work = list(S)
        while work:
            q = work.pop()
            for t in self.edges.get((q, ""), ()):
                if t not in S:
                    S.add(t)
                    work.append(t)
        return frozenset(S)

    def step(self, S, a) -> FrozenSet[Any]:
        nxt = set()
        for q in S:
            nxt |= self.edges.get((q, a), set())
        return self.closure(nxt)

    def start(self) -> FrozenSet[Any]:
        return self.closure(self.starts)

    def is_final(self, S) -> bool:
        return any(q in self.finals for q in S)

    def accepts(self, w: str) -> bool:
        S = self.start()
        for c in w:
            S = self.step(S, c)
        return self.is_final(S)


def raw_of(n: NFA, tag: Any = None) -> Raw:
    """Read the definition of a live NFA (no library algorithm involved)."""
    def T(q):
        return q if tag is None else (tag, q)
    edges: Dict[Tuple[Any, str], Set[Any]] = {}
    for k, row in n.transitions.items():
        for a, ts in row.items():
            if ts:
                edges.setdefault((T(k), a), set()).update(T(t) for t in ts)
    return Raw({T(n.initial_state)}, {T(q) for q in n.final_states}, edges, n.input_symbols)


def _merge(e1, e2):
    out = {k: set(v) for k, v in e1.items()}
    for k, v in e2.items():
        out.setdefault(k, set()).update(v)
    return out


def tb_union(a: Raw, b: Raw) -> Raw:
    return Raw(a.starts | b.starts, a.finals | b.finals, _merge(a.edges, b.edges), a.alphabet | b.alphabet)


def tb_concat(a: Raw, b: Raw) -> Raw:
    e = _merge(a.edges, b.edges)
    for f in a.finals:
        e.setdefault((f, ""), set()).update(b.starts)
    return Raw(a.starts, b.finals, e, a.alphabet | b.alphabet)


def tb_star(a: Raw) -> Raw:
    e = _merge(a.edges, {})
    new = ("star-start",)
    e[(new, "")] = set(a.starts)
    for f in a.finals:
        e.setdefault((f, ""), set()).add(new)
    return Raw({new}, {new}, e, a.alphabet)


def tb_option(a: Raw) -> Raw:
    new = ("opt-start",)
    return Raw(a.starts | {new}, a.finals | {new}, _merge(a.edges, {}), a.alphabet)


def tb_reverse(a: Raw) -> Raw:
    e: Dict[Tuple[Any, str], Set[Any]] = {}
    for (q, s), ts in a.edges.items():
        for t in ts:
            e.setdefault((t, s), set()).add(q)
    return Raw(a.finals, a.starts, e, a.alphabet)


def _pairs_edges(a: Raw, b: Raw, sync: bool):
    """Product edges: sync=True → common symbols move both sides, ε moves one side;
    sync=False (shuffle) → every move (ε or symbol) moves exactly one side."""
    qa = {q for (q, _) in a.edges} | {t for ts in a.edges.values() for t in ts} | a.starts | a.finals
    qb = {q for (q, _) in b.edges} | {t for ts in b.edges.values() for t in ts} | b.starts | b.finals
    e: Dict[Tuple[Any, str], Set[Any]] = {}
    for (p, s), ts in a.edges.items():
        if s == "" or not sync:
            for q in qb:
                e.setdefault(((p, q), s), set()).update((t, q) for t in ts)
        else:
            for q in qb:
                us = b.edges.get((q, s))
                if us:
                    e.setdefault(((p, q), s), set()).update((t, u) for t in ts for u in us)
    for (q, s), us in b.edges.items():
        if s == "" or not sync:
            for p in qa:
                e.setdefault(((p, q), s), set()).update((p, u) for u in us)
    return e


def tb_inter(a: Raw, b: Raw) -> Raw:
    return Raw({(p, q) for p in a.starts for q in b.starts}, {(p, q) for p in a.finals for q in b.finals},
               _pairs_edges(a, b, True), a.alphabet | b.alphabet)


def tb_shuffle(a: Raw, b: Raw) -> Raw:
    return Raw({(p, q) for p in a.starts for q in b.starts}, {(p, q) for p in a.finals for q in b.finals},
               _pairs_edges(a, b, False), a.alphabet | b.alphabet)


def _silent_product_reach(a: Raw, b: Raw, srcs) -> Set[Any]:
    """Pairs reachable from `srcs` when both sides read the same (unobserved) word."""
    seen = set(srcs)
    work = list(seen)
    while work:
        p, q = work.pop()
        succ = set()
        for t in a.edges.get((p, ""), ()):
            succ.add((t, q))
        for u in b.edges.get((q, ""), ()):
            succ.add((p, u))
        for s in a.alphabet | b.alphabet:
            ts = a.edges.get((p, s))
            us = b.edges.get((q, s))
            if ts and us:
                succ.update((t, u) for t in ts for u in us)
        for x in succ:
            if x not in seen:
                seen.add(x)
                work.append(x)
    return seen


def _all_states(a: Raw) -> Set[Any]:
    return {q for (q, _) in a.edges} | {t for ts in a.edges.values() for t in ts} | a.starts | a.finals


def tb_right_quotient(a: Raw, b: Raw) -> Raw:
    """{w | ∃x∈L(b): wx ∈ L(a)}: same automaton as a, final = states from which some x∈L(b) leads to a final state."""
    good = set()
    for p in _all_states(a):
        reach = _silent_product_reach(a, b, {(p, q) for q in b.starts})
        if any(t in a.finals and u in b.finals for (t, u) in reach):
            good.add(p)
    return Raw(a.starts, good, _merge(a.edges, {}), a.alphabet | b.alphabet)


def tb_left_quotient(a: Raw, b: Raw) -> Raw:
    """{w | ∃x∈L(b): xw ∈ L(a)}: same automaton as a, started wherever some x∈L(b) can lead."""
    reach = _silent_product_reach(a, b, {(p, q) for p in a.starts for q in b.starts})
    starts = {p for (p, q) in reach if q in b.finals}
    return Raw(starts, a.finals, _merge(a.edges, {}), a.alphabet | b.alphabet)


TEXTBOOK2 = {"union": tb_union, "or": tb_union, "concatenate": tb_concat, "add": tb_concat,
             "intersection": tb_inter, "and": tb_inter, "shuffle_product": tb_shuffle,
             "right_quotient": tb_right_quotient, "left_quotient": tb_left_quotient}
TEXTBOOK1 = {"kleene_star": tb_star, "option": tb_option, "reverse": tb_reverse}


def distinguish(x: Raw, y: Raw, alphabet: Iterable[str], budget: int = 4000):
    """Subset construction on both sides + BFS over pairs of subsets.  Returns
    ("equal", None) | ("differ", shortest word) | ("budget", None)."""
    alphabet = sorted(alphabet)
    s0 = (x.start(), y.start())
    seen = {s0: ""}
    queue = [s0]
    i = 0
    while i < len(queue):
        S, T = queue[i]
        i += 1
        w = seen[(S, T)]
        if x.is_final(S) != y.is_final(T):
            return ("differ", w)
        for a in alphabet:
            nxt = (x.step(S, a), y.step(T, a))
            if nxt not in seen:
                if len(seen) >= budget:
                    return ("budget", None)
                seen[nxt] = w + a
                queue.append(nxt)
    return ("equal", None)


# -------------------------------------------------- bounded languages via the real reader
def words_upto(alphabet: Sequence[str], max_len: int):
    return gen.words_upto(sorted(alphabet), max_len)


def lang_real(n: NFA, alphabet: Sequence[str], max_len: int) -> Set[str]:
    """Words of length ≤ max_len over `alphabet` accepted by the real NFA, via the real
    reader primitives (`_get_lambda_closures`, `_get_next_current_states`; C01)."""
    out = set()
    alphabet = sorted(alphabet)
    start = n._get_lambda_closures()[n.initial_state]

    def go(S, w):
        if not S.isdisjoint(n.final_states):
            out.add(w)
        if len(w) < max_len:
            for a in alphabet:
                go(n._get_next_current_states(S, a), w + a)
    go(start, "")
    return out


def bound_for(alphabet: Sequence[str], cap: int = 400) -> int:
    k = max(1, len(alphabet))
    L, total = 0, 1
    while True:
        nxt = total + k ** (L + 1)
        if nxt > cap or L >= 6:
            return max(L, 2) if k <= 3 else max(L, 1)
        total = nxt
        L += 1


def in_shuffle(w: str, LA: Set[str], LB: Set[str]) -> bool:
    n = len(w)
    for mask in range(1 << n):
        u = "".join(w[i] for i in range(n) if (mask >> i) & 1)
        if u in LA:
            v = "".join(w[i] for i in range(n) if not (mask >> i) & 1)
            if v in LB:
                return True
    return False


def in_star(w: str, LA: Set[str]) -> bool:
    n = len(w)
    ok = [False] * (n + 1)
    ok[0] = True
    for j in range(1, n + 1):
        ok[j] = any(ok[i] and w[i:j] in LA for i in range(j))
    return ok[n]


def textbook_member(op: str, w: str, LA: Set[str], LB: Optional[Set[str]]) -> Optional[bool]:
    """Membership of w (|w| ≤ bound) in the textbook operation on the bounded operand
    languages; None when the bounded languages do not determine it (quotients)."""
    if op in ("union", "or"):
        return w in LA or w in LB
    if op in ("concatenate", "add"):
        return any(w[:i] in LA and w[i:] in LB for i in range(len(w) + 1))
    if op == "kleene_star":
        return in_star(w, LA)
    if op == "option":
        return w == "" or w in LA
    if op == "reverse":
        return w[::-1] in LA
    if op in ("intersection", "and"):
        return w in LA and w in LB
    if op == "shuffle_product":
        return in_shuffle(w, LA, LB)
    return None


# ---------------------------------------------------------------- generator families
def degenerate_nfa(rng: random.Random, alphabet: Sequence[str], names: Optional[List[Any]] = None) -> Tuple[str, NFA]:
    """One of the named degenerate operand families of DESIGN.md §7 C08."""
    sy = list(alphabet)
    kind = rng.choice(["empty_nonfinal_single", "empty_single_norow", "universal", "eps_only",
                       "only_empty_word", "dead_init_big", "empty_targets", "no_final"])
    nm = names or gen.name_pool(rng, 4)
    q0 = nm[0]
    if kind == "empty_nonfinal_single":
        return kind, NFA(states={q0}, input_symbols=set(sy), transitions={q0: {}}, initial_state=q0, final_states=set())
    if kind == "empty_single_norow":
        return kind, NFA(states={q0}, input_symbols=set(sy), transitions={}, initial_state=q0, final_states=set())
    if kind == "universal":
        return kind, NFA(states={q0}, input_symbols=set(sy), transitions={q0: {a: {q0} for a in sy}},
                         initial_state=q0, final_states={q0})
    if kind == "only_empty_word":
        return kind, NFA(states={q0}, input_symbols=set(sy), transitions={q0: {}}, initial_state=q0, final_states={q0})
    if kind == "eps_only":
        n = min(len(nm), rng.randint(2, 4))
        st = nm[:n]
        tr = {st[i]: {"": {st[(i + 1) % n]} | ({rng.choice(st)} if rng.random() < 0.5 else set())} for i in range(n)}
        return kind, NFA(states=set(st), input_symbols=set(sy), transitions=tr, initial_state=st[0],
                         final_states={q for q in st if rng.random() < 0.4})
    if kind == "dead_init_big":
        n = min(len(nm), rng.randint(2, 4))
        st = nm[:n]
        tr = {q: {a: {rng.choice(st[1:])} for a in sy} for q in st[1:]}
        tr[st[0]] = {}
        return kind, NFA(states=set(st), input_symbols=set(sy), transitions=tr, initial_state=st[0],
                         final_states={q for q in st[1:] if rng.random() < 0.6})
    if kind == "empty_targets":
        n = min(len(nm), rng.randint(1, 3))
        st = nm[:n]
        tr = {q: {a: (set() if rng.random() < 0.6 else {rng.choice(st)}) for a in sy + [""] if rng.random() < 0.8}
              for q in st}
        return kind, NFA(states=set(st), input_symbols=set(sy), transitions=tr, initial_state=st[0],
                         final_states={q for q in st if rng.random() < 0.5})
    # no_final
    n = min(len(nm), rng.randint(2, 4))
    st = nm[:n]
    tr = {q: {a: {rng.choice(st)} for a in sy} for q in st}
    return "no_final", NFA(states=set(st), input_symbols=set(sy), transitions=tr, initial_state=st[0], final_states=set())


def with_junk_rows(rng: random.Random, n: NFA, extra_keys: Iterable[Any] = ()) -> NFA:
    """Add transition rows keyed by names that are not states (they pass `validate`):
    the name `_add_new_state` will pick, indices `_get_state_maps` will use, others."""
    fresh = 0
    while fresh in n.states:
        fresh += 1
    cands = [fresh, 0, 1, len(n.states), len(n.states) + 1, -1, "junk", (0, 0), (fresh, fresh)] + list(extra_keys)
    rng.shuffle(cands)
    tr = {k: dict(row) for k, row in n.transitions.items()}
    added = 0
    states = list(n.states)
    sy = sorted(n.input_symbols)
    for k in cands:
        if k in n.states or k in tr:
            continue
        row = {}
        for a in sy + [""]:
            if rng.random() < 0.6:
                row[a] = {rng.choice(states) for _ in range(rng.randint(0, 2))}
        tr[k] = row
        added += 1
        if added >= rng.randint(1, 2):
            break
    items = list(tr.items())
    rng.shuffle(items)
    return NFA(states=n.states, input_symbols=n.input_symbols, transitions=dict(items),
               initial_state=n.initial_state, final_states=n.final_states)


def has_junk_rows(n: NFA) -> bool:
    return any(k not in n.states for k in n.transitions)
