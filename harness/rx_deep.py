"""C10 — DEEP / LARGE regular expressions: strings of 1000–9000 characters, parentheses nested up to 2000 deep,
repetition bounds in the thousands, operator chains of hundreds to thousands of operands — described by a small
JSON-able *spec* from which (a) the expression text is built, (b) its language is known in CLOSED FORM (a predicate
on words written from the construction parameters: lengths, counts, a fixed word), (c) for small parameters the
AST of the text in the format of harness/rx_common.py, so that the closed form can be compared with the module's
set-semantics oracle on a small twin of the same spec.

Nothing here is sent to the Lean model's driver (its executables would need minutes on these sizes), and nothing
shares code with the library: the judge of a large instance is the closed form alone.

spec = {kind, n, sigma: "default" | "explicit" | "larger", …}
    cat        n literals 'abcabc…' (style plain / blank / tab: blanks between the literals)            {that word}
    alt        n DISTINCT literals (code points U+4E00…) joined by '|'                                  the n one-symbol words
    nest       '(' * n + 'ab' + ')' * n                                                                 {ab}
    rnest      a(b(a(b(…c…)))) nested n deep — the postfix evaluation stack gets n + 1 operands          {abab…c}
    chain      'a' followed by n postfix operators, cycling through spec["ops"]                         {a^k : lo ≤ k ≤ hi}, lo ∈ {0,1}, hi ∈ {1,∞}
    rep        unit{lo,hi} with bounds in the thousands (either bound may be omitted; pad: blanks and a
               leading zero inside the braces), or small bounds on a unit of hundreds of literals                                                        {unit^k : lo ≤ k ≤ hi}
    shuf_eps   a{0,m} ^ () ^ () ^ … (n empty groups)                                                    {a^k : k ≤ m}
    shuf2      a{n,n} ^ b{m,m}                                                                          words with n a's and m b's
    shuf_lits  n distinct literals joined by '^' (2^n states)                                           the permutations
    and_chain  a & a & … (n operands)                                                                   {a}
    and_window a{0,n} & a{m,}                                                                           {a^k : m ≤ k ≤ n}
    wild       '.' * n over the explicit alphabet {a,b} or {a,b,x}                                      all words of length n over it
    cat_alts   '(a|b)' * n                                                                              all words of length n over {a,b}
    pad        n blanks, 'a', 2n blanks/tabs, 'b', n blanks                                             {ab}

Words are written run-length encoded ([[unit, repetitions], …]) so that replays stay small.
"""
from __future__ import annotations

from typing import Callable, List, Optional

RESERVED = frozenset("*|()? \t&+.^{}")      # own copy of the documented reserved characters
BASE = 0x4E00
KINDS = ("cat", "alt", "nest", "rnest", "chain", "rep", "shuf_eps", "shuf2", "shuf_lits", "and_chain", "and_window",
         "wild", "cat_alts", "pad")
OPS = {"*": (0, None), "+": (1, None), "?": (0, 1), "{1,1}": (1, 1), "{0,1}": (0, 1), "{,1}": (None, 1),
       "{1,}": (1, None), "{0,}": (0, None)}
REAL_READER_MAX_ALT = 1300      # the library's lambda closures are computed per state: quadratic on a chain of n ε-moves


def lit(i: int) -> str:
    return chr(BASE + i)


def cyc(pat: str, n: int, phase: int = 0) -> list:
    """pat repeated cyclically, n symbols, starting at pat[phase], run-length encoded."""
    if n <= 0:
        return []
    k = phase % len(pat)
    p = pat[k:] + pat[:k]
    out = []
    if n // len(p):
        out.append([p, n // len(p)])
    if n % len(p):
        out.append([p[: n % len(p)], 1])
    return out


def word(rle: list) -> str:
    return "".join(u * r for u, r in rle)


def short(rle: list) -> str:
    return "+".join(repr(u) if r == 1 else f"{u!r}*{r}" for u, r in rle if r > 0 and u) or "''"


def lfold(op: str, xs: list) -> tuple:
    acc = xs[0]
    for x in xs[1:]:
        acc = (op, acc, x)
    return acc


def rfold(op: str, xs: list) -> tuple:
    acc = xs[-1]
    for x in reversed(xs[:-1]):
        acc = (op, x, acc)
    return acc


def unit_ast(u: str) -> tuple:
    return lfold("cat", [("lit", c) for c in u])


class DeepRx:
    """One instance: .re (text), .alpha (the symbols its language uses), .member (closed form), .probes (words
    around the thresholds), .ast() (only sensible for small parameters), .reader ("real" | "table")."""

    def __init__(self, spec: dict):
        self.spec = spec
        self.kind = spec["kind"]
        self.reader = "real"
        self.force_explicit = False
        getattr(self, "_k_" + self.kind)(spec)
        extra = self.extra_symbol()
        if extra is not None and self.probes:
            self.probes = self.probes + [[[extra, 1]], self.probes[0] + [[extra, 1]]]

    # ------------------------------------------------------------------ alphabets
    def extra_symbol(self) -> Optional[str]:
        if self.spec.get("sigma") != "larger":
            return None
        return next(c for c in "xyz" if c not in self.alpha)

    def sigma(self) -> Optional[frozenset]:
        """The input_symbols argument of from_regex."""
        mode = self.spec.get("sigma", "default")
        if mode == "default" and not self.force_explicit:
            return None
        extra = self.extra_symbol()
        return frozenset(self.alpha) | ({extra} if extra else set())

    def expected_symbols(self) -> frozenset:
        s = self.sigma()
        return s if s is not None else frozenset(self.re) - RESERVED

    def call_text(self) -> str:
        s = self.sigma()
        if s is None:
            return f"NFA.from_regex({self.desc})"
        shown = sorted(s) if len(s) <= 6 else f"<{len(s)} symbols>"
        return f"NFA.from_regex({self.desc}, input_symbols={shown})"

    # ------------------------------------------------------------------ kinds
    def _k_cat(self, s):
        n, pat, style = s["n"], "abc", s.get("style", "plain")
        w = word(cyc(pat, n))
        sep = {"plain": "", "blank": " ", "tab": "\t "}[style]
        self.re = sep.join(w)
        base = f"''.join('abc'[i % 3] for i in range({n}))"
        self.desc = base if style == "plain" else f"{sep!r}.join({base})"
        self.about = f"a concatenation of {n} literals"
        self.alpha = set(w)
        self.member = lambda x: x == w
        mid = n // 2
        self.probes = [cyc(pat, n), cyc(pat, n - 1), cyc(pat, n + 1),
                       cyc(pat, mid) + [[pat[(mid + 1) % 3], 1]] + cyc(pat, n - mid - 1, mid + 1), [], cyc(pat, n - 1, 1)]
        self.ast = lambda: unit_ast(w)

    def _k_alt(self, s):
        n, style = s["n"], s.get("style", "plain")
        lits = [lit(i) for i in range(n)]
        sep = "|" if style == "plain" else " | "
        self.re = sep.join(lits)
        self.desc = f"{sep!r}.join(chr(0x4E00 + i) for i in range({n}))"
        self.about = f"an alternation of {n} distinct literals"
        self.alpha = set(lits)
        self.member = lambda x: len(x) == 1 and 0 <= ord(x) - BASE < n
        self.probes = [[[lit(0), 1]], [[lit(n - 1), 1]], [[lit(n // 2), 1]], [[lit(n), 1]], [[lit(0), 1], [lit(1), 1]], [],
                       [[lit(n - 1), 2]]]
        self.ast = lambda: lfold("alt", [("lit", c) for c in lits])
        if n > REAL_READER_MAX_ALT:
            self.reader = "table"

    def _k_nest(self, s):
        n = s["n"]
        self.re = "(" * n + "ab" + ")" * n
        self.desc = f"'(' * {n} + 'ab' + ')' * {n}"
        self.about = f"parentheses nested {n} deep"
        self.alpha = set("ab")
        self.member = lambda x: x == "ab"
        self.probes = [[["ab", 1]], [["a", 1]], [["ab", 2]], [], [["ba", 1]]]
        self.ast = lambda: unit_ast("ab")

    def _k_rnest(self, s):
        n = s["n"]
        body = word(cyc("ab", n))
        w = body + "c"
        self.re = "".join(ch + "(" for ch in body) + "c" + ")" * n
        self.desc = f"''.join('ab'[i % 2] + '(' for i in range({n})) + 'c' + ')' * {n}"
        self.about = f"right-nested groups a(b(a(…c…))) {n} deep"
        self.alpha = set(w)
        self.member = lambda x: x == w
        self.probes = [cyc("ab", n) + [["c", 1]], cyc("ab", n), cyc("ab", n) + [["c", 2]], cyc("ab", n - 1) + [["c", 1]], [],
                       cyc("ab", n, 1) + [["c", 1]]]
        self.ast = lambda: rfold("cat", [("lit", c) for c in w])

    def _k_chain(self, s):
        n, ops = s["n"], s["ops"]
        seq = [ops[i % len(ops)] for i in range(n)]
        self.re = "a" + "".join(seq)
        self.desc = (f"'a' + {''.join(ops)!r} * {n // len(ops)}" + (f" + {''.join(seq[n - n % len(ops):])!r}" if n % len(ops) else ""))
        self.about = f"a chain of {n} postfix operators"
        self.alpha = {"a"}
        lo, hi = 1, 1
        for o in seq:
            p, q = OPS[o]
            lo = lo * (p or 0)
            hi = None if (hi is None or q is None) else hi * q
        self.lo, self.hi = lo, hi
        self.member = lambda x: set(x) <= {"a"} and lo <= len(x) and (hi is None or len(x) <= hi)
        self.probes = [[], [["a", 1]], [["a", 2]], [["a", 7]], [["a", 1], ["b", 1]]]

        def ast():
            e = ("lit", "a")
            for o in seq:
                e = {"*": ("star", e), "+": ("plus", e), "?": ("opt", e)}.get(o) or ("rep", e, OPS[o][0], OPS[o][1])
            return e
        self.ast = ast

    def _k_rep(self, s):
        u, lo, hi, pad = s["unit"], s["lo"], s["hi"], s.get("pad", False)
        if not isinstance(u, str):          # [pattern, length]: a long unit, e.g. ["abc", 300] — a fragment of 600 states is copied
            u = word(cyc(u[0], u[1]))
        L, H = (lo or 0), hi

        def txt(b):
            return "" if b is None else (f" 0{b}\t" if pad else str(b))
        q = "{" + txt(lo) + "," + txt(hi) + "}"
        self.re = (u if len(u) == 1 else "(" + u + ")") + q
        self.desc = repr(self.re) if len(u) <= 4 else f"'(' + ''.join({s['unit'][0]!r}[i % {len(s['unit'][0])}] for i in range({len(u)})) + '){q}'"
        self.about = f"repetition bounds {q}" + ("" if len(u) <= 4 else f" on a unit of {len(u)} literals")
        self.alpha = set(u)

        def member(x):
            k, r = divmod(len(x), len(u))
            return r == 0 and x == u * k and L <= k and (H is None or k <= H)
        self.member = member
        ks = [L - 1, L, L + 1] + ([H - 1, H, H + 1, 2 * H + 1] if H is not None else [L + 700, 2 * L + 1])
        self.probes = [[[u, k]] for k in dict.fromkeys(ks) if k >= 0] + [[[u, L], [u[0], 1]], [], [[u[-1], L]],
                                                                         [[u, L], [u[:-1], 1]], [[u[1:], 1], [u, L]]]
        self.ast = lambda: ("rep", unit_ast(u), lo, hi)

    def _k_shuf_eps(self, s):
        n, m = s["n"], s["m"]
        self.re = "a{0,%d}" % m + "^()" * n
        self.desc = f"'a{{0,{m}}}' + '^()' * {n}"
        self.about = f"a shuffle chain of {n + 1} operands"
        self.alpha = {"a"}
        self.member = lambda x: set(x) <= {"a"} and len(x) <= m
        self.probes = [[], [["a", m]], [["a", m + 1]], [["a", m - 1]], [["a", 2 * m + 1]]]
        self.ast = lambda: lfold("shuf", [("rep", ("lit", "a"), 0, m)] + [("eps",)] * n)

    def _k_shuf2(self, s):
        p, q = s["n"], s["m"]
        self.re = "a{%d,%d}^b{%d,%d}" % (p, p, q, q)
        self.desc = repr(self.re)
        self.about = f"the shuffle of a^{p} and b^{q}"
        self.alpha = set("ab")
        self.member = lambda x: set(x) <= {"a", "b"} and x.count("a") == p and x.count("b") == q
        h = p // 2
        self.probes = [[["a", p], ["b", q]], [["b", q], ["a", p]], [["a", h], ["b", q], ["a", p - h]],
                       [["ab", min(p, q)], ["a", p - min(p, q)], ["b", q - min(p, q)]],
                       [["a", p - 1], ["b", q]], [["a", p], ["b", q + 1]], [["a", p], ["b", q - 1]], [["a", p + 1], ["b", q]], [],
                       [["b", q - 1], ["a", p], ["b", 1]]]
        self.ast = lambda: ("shuf", ("rep", ("lit", "a"), p, p), ("rep", ("lit", "b"), q, q))

    def _k_shuf_lits(self, s):
        n = s["n"]
        ls = "abcdefghijkl"[:n]
        self.re = "^".join(ls)
        self.desc = repr(self.re)
        self.about = f"a shuffle chain of {n} distinct literals"
        self.alpha = set(ls)
        self.member = lambda x: sorted(x) == sorted(ls)
        self.probes = [[[ls, 1]], [[ls[::-1], 1]], [[ls[n // 2:] + ls[: n // 2], 1]], [[ls[:-1], 1]], [[ls + ls[0], 1]],
                       [[ls[:-1] + ls[0], 1]], []]
        self.ast = lambda: lfold("shuf", [("lit", c) for c in ls])

    def _k_and_chain(self, s):
        n = s["n"]
        self.re = "&".join(["a"] * n)
        self.desc = f"'&'.join(['a'] * {n})"
        self.about = f"an intersection chain of {n} operands"
        self.alpha = {"a"}
        self.member = lambda x: x == "a"
        self.probes = [[["a", 1]], [], [["a", 2]]]
        self.ast = lambda: lfold("and", [("lit", "a")] * n)

    def _k_and_window(self, s):
        n, m = s["n"], s["m"]
        self.re = "a{0,%d}&a{%d,}" % (n, m)
        self.desc = repr(self.re)
        self.about = f"the intersection of a{{0,{n}}} and a{{{m},}} (a product of {n}+ pairs on one path)"
        self.alpha = {"a"}
        self.member = lambda x: set(x) <= {"a"} and m <= len(x) <= n
        self.probes = [[["a", k]] for k in dict.fromkeys([m - 1, m, (m + n) // 2, n, n + 1, 2 * n]) if k >= 0] + [[]]
        self.ast = lambda: ("and", ("rep", ("lit", "a"), 0, n), ("rep", ("lit", "a"), m, None))

    def _all_words(self, n):
        self.alpha = set("ab")
        self.member = lambda x: len(x) == n and set(x) <= {"a", "b"}
        h = n // 2
        self.probes = [cyc("ab", n), [["a", n]], cyc("abb", n), cyc("ab", n - 1), cyc("ba", n + 1), [],
                       cyc("ab", h) + [["c", 1]] + cyc("ab", n - h - 1), [["b", n]]]

    def _k_wild(self, s):
        n = s["n"]
        self.re = "." * n
        self.desc = f"'.' * {n}"
        self.about = f"a concatenation of {n} wildcards"
        self._all_words(n)
        self.force_explicit = True          # over the default alphabet (no literal in the text) '.' denotes nothing
        # '.' stands for every symbol of the GIVEN alphabet — also for the extra symbol of a larger one
        self.member = lambda x: len(x) == n and set(x) <= self.expected_symbols()
        self.probes.append(cyc("ab", n // 2) + [["x", 1]] + cyc("ba", n - n // 2 - 1))
        self.ast = lambda: lfold("cat", [("any",)] * n)

    def _k_cat_alts(self, s):
        n = s["n"]
        self.re = "(a|b)" * n
        self.desc = f"'(a|b)' * {n}"
        self.about = f"a concatenation of {n} groups"
        self._all_words(n)
        self.ast = lambda: lfold("cat", [("alt", ("lit", "a"), ("lit", "b"))] * n)

    def _k_pad(self, s):
        n = s["n"]
        self.re = " " * n + "a" + "\t " * n + "b" + " " * n
        self.desc = f"' ' * {n} + 'a' + '\\t ' * {n} + 'b' + ' ' * {n}"
        self.about = f"{4 * n} blanks around two literals"
        self.alpha = set("ab")
        self.member = lambda x: x == "ab"
        self.probes = [[["ab", 1]], [["a", 1]], [], [["ab", 2]], [["b", 1]]]
        self.ast = lambda: unit_ast("ab")


# ---------------------------------------------------------------------- small twins
def twin_spec(spec: dict, rng) -> dict:
    """The same spec with parameters small enough for the brute-force / derivative oracles and the model."""
    t = dict(spec)
    k = spec["kind"]
    if k == "rep":
        lo, hi = spec["lo"], spec["hi"]
        small = rng.randint(2, 3)
        if lo is not None and hi is not None and lo == hi:
            t["lo"] = t["hi"] = small
        else:
            t["lo"] = None if lo is None else (0 if lo == 0 else small - 1)
            t["hi"] = None if hi is None else small + 1
        t["n"] = small
        if not isinstance(spec["unit"], str):
            t["unit"] = [spec["unit"][0], 2]
    elif k == "shuf2":
        t["n"], t["m"] = rng.randint(1, 2), rng.randint(1, 2)
    elif k == "shuf_eps":
        t["n"], t["m"] = rng.randint(2, 3), 2
    elif k == "and_window":
        t["n"], t["m"] = rng.randint(3, 4), rng.randint(1, 2)
    elif k == "shuf_lits":
        t["n"] = rng.randint(2, 3)
    elif k == "alt":
        t["n"] = rng.randint(2, 3)
    elif k in ("wild", "cat_alts"):
        t["n"] = rng.randint(2, 3)
    else:
        t["n"] = rng.randint(2, 4)
    return t


# ---------------------------------------------------------------------- judging one instance through the real library
def table_accepts(nfa, w: str) -> bool:
    """Textbook ε-NFA run over the TABLE of the compiled NFA (transitions / initial_state / final_states), with its
    own on-the-fly ε-closure — for the instances on which the library's reader needs quadratic time."""
    tr = nfa.transitions

    def close(start):
        seen, stack = set(start), list(start)
        while stack:
            q = stack.pop()
            for t in tr.get(q, {}).get("", ()):
                if t not in seen:
                    seen.add(t)
                    stack.append(t)
        return seen
    cur = close({nfa.initial_state})
    for c in w:
        nxt = set()
        for q in cur:
            nxt.update(tr.get(q, {}).get(c, ()))
        cur = close(nxt)
        if not cur:
            return False
    return not cur.isdisjoint(nfa.final_states)


def structure_problem(nfa, expected_symbols) -> Optional[str]:
    """Independent reading of "a valid NFA over the given alphabet"."""
    states = set(nfa.states)
    if set(nfa.transitions) - states:
        return "a transition row belongs to no state"
    if nfa.initial_state not in states:
        return "the initial state is not a state"
    if not set(nfa.final_states) <= states:
        return "a final state is not a state"
    if frozenset(nfa.input_symbols) != frozenset(expected_symbols):
        return (f"input_symbols has {len(nfa.input_symbols)} symbols, expected {len(expected_symbols)} "
                f"(difference {sorted(frozenset(nfa.input_symbols) ^ frozenset(expected_symbols))[:5]})")
    for q, row in nfa.transitions.items():
        for a, ts in row.items():
            if a != "" and a not in nfa.input_symbols:
                return f"a transition is labelled {a!r}, not an input symbol"
            if not set(ts) <= states:
                return "a transition leads to no state"
    return None


def _raised(r) -> str:
    return "gives no answer within the time limit" if r[1] == "_Timeout" else f"raises {r[1]}"


def run_instance(inst: DeepRx, probes: Optional[List[list]], guard: Callable, count: Optional[Callable] = None):
    """Every query of one instance through the real library.  Returns None or (what, failing probe | None) of the
    FIRST wrong answer.  `guard(f)` → ("ok", value) | ("err", class name | "_Timeout")."""
    from automata.fa.nfa import NFA
    from automata.regex import regex as rx
    count = count or (lambda name: None)
    sig = inst.sigma()
    r = guard(lambda: NFA.from_regex(inst.re, input_symbols=sig))
    count("q:from_regex")
    if r[0] == "err":
        return f"{inst.call_text()} {_raised(r)} on an expression of the documented syntax ({inst.about})", None
    nfa = r[1]
    v = guard(lambda: rx.validate(inst.re))
    count("q:regex.validate")
    if v[0] == "err":
        return (f"regex.validate({inst.desc}) {_raised(v)} on an expression of the documented syntax that from_regex "
                f"compiles ({inst.about})"), None
    nv = guard(lambda: nfa.validate())
    count("q:nfa.validate")
    if nv[0] == "err":
        return f"the NFA returned by {inst.call_text()} is not valid: validate() {_raised(nv)} ({inst.about})", None
    prob = structure_problem(nfa, inst.expected_symbols())
    count("q:structure")
    if prob is not None:
        return f"the NFA returned by {inst.call_text()} is not a valid NFA over the alphabet: {prob} ({inst.about})", None
    for p in (inst.probes if probes is None else probes):
        w = word(p)
        want = inst.member(w)
        if inst.reader == "real":
            got = guard(lambda: nfa.accepts_input(w))
            count("probe_words_through_accepts_input")
        else:
            got = ("ok", table_accepts(nfa, w))
            count("probe_words_through_own_walk_of_the_compiled_table")
        count("probe_word_in_language" if want else "probe_word_not_in_language")
        if got != ("ok", want):
            how = (("rejects" if want else "accepts") if got[0] == "ok" else f"{_raised(got)} on")
            via = "" if inst.reader == "real" else " (own walk of the compiled transition table)"
            return (f"{inst.call_text()} {how} {short(p)}{via} but the expression "
                    f"{'denotes' if want else 'does not denote'} it ({inst.about}; {len(nfa.states)} states)"), p
    return None


def judge_step(step: dict, guard: Callable) -> List[str]:
    """A replayable step {op: "deep", spec, probes | None}: failure texts (empty = the property holds on it)."""
    inst = DeepRx(step["spec"])
    r = run_instance(inst, step.get("probes"), guard)
    return [] if r is None else [r[0]]
