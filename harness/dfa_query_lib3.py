"""Round-3 helpers of the C13 / C14 / C20 checks: LIVE objects and SHARED callables.

* `build_live(ref, mode)`: the object a sequence of queries is asked of.  `ref` is the frozen
  twin — the definition AS BUILT, which only the oracles and the model ever see.  Modes:
    frozen         a copy made under the default options (frozenset / frozendict inside);
    plain          built under `allow_mutable_automata = True` from plain `set` / `dict` copies of
                   the definition (the library then stores the caller's containers as they are: a
                   library function that uses one of them as its own work set — e.g. takes
                   `final_states` as the seen-set of a graph search — changes the automaton);
    aliased        like plain, and containers that a caller may legitimately share ARE shared: one
                   set object for `states` and `final_states` when all states are final, one dict
                   object for all rows with the same content;
    copy_of_plain  like plain, then `.copy()` under the option (the copy shares every container
                   with an object that stays alive).
  The option is a process-wide switch read by the constructor only; `mutable_option(mode)` keeps it
  switched on for a whole sequence (objects derived during the sequence are built under it too)
  and always restores the previous value.

* `SharedKey`: ONE callable object handed as `key=` to successive successor-search calls whose
  ranking is changed between the calls, in the ways a caller writes that down:
    dict_get   `rank.get` of a dict that is cleared and refilled;
    closure    `def by_rank(c): return rank[c]` over that dict;
    rebound    a closure over a variable that is REBOUND to a new dict for every ranking;
    object     an instance with `__call__` whose table attribute is replaced.
  A callable that is cached by identity / equality answers with a stale ordering.
"""
from __future__ import annotations

from typing import Any, Dict, List

import automata.base.config as global_config
from automata.fa.dfa import DFA

LIVE_MODES = ["frozen", "plain", "aliased", "copy_of_plain"]
MUTABLE_MODES = LIVE_MODES[1:]


class mutable_option:
    """`with mutable_option(mode):` — allow_mutable_automata is True inside iff mode != "frozen"."""

    def __init__(self, mode: str):
        self.on = mode != "frozen"

    def __enter__(self):
        self.old = global_config.allow_mutable_automata
        global_config.allow_mutable_automata = self.on
        return self

    def __exit__(self, *a):
        global_config.allow_mutable_automata = self.old


def build_live(ref: DFA, mode: str, keep: List[Any] = None) -> DFA:
    """To be called inside `mutable_option(mode)`.  `keep`: a list that receives every other object
    sharing containers with the result (so that it stays alive for the whole sequence)."""
    if mode == "frozen":
        return ref.copy()
    states = set(ref.states)
    finals = set(ref.final_states)
    rows = {k: dict(row) for k, row in ref.transitions.items()}
    if mode == "aliased":
        if finals == states:
            finals = states
        seen: List[dict] = []
        for k, row in rows.items():
            for other in seen:
                if other == row and list(other) == list(row):
                    rows[k] = other
                    break
            else:
                seen.append(row)
    d = DFA(states=states, input_symbols=set(ref.input_symbols), transitions=rows, initial_state=ref.initial_state,
            final_states=finals, allow_partial=ref.allow_partial)
    if mode == "copy_of_plain":
        if keep is not None:
            keep.append(d)
        d = d.copy()
    return d


def definition_of(d: DFA):
    """The definition as plain values (what must not drift during a sequence of queries)."""
    return (set(d.states), set(d.input_symbols), {k: dict(v) for k, v in d.transitions.items()}, d.initial_state,
            set(d.final_states), bool(d.allow_partial))


KEY_STYLES = ["dict_get", "closure", "rebound", "object"]


class _Ranker:
    def __init__(self):
        self.table: Dict[str, int] = {}

    def __call__(self, c):
        return self.table[c]


class SharedKey:
    """One callable object (`.fn`) for a whole sequence; `.set(ranking)` changes what it computes."""

    def __init__(self, style: str):
        self.style = style
        rank: Dict[str, int] = {}
        self.rank = rank
        if style == "dict_get":
            self.fn = rank.get
        elif style == "closure":
            def by_rank(c):
                return rank[c]
            self.fn = by_rank
        elif style == "rebound":
            current: Dict[str, int] = {}

            def by_current(c):
                return current[c]

            def rebind(table):
                nonlocal current
                current = dict(table)
            self.fn = by_current
            self._rebind = rebind
        elif style == "object":
            self.fn = _Ranker()
        else:
            raise ValueError(f"unknown key style {style}")

    def set(self, ranking: Dict[str, int]):
        if self.style in ("dict_get", "closure"):
            self.rank.clear()
            self.rank.update(ranking)
        elif self.style == "rebound":
            self._rebind(ranking)
        else:
            self.fn.table = dict(ranking)
        return self.fn
