"""Look-alike containers as CONSTRUCTOR ARGUMENTS in the default configuration (C18, finding F37).

The library's annotations admit `AbstractSet` / `Mapping` (/ `Sequence`) arguments; a user may pass, where a
set is expected, the `keys()` / `items()` view of a dictionary or an object of a class deriving from
`collections.abc.Set`; where a mapping is expected, a `types.MappingProxyType`, `collections.UserDict`,
`collections.ChainMap` or an object of a class deriving from `collections.abc.Mapping`; and subclasses of the
builtins (OrderedDict, defaultdict, Counter, a set subclass, a list subclass, a namedtuple); where a sequence
is expected (MNTM results and moves, result tuples) a `collections.UserList`, `collections.deque` or an object
of a class deriving from `collections.abc.Sequence`.  None of the first and last group is an instance of dict / set / list / tuple, and every one of them holds — or is a live window
onto — content the caller can still change.

`wrap_definition` rebuilds a plain definition (dicts, sets, lists, tuples as harness/gen_misc.py makes them)
with such objects at container positions chosen by a `Chooser` (random, recorded as a recipe; or replayed from
a recipe), at every nesting level, and returns the caller-side OWNERS: for every wrapped position the object a
caller would still hold and a function that changes it in place.

A regular module, so that the classes can be pickled by reference.
"""
from __future__ import annotations

import collections
import collections.abc
import types
from typing import Any, Callable, Dict, List, Optional, Tuple

from frozendict import frozendict


class AbcSet(collections.abc.Set):
    """A user class deriving from collections.abc.Set (not from set / frozenset); elements kept in a list."""

    def __init__(self, xs=()):
        self.data = []
        for x in xs:
            if x not in self.data:
                self.data.append(x)

    def __contains__(self, x):
        return x in self.data

    def __iter__(self):
        return iter(list(self.data))

    def __len__(self):
        return len(self.data)

    def __repr__(self):
        return f"AbcSet({self.data!r})"


class AbcMapping(collections.abc.Mapping):
    """A user class deriving from collections.abc.Mapping (not from dict)."""

    def __init__(self, d=()):
        self.data = dict(d)

    def __getitem__(self, k):
        return self.data[k]

    def __iter__(self):
        return iter(list(self.data))

    def __len__(self):
        return len(self.data)

    def __repr__(self):
        return f"AbcMapping({self.data!r})"


class AbcSequence(collections.abc.Sequence):
    """A user class deriving from collections.abc.Sequence (not from list / tuple)."""

    def __init__(self, xs=()):
        self.data = list(xs)

    def __getitem__(self, i):
        return self.data[i]

    def __len__(self):
        return len(self.data)

    def __repr__(self):
        return f"AbcSequence({self.data!r})"


class SetSub(set):
    pass


class ListSub(list):
    pass


NT1 = collections.namedtuple("NT1", "a")
NT2 = collections.namedtuple("NT2", "a b")
NT3 = collections.namedtuple("NT3", "a b c")
NT4 = collections.namedtuple("NT4", "a b c d")
NAMEDTUPLES = {1: NT1, 2: NT2, 3: NT3, 4: NT4}

# kinds per expected container.  "look-alike" = not an instance of the builtin container the position expects
SET_LOOKALIKES = ("keys-view", "odict-keys-view", "abc-set", "items-view")
SET_SUBCLASSES = ("set-subclass",)
SET_PLAIN = ("set", "frozenset")
MAP_LOOKALIKES = ("mappingproxy", "userdict", "chainmap", "abc-mapping", "mappingproxy-of-userdict")
MAP_SUBCLASSES = ("OrderedDict", "defaultdict", "Counter")
MAP_PLAIN = ("dict", "frozendict")
SEQ_SUBCLASSES = ("list-subclass", "namedtuple")
SEQ_PLAIN = ("list", "tuple")
# a Sequence that is neither list nor tuple (MNTM's annotation admits `Sequence`; /repo fix ab97679)
SEQ_LOOKALIKES = ("userlist", "deque", "abc-sequence")

ADDED = ("#added", 3)
CONTAINER_PARAMS = ("states", "input_symbols", "final_states", "stack_symbols", "tape_symbols", "transitions")


class Chooser:
    """Chooses a kind per position: at random (recording the choice) or from a recorded recipe."""

    def __init__(self, rng=None, recipe: Optional[Dict[str, str]] = None, p_wrap: float = 0.6,
                 p_subclass: float = 0.25, seq_lookalikes: bool = True):
        self.rng, self.replaying = rng, recipe is not None
        self.recipe: Dict[str, str] = dict(recipe or {})
        self.p_wrap, self.p_subclass, self.seq_lookalikes = p_wrap, p_subclass, seq_lookalikes

    def pick(self, label: str, lookalikes, subclasses, plain) -> str:
        if self.replaying:
            return self.recipe.get(label, plain[0])
        r = self.rng.random()
        if lookalikes and r < self.p_wrap:
            k = self.rng.choice(list(lookalikes))
        elif subclasses and r < self.p_wrap + self.p_subclass:
            k = self.rng.choice(list(subclasses))
        else:
            k = self.rng.choice(list(plain))
        if k != plain[0]:
            self.recipe[label] = k
        return k


Owner = Tuple[str, str, Any, Callable[[], None]]   # (position label, kind, caller-side object, mutate in place)


def _mut_dict(d: dict, rng) -> Callable[[], None]:
    def go():
        if d and rng.random() < 0.6:
            del d[next(iter(d))]
        d[ADDED] = None
    return go


def _mut_list(xs: list, rng) -> Callable[[], None]:
    def go():
        if xs and rng.random() < 0.6:
            del xs[0]
        xs.append(ADDED)
    return go


def _mut_deque(q, rng) -> Callable[[], None]:
    def go():
        if q and rng.random() < 0.6:
            q.popleft()
        q.append(ADDED)
    return go


def _mut_set(xs: set, rng) -> Callable[[], None]:
    def go():
        if xs and rng.random() < 0.6:
            xs.discard(next(iter(xs)))
        xs.add(ADDED)
    return go


def make_map(kind: str, d: dict, label: str, rng, owners: List[Owner]):
    """A mapping-like object of the kind with the content of `d` (a fresh dict nobody else holds)."""
    if kind == "dict":
        owners.append((label, kind, d, _mut_dict(d, rng)))
        return d
    if kind == "frozendict":
        return frozendict(d)
    if kind == "mappingproxy":
        owners.append((label, kind, d, _mut_dict(d, rng)))
        return types.MappingProxyType(d)
    if kind == "userdict":
        u = collections.UserDict(d)
        owners.append((label, kind, u, _mut_dict(u.data, rng)))
        return u
    if kind == "mappingproxy-of-userdict":
        u = collections.UserDict(d)
        owners.append((label, kind, u, _mut_dict(u.data, rng)))
        return types.MappingProxyType(u)
    if kind == "chainmap":
        owners.append((label, kind, d, _mut_dict(d, rng)))
        return collections.ChainMap({}, d)
    if kind == "abc-mapping":
        m = AbcMapping(d)
        owners.append((label, kind, m, _mut_dict(m.data, rng)))
        return m
    if kind == "OrderedDict":
        o = collections.OrderedDict(d)
        owners.append((label, kind, o, _mut_dict(o, rng)))
        return o
    if kind == "defaultdict":
        o = collections.defaultdict(dict, d)
        owners.append((label, kind, o, _mut_dict(o, rng)))
        return o
    if kind == "Counter":
        o = collections.Counter()
        dict.update(o, d)
        owners.append((label, kind, o, _mut_dict(o, rng)))
        return o
    raise ValueError(kind)


def items_view_ok(xs) -> bool:
    """Can the set be written as the items view of a dictionary?  (all members pairs, first components distinct)"""
    xs = list(xs)
    return bool(xs) and all(isinstance(x, tuple) and len(x) == 2 for x in xs) and len({x[0] for x in xs}) == len(xs)


def make_set(kind: str, xs: list, label: str, rng, owners: List[Owner]):
    """A set-like object of the kind with the members `xs` (hashable, distinct)."""
    if kind == "set":
        s = set(xs)
        owners.append((label, kind, s, _mut_set(s, rng)))
        return s
    if kind == "frozenset":
        return frozenset(xs)
    if kind == "keys-view":
        d = dict.fromkeys(xs)
        owners.append((label, kind, d, _mut_dict(d, rng)))
        return d.keys()
    if kind == "odict-keys-view":
        d = collections.OrderedDict.fromkeys(xs)
        owners.append((label, kind, d, _mut_dict(d, rng)))
        return d.keys()
    if kind == "items-view":
        if not items_view_ok(xs):
            return make_set("keys-view", xs, label, rng, owners)
        # the second components as LISTS where they are tuples: members of an items view need not be hashable
        d = {a: (list(b) if isinstance(b, tuple) and rng.random() < 0.5 else b) for a, b in xs}
        owners.append((label, kind, d, _mut_dict(d, rng)))
        return d.items()
    if kind == "abc-set":
        s = AbcSet(xs)
        owners.append((label, kind, s, _mut_list(s.data, rng)))
        return s
    if kind == "set-subclass":
        s = SetSub(xs)
        owners.append((label, kind, s, _mut_set(s, rng)))
        return s
    raise ValueError(kind)


def make_seq(kind: str, xs: list, label: str, rng, owners: List[Owner]):
    if kind == "list":
        owners.append((label, kind, xs, _mut_list(xs, rng)))
        return xs
    if kind == "tuple":
        return tuple(xs)
    if kind == "list-subclass":
        s = ListSub(xs)
        owners.append((label, kind, s, _mut_list(s, rng)))
        return s
    if kind == "namedtuple":
        nt = NAMEDTUPLES.get(len(xs))
        return nt(*xs) if nt else tuple(xs)
    if kind == "userlist":
        u = collections.UserList(xs)
        owners.append((label, kind, u, _mut_list(u.data, rng)))
        return u
    if kind == "deque":
        q = collections.deque(xs)
        owners.append((label, kind, q, _mut_deque(q, rng)))
        return q
    if kind == "abc-sequence":
        a = AbcSequence(xs)
        owners.append((label, kind, a, _mut_list(a.data, rng)))
        return a
    raise ValueError(kind)


def wrap_value(v: Any, label: str, ch: Chooser, rng, owners: List[Owner], top_seq: bool = False):
    """`v` (a plain value: dict / set / list / tuple / atoms) rebuilt with look-alike containers.  Members of sets
    and dictionary keys stay as they are (they must be hashable); everything else is wrapped recursively."""
    if isinstance(v, (dict, frozendict)):
        d = {k: wrap_value(x, f"{label}[{k!r}]", ch, rng, owners) for k, x in v.items()}
        return make_map(ch.pick(label, MAP_LOOKALIKES, MAP_SUBCLASSES, MAP_PLAIN), d, label, rng, owners)
    if isinstance(v, (set, frozenset)):
        xs = list(v)
        look = SET_LOOKALIKES if items_view_ok(xs) else SET_LOOKALIKES[:-1]
        return make_set(ch.pick(label, look, SET_SUBCLASSES, SET_PLAIN), xs, label, rng, owners)
    if isinstance(v, list):
        xs = [wrap_value(x, f"{label}[{i}]", ch, rng, owners) for i, x in enumerate(v)]
        look = SEQ_LOOKALIKES if ch.seq_lookalikes else ()
        return make_seq(ch.pick(label, look, SEQ_SUBCLASSES, SEQ_PLAIN), xs, label, rng, owners)
    if isinstance(v, tuple):
        xs = [wrap_value(x, f"{label}[{i}]", ch, rng, owners) for i, x in enumerate(v)]
        # (a tuple is the plain form here: "tuple" first)
        look = SEQ_LOOKALIKES if ch.seq_lookalikes else ()
        return make_seq(ch.pick(label, look, SEQ_SUBCLASSES + ("list",), ("tuple",)), xs, label, rng, owners)
    return v


def wrap_definition(cls: str, kw: Dict[str, Any], ch: Chooser, rng) -> Tuple[Dict[str, Any], List[Owner]]:
    """The definition with look-alike containers at the positions the chooser picks.  Returns (arguments, owners)."""
    owners: List[Owner] = []
    # container parameters only: the other parameters are names / symbols / flags (a tuple there is a state NAME)
    args = {k: (wrap_value(v, k, ch, rng, owners) if k in CONTAINER_PARAMS else v) for k, v in kw.items()}
    return args, owners


def kinds_used(recipe: Dict[str, str]) -> List[str]:
    return sorted(set(recipe.values()))


def depth_of(label: str) -> int:
    return label.count("[")
