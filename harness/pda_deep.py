"""C02 — deep / large instances (size thresholds of the *run* and of the *table*).

The generators of harness/ops/C02.py stay below 6 states, words of 9 symbols and 40 levels.  A loop rewritten as
recursion (Python's recursion limit is hit near depth 1000), a bare functools.lru_cache, a cut-off after the
first N rows / symbols / levels, a fixed-size buffer are invisible there.  This module describes, by small JSON
parameter dicts, pushdown automata whose behaviour is known in CLOSED FORM from the construction parameters:

  deterministic tables (run as DPDA *and*, with the same table, as NPDA)
    anbn         a^n b^m, m in {n-1, n, n+1}: the stack grows to n+1 and shrinks again
    brackets     two kinds of brackets, nesting depth d, a few partial close/re-open hills, end marker '$';
                 rejecting twins: one closing bracket of the wrong kind, the end marker missing
    palc         u c u^R over {a,b}; rejecting twin: one symbol of the second half exchanged
    lchain       a chain of k states that push k symbols by lambda-moves alone, then one input symbol, then k
                 lambda-pops (words 'a', '' and 'aa'): runs of 2k+1 moves on a 1-symbol input, a table of k+3 rows
    longpush     ONE move that pushes k symbols (tuple or str), then k symbol-by-symbol pops that check the order
  nondeterministic tables (NPDA only, the frontier never exceeds two configurations)
    branchy      a^n b^n where every a may also be answered by a move into a dead-end state
    palguess     u u^R without centre marker, u without equal neighbours: the only real guess is at the centre,
                 the wrong branch goes on pushing to depth 2|u|+1
  constructor only (the determinism clause on large tables)
    bigtable     k rows, lambda-moves and symbol moves on different stack tops everywhere; with `conflict`, ONE row
                 (first / last / random) has a lambda-move next to a symbol move for the same top
    widerow      one row with L lambda-entries and L input symbols (or one input symbol with L stack tops);
                 with `conflict`, the last (or a random) symbol entry shares its stack top with a lambda-entry

Closed form = verdict, number of moves of the run (number of yields follows), final configuration (state, unread
input, stack bottom-first), peak stack depth; for the nondeterministic families every level.  The judge drives the
real `read_input_stepwise` to its end *streaming* next to a 20-line in-place interpreter (list stack, index into
the word) and compares every yielded configuration completely; count, way of ending, `accepts_input`,
`read_input` against the closed form; DPDA and NPDA against each other.  The closed form is checked against the
in-place interpreter at full size before any library call, and (in harness/ops/C02.py) against the module's
textbook oracle `Ref` and the Lean model on small twins.  No model round trip for the big instances: the answers
are known, the theorems are about all sizes.

Nothing here imports the library; the caller passes the constructors in.
"""
from __future__ import annotations

import random
import signal
from typing import Any, Callable, Dict, Iterator, List, Optional, Tuple

from harness.common import InfraError

RUN_LIMIT = 20.0      # watchdog seconds for one call into the library (a clean call needs < 0.3 s)
MODES = ("final_state", "empty_stack", "both")

STACK_STYLES = [("Z", "A", "B", "X"), ("Z0", "A1", "B2", "X9"), ("⊥", "α", "β", "χ"), ("bottom", "x", "yy", "dead")]
STATE_STYLES: List[Callable[[int], Any]] = [
    lambda i: "q%d" % i,
    lambda i: i,
    lambda i: ("q", i),
    lambda i: -i - 1,
]


def _q(style: int) -> Callable[[int], Any]:
    return STATE_STYLES[style % len(STATE_STYLES)]


def _s(style: int) -> Tuple[str, str, str, str]:
    return STACK_STYLES[style % len(STACK_STYLES)]


def _end(mode: str, via: str, z: str, f: Any):
    """The last move (on the bottom marker) by acceptance mode: (push, final states, stack afterwards).
    mode 'both' is met either through the final state with a non-empty stack (via='fs') or through the empty
    stack in a state that is not final (via='es')."""
    if mode == "final_state" or (mode == "both" and via == "fs"):
        return (z,), {f}, (z,)
    if mode == "empty_stack" or (mode == "both" and via == "es"):
        return (), set(), ()
    raise InfraError(f"pda_deep: mode {mode!r} / via {via!r}")


class Case:
    """One instance.  `rows` = [((state, input symbol or '', stack top), (target, push tuple))]."""

    def __init__(self, family: str, params: dict):
        self.family, self.params = family, params
        self.deterministic = True
        self.rows: List[Tuple[Tuple[Any, str, str], Tuple[Any, tuple]]] = []
        self.states: set = set()
        self.insyms: set = set()
        self.stsyms: set = set()
        self.init: Any = None
        self.z = ""
        self.finals: set = set()
        self.mode = "final_state"
        self.strpush = False
        self.word = ""
        # closed form
        self.verdict = "accept"
        self.moves = 0                      # deterministic: moves of the run; else index of the last non-empty level
        self.final: Tuple[Any, str, tuple] = (None, "", ())
        self.peak = 1
        self.levels: Optional[Callable[[int], List[Tuple[Any, str, tuple]]]] = None

    def label(self) -> str:
        return self.family + "(" + ", ".join(f"{k}={v}" for k, v in sorted(self.params.items())) + ")"

    def replay(self) -> dict:
        w = self.word
        return dict(kind="DEEP", family=self.family, params=self.params,
                    word=w if len(w) <= 100 else f"{w[:30]}…{w[-20:]} ({len(w)} symbols; rebuilt from params)")

    def _push(self, push: tuple):
        if self.strpush and all(len(y) == 1 for y in push):
            return "".join(push)
        return tuple(push)

    def kwargs(self, kind: str) -> dict:
        """Constructor arguments: kind 'D' (entries are pairs) or 'N' (entries are sets of pairs)."""
        t: dict = {}
        for (q, a, X), (p, push) in self.rows:
            sp = t.setdefault(q, {}).setdefault(a, {})
            e = (p, self._push(push))
            if kind == "D":
                if X in sp:
                    raise InfraError("pda_deep: two entries for one key in a deterministic family")
                sp[X] = e
            else:
                sp.setdefault(X, set()).add(e)
        return dict(states=set(self.states), input_symbols=set(self.insyms), stack_symbols=set(self.stsyms),
                    transitions=t, initial_state=self.init, initial_stack_symbol=self.z,
                    final_states=set(self.finals), acceptance_mode=self.mode)

    def expected_end(self) -> str:
        return "ret" if self.verdict == "accept" else "raise RejectionException"

    def expected_yields(self, cls: str) -> int:
        """DPDA: the start configuration and one per move.  NPDA: one level per index up to the last non-empty
        one, and the empty level it yields before it rejects."""
        return self.moves + 1 + (1 if cls == "NPDA" and self.verdict == "reject" else 0)


# ------------------------------------------------------------------ deterministic families
def anbn(n: int, m: int, mode: str = "final_state", via: str = "fs", sty: int = 0, qsty: int = 0,
         strpush: bool = False) -> Case:
    Z, A, _B, _X = _s(sty)
    q0, q1, q2 = (_q(qsty)(i) for i in range(3))
    c = Case("anbn", dict(n=n, m=m, mode=mode, via=via, sty=sty, qsty=qsty, strpush=strpush))
    if n < 2 or abs(n - m) > 1:
        raise InfraError("anbn: closed form only for n >= 2, |n - m| <= 1")
    push, finals, rest = _end(mode, via, Z, q2)
    c.rows = [((q0, "a", Z), (q0, (A, Z))), ((q0, "a", A), (q0, (A, A))), ((q0, "b", A), (q1, ())),
              ((q1, "b", A), (q1, ())), ((q1, "", Z), (q2, push))]
    c.states, c.insyms, c.stsyms = {q0, q1, q2}, {"a", "b"}, {Z, A}
    c.init, c.z, c.finals, c.mode, c.strpush = q0, Z, finals, mode, strpush
    c.word = "a" * n + "b" * m
    c.peak = n + 1
    if m == n:          # n pushes, n pops, the move on the bottom marker
        c.verdict, c.moves, c.final = "accept", 2 * n + 1, (q2, "", rest)
    elif m == n - 1:    # the input ends with one A left: no lambda-move on A
        c.verdict, c.moves, c.final = "reject", n + m, (q1, "", (Z, A))
    else:               # the bottom marker is reached with one b unread: the lambda-move is taken, q2 has no row
        c.verdict, c.moves, c.final = "reject", 2 * n + 1, (q2, "b", rest)
    return c


def _bracket_word(d: int, hills: int, wseed: int):
    """d random opening brackets, then `hills` times (close k, open k new ones), then everything closed.
    Returns (the word without end marker, the list of open brackets before the final closing run)."""
    r = random.Random(wseed)
    close = {"(": ")", "[": "]"}
    open_ = [r.choice("([") for _ in range(d)]
    w = list(open_)
    for _ in range(hills):
        k = r.randint(1, max(1, d // 8))
        w += [close[x] for x in reversed(open_[d - k:])]
        new = [r.choice("([") for _ in range(k)]
        open_[d - k:] = new
        w += new
    return w, open_


def brackets(d: int, hills: int, wseed: int, defect: str = "none", at: int = 0, mode: str = "final_state",
             via: str = "fs", sty: int = 0, qsty: int = 0, same_names: bool = False) -> Case:
    """Balanced brackets of two kinds followed by '$'.  defect: 'none' | 'flip' (the at-th bracket of the final
    closing run is of the other kind) | 'no_marker' ('$' missing) | 'short' (the last `at` closing brackets are
    missing, the marker arrives on an open bracket)."""
    Z, P, Q, _X = _s(sty)
    if same_names:
        P, Q = "(", "["          # stack symbols named like the input symbols
    q0, q1 = (_q(qsty)(i) for i in range(2))
    c = Case("brackets", dict(d=d, hills=hills, wseed=wseed, defect=defect, at=at, mode=mode, via=via, sty=sty,
                              qsty=qsty, same_names=same_names))
    if d < 2 or not 0 <= at < d:
        raise InfraError("brackets: d >= 2, 0 <= at < d")
    push, finals, rest = _end(mode, via, Z, q1)
    sym = {"(": P, "[": Q}
    for o, S in sym.items():
        for X in (Z, P, Q):
            c.rows.append(((q0, o, X), (q0, (S, X))))
    c.rows += [((q0, ")", P), (q0, ())), ((q0, "]", Q), (q0, ())), ((q0, "$", Z), (q1, push))]
    c.states, c.insyms, c.stsyms = {q0, q1}, set("()[]$"), {Z, P, Q}
    c.init, c.z, c.finals, c.mode = q0, Z, finals, mode
    body, open_ = _bracket_word(d, hills, wseed)
    close = {"(": ")", "[": "]"}
    tail = [close[x] for x in reversed(open_)]
    pre = len(body)
    c.peak = d + 1
    stack_at = lambda j: (Z,) + tuple(sym[x] for x in open_[:d - j])   # noqa: E731 — after j closing brackets
    if defect == "none":
        c.word = "".join(body + tail) + "$"
        c.verdict, c.moves, c.final = "accept", len(c.word), (q1, "", rest)
    elif defect == "flip":
        tail[at] = ")" if tail[at] == "]" else "]"
        c.word = "".join(body + tail) + "$"
        c.verdict, c.moves, c.final = "reject", pre + at, (q0, c.word[pre + at:], stack_at(at))
    elif defect == "no_marker":
        c.word = "".join(body + tail)
        c.verdict, c.moves, c.final = "reject", len(c.word), (q0, "", (Z,))
    elif defect == "short":
        if at < 1:
            raise InfraError("brackets/short: at >= 1")
        c.word = "".join(body + tail[:d - at]) + "$"
        c.verdict, c.moves, c.final = "reject", len(c.word) - 1, (q0, "$", stack_at(d - at))
    else:
        raise InfraError("brackets: defect " + defect)
    return c


def palc(n: int, wseed: int, flip: Optional[int] = None, mode: str = "final_state", via: str = "fs", sty: int = 0,
         qsty: int = 0, strpush: bool = False) -> Case:
    """u c u^R with |u| = n; flip = offset in the second half of a symbol that is exchanged (reject there)."""
    Z, A, B, _X = _s(sty)
    q0, q1, q2 = (_q(qsty)(i) for i in range(3))
    c = Case("palc", dict(n=n, wseed=wseed, flip=flip, mode=mode, via=via, sty=sty, qsty=qsty, strpush=strpush))
    if n < 2 or (flip is not None and not 0 <= flip < n):
        raise InfraError("palc: n >= 2, 0 <= flip < n")
    push, finals, rest = _end(mode, via, Z, q2)
    sym = {"a": A, "b": B}
    for x, S in sym.items():
        for X in (Z, A, B):
            c.rows.append(((q0, x, X), (q0, (S, X))))
        c.rows.append(((q1, x, S), (q1, ())))
    for X in (Z, A, B):
        c.rows.append(((q0, "c", X), (q1, (X,))))
    c.rows.append(((q1, "", Z), (q2, push)))
    c.states, c.insyms, c.stsyms = {q0, q1, q2}, set("abc"), {Z, A, B}
    c.init, c.z, c.finals, c.mode, c.strpush = q0, Z, finals, mode, strpush
    r = random.Random(wseed)
    u = [r.choice("ab") for _ in range(n)]
    back = list(reversed(u))
    c.peak = n + 1
    if flip is None:
        c.word = "".join(u) + "c" + "".join(back)
        c.verdict, c.moves, c.final = "accept", 2 * n + 2, (q2, "", rest)
    else:
        back[flip] = "a" if back[flip] == "b" else "b"
        c.word = "".join(u) + "c" + "".join(back)
        c.verdict, c.moves = "reject", n + 1 + flip
        c.final = (q1, c.word[n + 1 + flip:], (Z,) + tuple(sym[x] for x in u[:n - flip]))
    return c


def lchain(k: int, word: str = "a", mode: str = "final_state", via: str = "fs", sty: int = 0, qsty: int = 0) -> Case:
    """k lambda-pushes through k states, one symbol, k-1 lambda-pops and the move on the bottom marker."""
    Z, A, _B, _X = _s(sty)
    q = _q(qsty)
    s = [q(i) for i in range(k + 1)]
    p, f = q(k + 1), q(k + 2)
    c = Case("lchain", dict(k=k, word=word, mode=mode, via=via, sty=sty, qsty=qsty))
    if k < 2 or word not in ("a", "", "aa"):
        raise InfraError("lchain: k >= 2, word in {'a', '', 'aa'}")
    push, finals, rest = _end(mode, via, Z, f)
    c.rows.append(((s[0], "", Z), (s[1], (A, Z))))
    for i in range(1, k):
        c.rows.append(((s[i], "", A), (s[i + 1], (A, A))))
    c.rows += [((s[k], "a", A), (p, ())), ((p, "", A), (p, ())), ((p, "", Z), (f, push))]
    c.states, c.insyms, c.stsyms = set(s) | {p, f}, {"a"}, {Z, A}
    c.init, c.z, c.finals, c.mode = s[0], Z, finals, mode
    c.word = word
    c.peak = k + 1
    if word == "a":
        c.verdict, c.moves, c.final = "accept", 2 * k + 1, (f, "", rest)
    elif word == "":
        c.verdict, c.moves, c.final = "reject", k, (s[k], "", (Z,) + (A,) * k)
    else:
        c.verdict, c.moves, c.final = "reject", 2 * k + 1, (f, "a", rest)
    return c


def longpush(k: int, wseed: int, flip: Optional[int] = None, mode: str = "final_state", via: str = "fs",
             sty: int = 0, qsty: int = 0, strpush: bool = False) -> Case:
    """'c' pushes k symbols in ONE move (first pushed symbol = new top), the word then spells them top-down."""
    Z, A, B, _X = _s(sty)
    q0, q1, q2 = (_q(qsty)(i) for i in range(3))
    c = Case("longpush", dict(k=k, wseed=wseed, flip=flip, mode=mode, via=via, sty=sty, qsty=qsty, strpush=strpush))
    if k < 2 or (flip is not None and not 0 <= flip < k):
        raise InfraError("longpush: k >= 2, 0 <= flip < k")
    push, finals, rest = _end(mode, via, Z, q2)
    r = random.Random(wseed)
    u = [r.choice("ab") for _ in range(k)]
    sym = {"a": A, "b": B}
    c.rows = [((q0, "c", Z), (q1, tuple(sym[x] for x in u) + (Z,))),
              ((q1, "a", A), (q1, ())), ((q1, "b", B), (q1, ())), ((q1, "", Z), (q2, push))]
    c.states, c.insyms, c.stsyms = {q0, q1, q2}, set("abc"), {Z, A, B}
    c.init, c.z, c.finals, c.mode, c.strpush = q0, Z, finals, mode, strpush
    c.peak = k + 1
    if flip is None:
        c.word = "c" + "".join(u)
        c.verdict, c.moves, c.final = "accept", k + 2, (q2, "", rest)
    else:
        v = list(u)
        v[flip] = "a" if v[flip] == "b" else "b"
        c.word = "c" + "".join(v)
        c.verdict, c.moves = "reject", 1 + flip
        c.final = (q1, c.word[1 + flip:], (Z,) + tuple(sym[x] for x in reversed(u[flip:])))
    return c


# ------------------------------------------------------------------ nondeterministic families (frontier <= 2)
def branchy(n: int, m: int, mode: str = "final_state", via: str = "fs", sty: int = 0, qsty: int = 0) -> Case:
    """a^n b^m (m in {n-1, n}); every a may also be answered by a move into the dead-end state d (no row, not
    final).  Level j: 1..n two configurations, afterwards one."""
    Z, A, _B, X = _s(sty)
    q0, q1, q2, d = (_q(qsty)(i) for i in range(4))
    c = Case("branchy", dict(n=n, m=m, mode=mode, via=via, sty=sty, qsty=qsty))
    if n < 2 or m not in (n - 1, n):
        raise InfraError("branchy: n >= 2, m in {n-1, n}")
    push, finals, rest = _end(mode, via, Z, q2)
    c.deterministic = False
    c.rows = [((q0, "a", Z), (q0, (A, Z))), ((q0, "a", Z), (d, (X, Z))),
              ((q0, "a", A), (q0, (A, A))), ((q0, "a", A), (d, (X, A))),
              ((q0, "b", A), (q1, ())), ((q1, "b", A), (q1, ())), ((q1, "", Z), (q2, push))]
    c.states, c.insyms, c.stsyms = {q0, q1, q2, d}, {"a", "b"}, {Z, A, X}
    c.init, c.z, c.finals, c.mode = q0, Z, finals, mode
    w = c.word = "a" * n + "b" * m
    c.peak = n + 1

    def levels(j: int):
        if j == 0:
            return [(q0, w, (Z,))]
        if j <= n:
            return [(q0, w[j:], (Z,) + (A,) * j), (d, w[j:], (Z,) + (A,) * (j - 1) + (X,))]
        if j <= n + m:
            return [(q1, w[j:], (Z,) + (A,) * (2 * n - j))]
        if j == 2 * n + 1 and m == n:
            return [(q2, "", rest)]
        return []

    c.levels = levels
    if m == n:
        c.verdict, c.moves, c.final = "accept", 2 * n + 1, (q2, "", rest)
    else:
        c.verdict, c.moves, c.final = "reject", n + m, (q1, "", (Z, A))
    return c


def _no_equal_neighbours(n: int, wseed: int) -> List[str]:
    r = random.Random(wseed)
    u = [r.choice("abc")]
    while len(u) < n:
        u.append(r.choice([x for x in "abc" if x != u[-1]]))
    return u


def palguess(n: int, wseed: int, spoil: bool = False, mode: str = "final_state", via: str = "fs", sty: int = 0,
             qsty: int = 0) -> Case:
    """u u^R without centre marker (the shape of the library's documentation NPDA), u without equal neighbours:
    popping can only start at the centre; the other branch goes on pushing to depth 2n+1.  spoil: the last symbol
    is exchanged, the popping branch is stuck on it."""
    Z = _s(sty)[0]
    S = {"a": "A", "b": "B", "c": "C"} if sty % 2 == 0 else {"a": "Sa", "b": "Sb", "c": "Sc"}
    q0, q1, q2 = (_q(qsty)(i) for i in range(3))
    c = Case("palguess", dict(n=n, wseed=wseed, spoil=spoil, mode=mode, via=via, sty=sty, qsty=qsty))
    if n < 2:
        raise InfraError("palguess: n >= 2")
    push, finals, rest = _end(mode, via, Z, q2)
    c.deterministic = False
    for x, Sx in S.items():
        for X in [Z] + list(S.values()):
            c.rows.append(((q0, x, X), (q0, (Sx, X))))
        c.rows.append(((q0, x, Sx), (q1, ())))
        c.rows.append(((q1, x, Sx), (q1, ())))
    c.rows += [((q0, "", Z), (q2, push)), ((q1, "", Z), (q2, push))]
    c.states, c.insyms, c.stsyms = {q0, q1, q2}, set("abc"), {Z} | set(S.values())
    c.init, c.z, c.finals, c.mode = q0, Z, finals, mode
    u = _no_equal_neighbours(n, wseed)
    v = u + list(reversed(u))
    if spoil:
        v[-1] = next(x for x in "abc" if x not in (v[-1], v[-2]))
    w = c.word = "".join(v)
    st = [S[x] for x in v]
    c.peak = 2 * n + 1

    def levels(j: int):
        if j == 0:
            return [(q0, w, (Z,))]
        if j == 1:   # the lambda-move of the start configuration: dead, the input is unread
            return [(q0, w[1:], (Z, st[0])), (q2, w, rest)]
        if j <= n:
            return [(q0, w[j:], (Z,) + tuple(st[:j]))]
        if j < 2 * n or (j == 2 * n and not spoil):
            return [(q0, w[j:], (Z,) + tuple(st[:j])), (q1, w[j:], (Z,) + tuple(st[:2 * n - j]))]
        if j == 2 * n:
            return [(q0, "", (Z,) + tuple(st))]
        if j == 2 * n + 1 and not spoil:
            return [(q2, "", rest)]
        return []

    c.levels = levels
    if spoil:
        c.verdict, c.moves, c.final = "reject", 2 * n, (q0, "", (Z,) + tuple(st))
    else:
        c.verdict, c.moves, c.final = "accept", 2 * n + 1, (q2, "", rest)
    return c


FAMILIES: Dict[str, Callable[..., Case]] = dict(anbn=anbn, brackets=brackets, palc=palc, lchain=lchain,
                                                longpush=longpush, branchy=branchy, palguess=palguess)


def build(family: str, params: dict) -> Case:
    return FAMILIES[family](**params)


# ------------------------------------------------------------------ constructor-only families
class VCase:
    """A large definition for the determinism clause: `expect` = 'ok' | 'NondeterminismError'."""

    def __init__(self, family: str, params: dict):
        self.family, self.params = family, params
        self.spec: dict = {}
        self.expect = "ok"
        self.rows = 0
        self.entries = 0

    def label(self) -> str:
        return self.family + "(" + ", ".join(f"{k}={v}" for k, v in sorted(self.params.items())) + ")"

    def replay(self) -> dict:
        return dict(kind="DEEPV", family=self.family, params=self.params)


def bigtable(k: int, conflict: Optional[int] = None, sty: int = 0, qsty: int = 0, lam_first: bool = True) -> VCase:
    """k rows.  Even rows: a lambda-move on A and a symbol move on Z (different tops: one applicable move);
    odd rows: symbol moves on A and Z.  conflict = index of the one row that also gets a symbol move
    (even row) / a lambda-move (odd row) on A."""
    Z, A, _B, _X = _s(sty)
    q = _q(qsty)
    v = VCase("bigtable", dict(k=k, conflict=conflict, sty=sty, qsty=qsty, lam_first=lam_first))
    if k < 2 or (conflict is not None and not 0 <= conflict < k):
        raise InfraError("bigtable: k >= 2, 0 <= conflict < k")
    t: dict = {}
    for i in range(k):
        nxt = q((i + 1) % k)
        if i % 2 == 0:
            lam, sy = {A: (nxt, (A, A))}, {"a": {Z: (nxt, (A, Z))}}
            if i == conflict:
                sy["b"] = {A: (nxt, ())}
        else:
            lam, sy = {}, {"a": {A: (nxt, ())}, "b": {Z: (nxt, (Z,)), A: (nxt, (A,))}}
            if i == conflict:
                lam = {A: (nxt, (A,))}
        row: dict = {}
        if lam and lam_first:
            row[""] = lam
        row.update(sy)
        if lam and not lam_first:
            row[""] = lam
        t[q(i)] = row
    v.spec = dict(states={q(i) for i in range(k)}, input_symbols={"a", "b"}, stack_symbols={Z, A}, transitions=t,
                  initial_state=q(0), initial_stack_symbol=Z, final_states={q(k - 1)}, acceptance_mode="final_state")
    v.expect = "ok" if conflict is None else "NondeterminismError"
    v.rows, v.entries = k, sum(len(sp) for row in t.values() for sp in row.values())
    return v


def widerow(L: int, shape: str = "wide", conflict: Optional[List[int]] = None, sty: int = 0) -> VCase:
    """One state.  lambda-entries for the stack symbols s0..s(L-1); shape 'wide': L input symbols, the i-th with
    one entry for s(L+i); shape 'tall': one input symbol with entries for sL..s(2L-1).  conflict = [i, c]: the
    i-th symbol entry is (also) keyed by s(c), c < L, which has a lambda-entry."""
    Z = _s(sty)[0]
    v = VCase("widerow", dict(L=L, shape=shape, conflict=conflict, sty=sty))
    if L < 2 or shape not in ("wide", "tall") or (conflict is not None and not (0 <= conflict[0] < L
                                                                               and 0 <= conflict[1] < L)):
        raise InfraError("widerow: bad parameters")
    ss = [Z + "_%d" % i for i in range(2 * L)]
    ins = [chr(0x3b1 + i) if i < 25 else chr(0x4e00 + i) for i in range(L)] if shape == "wide" else ["a"]
    row: dict = {"": {ss[i]: ("q", ()) for i in range(L)}}
    if shape == "wide":
        for i, a in enumerate(ins):
            row[a] = {ss[L + i]: ("q", (ss[i],))}
        if conflict is not None:
            row[ins[conflict[0]]][ss[conflict[1]]] = ("q", ())
    else:
        col = {}
        for i in range(L):
            col[ss[L + i]] = ("q", (ss[i],))
            if conflict is not None and conflict[0] == i:
                col[ss[conflict[1]]] = ("q", ())
        row["a"] = col
    v.spec = dict(states={"q"}, input_symbols=set(ins), stack_symbols=set(ss), transitions={"q": row},
                  initial_state="q", initial_stack_symbol=ss[2 * L - 1], final_states=set(),
                  acceptance_mode="empty_stack")
    v.expect = "ok" if conflict is None else "NondeterminismError"
    v.rows, v.entries = 1, sum(len(sp) for sp in row.values())
    return v


VFAMILIES: Dict[str, Callable[..., VCase]] = dict(bigtable=bigtable, widerow=widerow)


def vbuild(family: str, params: dict) -> VCase:
    return VFAMILIES[family](**params)


def lift(spec: dict) -> dict:
    n = dict(spec)
    n["transitions"] = {q: {a: {X: {e} for X, e in sp.items()} for a, sp in row.items()}
                        for q, row in spec["transitions"].items()}
    return n


# ------------------------------------------------------------------ in-place reference (deterministic tables)
def accepting(c: Case, state: Any, unread: int, depth: int) -> bool:
    if unread:
        return False
    if c.mode == "final_state":
        return state in c.finals
    if c.mode == "empty_stack":
        return depth == 0
    return depth == 0 or state in c.finals


def ref_run(c: Case) -> Iterator[Tuple[Any, int, List[str]]]:
    """Textbook run of a deterministic table, in place: yields (state, index of the first unread symbol, the live
    stack list with the top LAST); the generator's return value is 'accept' / 'reject'."""
    rules: Dict[Tuple[Any, str, str], Tuple[Any, tuple]] = {}
    for key, val in c.rows:
        if key in rules:
            raise InfraError("pda_deep.ref_run: not a deterministic table")
        rules[key] = val
    w, i, q, st = c.word, 0, c.init, [c.z]
    yield q, i, st
    while True:
        if accepting(c, q, len(w) - i, len(st)):
            return "accept"
        if not st:
            return "reject"
        lam = rules.get((q, "", st[-1]))
        sym = rules.get((q, w[i], st[-1])) if i < len(w) else None
        if lam is not None and sym is not None:
            raise InfraError("pda_deep.ref_run: two applicable moves")
        if lam is None and sym is None:
            return "reject"
        if sym is not None:
            i += 1
        q, push = lam if lam is not None else sym
        st.pop()
        st.extend(reversed(push))
        yield q, i, st


def level_run(c: Case) -> Iterator[List[Tuple[Any, str, tuple]]]:
    """The expected levels: the closed form of a nondeterministic family, the in-place run otherwise."""
    if c.levels is not None:
        for j in range(c.moves + 1):
            yield c.levels(j)
        return
    w = c.word
    for q, i, st in ref_run(c):
        yield [(q, w[i:], tuple(st))]


def verify_closed_form(c: Case):
    """The closed form against the in-place interpreter at full size (deterministic families) — a disagreement is
    a defect of this file, not of the library."""
    if not c.deterministic:
        if c.levels(c.moves + 1) != [] or c.final not in c.levels(c.moves) or \
                max(len(x[2]) for j in (c.moves // 2, c.moves) for x in c.levels(j)) > c.peak:
            raise InfraError(f"pda_deep: closed form of {c.label()} is inconsistent")
        return
    g = ref_run(c)
    count, peak, last, verdict = 0, 0, None, None
    while verdict is None:
        try:
            q, i, st = next(g)
        except StopIteration as e:
            verdict = e.value
            break
        count += 1
        peak = max(peak, len(st))
        last = (q, c.word[i:], tuple(st))
        if count > c.moves + 5:
            verdict = "running"
    got, want = (verdict, count - 1, last, peak), (c.verdict, c.moves, c.final, c.peak)
    if got != want:
        def short(x):
            return (x[0], x[1], (x[2][0], len(x[2][1]), len(x[2][2]), x[2][2][-3:]), x[3])
        raise InfraError(f"pda_deep: closed form of {c.label()} is wrong: interpreter {short(got)}, "
                         f"closed form {short(want)}")


# ------------------------------------------------------------------ driving the real code
class DeepTimeout(BaseException):
    """The watchdog (BaseException: library code must not swallow it)."""


TIMEOUTS = 0


class time_limit:
    def __init__(self, seconds: float):
        self.seconds = seconds

    def _raise(self, *_):
        raise DeepTimeout()

    def __enter__(self):
        self.old = signal.signal(signal.SIGALRM, self._raise)
        signal.setitimer(signal.ITIMER_REAL, self.seconds)

    def __exit__(self, *exc):
        signal.setitimer(signal.ITIMER_REAL, 0)
        signal.signal(signal.SIGALRM, self.old)
        return False


def guarded_call(f: Callable[[], Any], limit: float = RUN_LIMIT):
    """('ok', value) | ('err', class name) — RecursionError, MemoryError and the watchdog included."""
    global TIMEOUTS
    try:
        with time_limit(limit):
            try:
                return ("ok", f())
            except Exception as e:  # noqa: BLE001 — every class is an observation here
                return ("err", type(e).__name__)
    except DeepTimeout:
        TIMEOUTS += 1
        return ("err", f"NoAnswerWithin{limit:g}s")


def drive(gen, cap: int, visit: Callable[[int, Any], None], limit: float = RUN_LIMIT) -> Tuple[int, str]:
    """next() until the generator ends or `cap` values were yielded: (yields, 'ret' | 'run' | 'raise <Class>')."""
    global TIMEOUTS
    count, end = 0, "run"
    try:
        with time_limit(limit):
            while count < cap:
                try:
                    y = next(gen)
                except StopIteration:
                    end = "ret"
                    break
                except Exception as e:  # noqa: BLE001
                    end = "raise " + type(e).__name__
                    break
                visit(count, y)
                count += 1
    except DeepTimeout:
        TIMEOUTS += 1
        end = f"raise NoAnswerWithin{limit:g}s"
    return count, end


def _cfg(y) -> Tuple[Any, str, tuple]:
    return (y.state, y.remaining_input, tuple(y.stack))


def _show(cfg) -> str:
    q, rest, st = cfg
    return f"(state {q!r}, {len(rest)} symbols unread, stack depth {len(st)}, top {st[-1] if st else None!r})"


def _end_word(end: str) -> str:
    return {"ret": "accept (the generator returns)", "run": "still running",
            "raise RejectionException": "reject (RejectionException)"}.get(end, end)


def judge(c: Case, cls: str, m) -> Tuple[List[str], dict]:
    """One real run of `c` as DPDA / NPDA: every yield against the expected level, then count, way of ending,
    last configuration, accepts_input and read_input against the closed form."""
    want_n = c.expected_yields(cls)
    exp = level_run(c)
    wrong: List[str] = []
    st: dict = dict(last=None, peak=0, maxlevel=0)

    def visit(k: int, y):
        try:
            got = [_cfg(y)] if cls == "DPDA" else [_cfg(x) for x in y]
        except Exception:  # noqa: BLE001 — wrong shape of a yielded value
            if not wrong:
                wrong.append(f"yield {k} is not a configuration" + ("" if cls == "DPDA" else " set"))
            return
        st["maxlevel"] = max(st["maxlevel"], len(got))
        for g in got:
            st["peak"] = max(st["peak"], len(g[2]))
        if cls == "NPDA" and not got and c.verdict == "reject" and k == c.moves + 1:
            st["empty_level"] = True          # the empty level an NPDA yields before it rejects
            return
        st["last"] = got
        if wrong:
            return
        try:
            want = next(exp)
        except StopIteration:
            wrong.append(f"a value is yielded at index {k}, after the run has ended (it ends after {c.moves} moves)")
            return
        if (got[0] != want[0]) if len(got) == 1 == len(want) else (len(got) != len(want) or set(got) != set(want)):
            what = (f"configuration {k} is not the one reached by {k} moves" if cls == "DPDA" else
                    f"level {k} is not the set of configurations reachable in {k} moves")
            wrong.append(f"{what}: got {', '.join(_show(g) for g in got[:3]) or 'nothing'}; expected "
                         f"{', '.join(_show(g) for g in want[:3]) or 'nothing'}")

    count, end = drive(m.read_input_stepwise(c.word), want_n + 5, visit)
    info = dict(count=count, end=end, peak=st["peak"], maxlevel=st["maxlevel"])
    if end.startswith("raise ") and end != "raise RejectionException":
        wrong.insert(0, f"read_input_stepwise raises {end[6:]} after {count} of {want_n} yields")
    elif end != c.expected_end():
        wrong.append(f"the run ends with {_end_word(end)} after {count} yields; closed form: "
                     f"{_end_word(c.expected_end())} after {want_n}")
    elif count != want_n:
        wrong.append(f"{count} values yielded, closed form {want_n} ({c.moves} moves)")
    if not wrong:
        if not st["last"] or c.final not in st["last"]:
            wrong.append(f"the last non-empty yield does not hold the closed-form final configuration {_show(c.final)}")
        elif st["peak"] != c.peak:
            wrong.append(f"deepest stack seen {st['peak']}, closed form {c.peak}")
    timed_out = any("NoAnswerWithin" in x for x in wrong)
    if not timed_out:
        acc = guarded_call(lambda: m.accepts_input(c.word))
        info["acc"] = acc
        if acc != ("ok", c.verdict == "accept"):
            wrong.append(f"accepts_input = {acc}, closed-form verdict {c.verdict}")
        rd = guarded_call(lambda: m.read_input(c.word))
        if c.verdict == "reject":
            if rd != ("err", "RejectionException"):
                wrong.append(f"read_input gives {rd[0]} {rd[1] if rd[0] == 'err' else '(a value)'}, "
                             f"closed form: RejectionException")
        else:
            try:
                ok = rd[0] == "ok" and (_cfg(rd[1]) == c.final if cls == "DPDA" else
                                        c.final in {_cfg(x) for x in rd[1]})
            except Exception:  # noqa: BLE001
                ok = False
            if not ok:
                wrong.append("read_input does not return the closed-form final configuration"
                             + (f" (raises {rd[1]})" if rd[0] == "err" else ""))
    return wrong, info


def judge_ctor(v: VCase, DPDA, NPDA) -> Tuple[List[str], dict]:
    """The constructors on a large definition: DPDA must answer `expect`, the NPDA with the same table 'ok'."""
    wrong = []
    d = guarded_call(lambda: DPDA(**v.spec))
    got = "ok" if d[0] == "ok" else d[1]
    if got != v.expect:
        wrong.append(("exactly one row has a lambda-move next to a symbol move for the same stack top" if
                      v.expect != "ok" else "no configuration has two applicable moves")
                     + f": the DPDA constructor answers {got}, expected {v.expect}")
    n = guarded_call(lambda: NPDA(**lift(v.spec)))
    if n[0] != "ok":
        wrong.append(f"the NPDA constructor refuses the same table with {n[1]}")
    return wrong, dict(dpda=got, npda="ok" if n[0] == "ok" else n[1])


# ------------------------------------------------------------------ the plan of one run
def plan(rng: random.Random, thorough: bool) -> Tuple[List[Case], List[VCase]]:
    """A fixed-shape list of cases; sizes, names, words, modes and defect positions are drawn from `rng`.
    Quick: stacks of 1100–3000, words of 1100–3000 symbols, lambda-chains of 1100–1250, tables of 1100–1500 rows,
    rows of 220–320 entries (the determinism check is quadratic in the row)."""
    def sty():
        return rng.randrange(len(STACK_STYLES))

    def qs():
        return rng.randrange(len(STATE_STYLES))

    modes = [("final_state", "fs"), ("empty_stack", "es"), ("both", "fs"), ("both", "es")]

    pools: Dict[bool, list] = {True: [], False: []}

    def mv(accepting_case: bool = True):
        """The four ways of ending dealt round-robin, separately over the accepting and the rejecting cases, so
        that every run accepts at least once in each of them."""
        pool = pools[accepting_case]
        if not pool:
            pool.extend(modes)
            rng.shuffle(pool)
        m, v = pool.pop()
        return dict(mode=m, via=v)

    n1, n2 = rng.randint(1350, 1500), rng.randint(1100, 1200)
    d1, d2 = rng.randint(1100, 1250), rng.randint(1100, 1200)
    p1, p2 = rng.randint(1100, 1250), rng.randint(1100, 1200)
    k1, k2 = rng.randint(1100, 1250), rng.randint(1100, 1150)
    g1, g2 = rng.randint(1100, 1250), rng.randint(1100, 1150)
    pg1, pg2 = rng.randint(1100, 1200), rng.randint(550, 700)
    lp1, lp2 = rng.randint(1500, 3000), rng.randint(1100, 1400)
    seed = lambda: rng.randrange(10 ** 6)   # noqa: E731
    sp = rng.random() < 0.5                  # pushes written as str (needs one-character stack symbols: style 0)
    cases = [
        anbn(n1, n1, sty=0 if sp else sty(), qsty=qs(), strpush=sp, **mv()),
        anbn(n2, n2 + rng.choice([-1, 1]), sty=sty(), qsty=qs(), **mv(False)),
        brackets(d1, rng.randint(2, 4), seed(), "none", 0, sty=sty(), qsty=qs(), same_names=rng.random() < 0.5, **mv()),
        brackets(d2, rng.randint(0, 3), seed(), rng.choice(["flip", "flip", "no_marker", "short"]),
                 rng.randint(1, d2 - 1), sty=sty(), qsty=qs(), **mv(False)),
        palc(p1, seed(), None, sty=0 if not sp else sty(), qsty=qs(), strpush=not sp, **mv()),
        palc(p2, seed(), rng.randrange(p2), sty=sty(), qsty=qs(), **mv(False)),
        lchain(k1, "a", sty=sty(), qsty=qs(), **mv()),
        lchain(k2, rng.choice(["", "aa"]), sty=sty(), qsty=qs(), **mv(False)),
        longpush(lp1, seed(), None, sty=sty(), qsty=qs(), strpush=False, **mv()),
        longpush(lp2, seed(), rng.randrange(lp2), sty=0, qsty=qs(), strpush=True, **mv(False)),
        branchy(g1, g1, sty=sty(), qsty=qs(), **mv()),
        branchy(g2, g2 - 1, sty=sty(), qsty=qs(), **mv(False)),
        palguess(pg1, seed(), False, sty=sty(), qsty=qs(), **mv()),
        palguess(pg2, seed(), True, sty=sty(), qsty=qs(), **mv(False)),
    ]
    K = rng.randint(1100, 1500)
    L1, L2 = rng.randint(220, 320), rng.randint(220, 320)
    vcases = [
        bigtable(K, None, sty(), qs(), rng.random() < 0.5),
        bigtable(K, rng.choice([K - 1, K - 2, rng.randrange(1000, K)]), sty(), qs(), rng.random() < 0.5),
        bigtable(K, rng.choice([0, 1]), sty(), qs(), rng.random() < 0.5),
        widerow(L1, "wide", None, sty()),
        widerow(L1, "wide", rng.choice([[L1 - 1, L1 - 1], [L1 - 1, rng.randrange(L1)], [rng.randrange(200, L1), L1 - 1]]),
                sty()),
        widerow(L2, "tall", None, sty()),
        widerow(L2, "tall", rng.choice([[L2 - 1, L2 - 1], [rng.randrange(200, L2), rng.randrange(200, L2)]]), sty()),
    ]
    if thorough:
        cases += [
            anbn(3000, 3000, sty=sty(), qsty=qs(), **mv()), anbn(2500, 2499, sty=sty(), qsty=qs(), **mv(False)),
            brackets(3000, 8, seed(), "none", 0, sty=sty(), qsty=qs(), **mv()),
            palc(2500, seed(), None, sty=sty(), qsty=qs(), **mv()),
            lchain(3000, "a", sty=sty(), qsty=qs(), **mv()),
            longpush(6000, seed(), None, sty=sty(), qsty=qs(), **mv()),
            branchy(2500, 2500, sty=sty(), qsty=qs(), **mv()),
            palguess(2000, seed(), False, sty=sty(), qsty=qs(), **mv()),
        ]
        vcases += [bigtable(4000, 3999, sty(), qs(), True), widerow(600, "wide", [599, 599], sty())]
    return cases, vcases


def small_twins() -> Tuple[List[Case], List[VCase]]:
    """The same constructions with parameters of 2–5: small enough for the module's textbook oracle, the Lean
    model and a brute-force two-moves test."""
    cases: List[Case] = []
    for i, (mode, via) in enumerate([("final_state", "fs"), ("empty_stack", "es"), ("both", "fs"), ("both", "es")]):
        kw = dict(mode=mode, via=via, sty=i, qsty=i)
        for n in ((2, 3, 5) if i == 0 else (2 + i,)):
            cases += [anbn(n, n, strpush=(i == 0), **kw), anbn(n, n - 1, **kw), anbn(n, n + 1, **kw),
                      branchy(n, n, **kw), branchy(n, n - 1, **kw),
                      palguess(n, 11 * n + i, False, **kw), palguess(n, 7 * n + i, True, **kw),
                      lchain(n, "a", **kw), lchain(n, "", **kw), lchain(n, "aa", **kw),
                      palc(n, 5 * n + i, None, strpush=(i == 0), **kw), palc(n, 3 * n + i, n - 1, **kw),
                      palc(n, 3 * n + i, 0, **kw),
                      longpush(n, 13 * n + i, None, strpush=(i == 0), **kw), longpush(n, 17 * n + i, n - 1, **kw),
                      longpush(n, 17 * n + i, 0, **kw)]
        for d in ((2, 3, 5) if i == 0 else (2 + i,)):
            cases += [brackets(d, d - 2, 19 * d + i, "none", 0, same_names=(i % 2 == 1), **kw),
                      brackets(d, 1, 23 * d + i, "flip", d - 1, **kw), brackets(d, 0, 23 * d + i, "flip", 0, **kw),
                      brackets(d, 2, 29 * d + i, "no_marker", 0, **kw), brackets(d, 1, 31 * d + i, "short", 1, **kw),
                      brackets(d, 0, 31 * d + i, "short", d - 1, **kw)]
    vcases = [bigtable(4, None), bigtable(5, None, lam_first=False), bigtable(4, 3), bigtable(5, 4, lam_first=False),
              bigtable(4, 0), bigtable(5, 1, 1, 1), bigtable(6, 2, 2, 2),
              widerow(3, "wide", None), widerow(3, "wide", [2, 2]), widerow(3, "wide", [0, 1]),
              widerow(3, "tall", None), widerow(3, "tall", [2, 2]), widerow(4, "tall", [1, 3])]
    return cases, vcases
