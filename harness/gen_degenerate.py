"""Degenerate — smallest / emptiest — definitions of the 8 automaton classes (used by ops/C19.py).

The shaped-random generators (harness/gen.py, gen_misc.py) always give the initial state a row and rarely
produce machines with one state, no transitions at all, an empty final set or an empty alphabet.  Library
operations that build a transition table by hand (NFA.union / concatenate / kleene_star / reverse /
eliminate_lambda, DFA._to_complete, the product constructions) have exactly these as their corner cases: a
state that has no row in the operand gets none in the result, an empty table makes a loop body never run,
`next(iter(...))` of an empty set raises, a single-state machine passes the `len(states) > 1` guard of
`_validate_initial_state_transitions` while the two-state result of the operation does not.

`degenerate_defs(cls, alphabet, names)` enumerates (tag, kwargs) — a FIXED list of shapes per class, every
shape in every variant of its final set; the caller keeps those the real constructor accepts (an accepted
definition has to be usable, C19) and sends the others through the validate correspondence only.
"""
from __future__ import annotations

import itertools
from typing import Any, Dict, Iterator, List, Sequence, Tuple

NAME_STYLES = {
    "int": lambda i: i,
    "str": lambda i: f"q{i}",
    "tuple": lambda i: ("s", i),
    "mixed": lambda i: [0, "q1", ("s", 2), frozenset({3})][i % 4],
    "internal": lambda i: [-1, 0, 1, -2][i % 4],   # names the library invents itself (traps, counters)
}


def _subsets(xs: Sequence[Any]) -> List[set]:
    return [set(c) for k in range(len(xs) + 1) for c in itertools.combinations(xs, k)]


def nfa_defs(al: Sequence[str], nm) -> Iterator[Tuple[str, Dict[str, Any]]]:
    q0, q1, q2 = nm(0), nm(1), nm(2)
    S = set(al)

    def mk(states, T, F):
        return dict(states=set(states), input_symbols=set(S), transitions=T, initial_state=q0, final_states=set(F))
    shapes: List[Tuple[str, List[Any], Dict[Any, Any]]] = [
        ("1state-no-table", [q0], {}),
        ("1state-empty-row", [q0], {q0: {}}),
        ("1state-lambda-loop", [q0], {q0: {"": {q0}}}),
        ("1state-empty-lambda-target", [q0], {q0: {"": set()}}),
        ("2states-only-initial-row-empty", [q0, q1], {q0: {}}),
        ("2states-all-rows-empty", [q0, q1], {q0: {}, q1: {}}),
        ("2states-lambda-only", [q0, q1], {q0: {"": {q1}}}),
        ("3states-lambda-chain-rowless-rest", [q0, q1, q2], {q0: {"": {q1}}}),
        ("2states-no-table", [q0, q1], {}),  # refused (initial state without a row): correspondence only
    ]
    if al:
        a = al[0]
        shapes += [
            ("1state-full-loop", [q0], {q0: {s: {q0} for s in al}}),
            ("1state-empty-target-set", [q0], {q0: {a: set()}}),
            ("2states-final-rowless", [q0, q1], {q0: {a: {q1}}}),
            ("2states-back-edge-initial-rowless-target", [q0, q1], {q0: {a: {q0, q1}, "": {q1}}}),
            ("3states-isolated-rowless", [q0, q1, q2], {q0: {a: {q1}}, q1: {a: set()}}),
        ]
    for tag, st, T in shapes:
        for F in _subsets(st):
            yield (f"{tag}/F={len(F)}of{len(st)}" + ("+init" if q0 in F else ""), mk(st, {k: dict(r) for k, r in T.items()}, F))


def dfa_defs(al: Sequence[str], nm) -> Iterator[Tuple[str, Dict[str, Any]]]:
    q0, q1, q2 = nm(0), nm(1), nm(2)
    S = set(al)

    def mk(states, T, F, partial):
        return dict(states=set(states), input_symbols=set(S), transitions=T, initial_state=q0, final_states=set(F),
                    allow_partial=partial)
    shapes: List[Tuple[str, List[Any], Dict[Any, Any], Tuple[bool, ...]]] = [
        ("1state-empty-row", [q0], {q0: {}}, (True, False)),       # complete iff the alphabet is empty
        ("1state-no-table", [q0], {}, (True,)),                       # refused: correspondence only
        ("2states-all-rows-empty", [q0, q1], {q0: {}, q1: {}}, (True, False)),
        ("1state-full-loop", [q0], {q0: {s: q0 for s in al}}, (True, False)),
        ("2states-complete-swap", [q0, q1], {q0: {s: q1 for s in al}, q1: {s: q0 for s in al}}, (True, False)),
        ("2states-sink", [q0, q1], {q0: {s: q1 for s in al}, q1: {s: q1 for s in al}}, (True, False)),
    ]
    if al:
        a = al[0]
        shapes += [
            ("2states-one-edge", [q0, q1], {q0: {a: q1}, q1: {}}, (True,)),
            ("3states-unreachable-rowed", [q0, q1, q2], {q0: {a: q0}, q1: {a: q2}, q2: {}}, (True,)),
        ]
    for tag, st, T, partials in shapes:
        for F in _subsets(st):
            for p in partials:
                yield (f"{tag}/F={len(F)}of{len(st)}" + ("+init" if q0 in F else "") + ("/partial" if p else "/complete"),
                       mk(st, {k: dict(r) for k, r in T.items()}, F, p))


def gnfa_defs(al: Sequence[str], nm) -> Iterator[Tuple[str, Dict[str, Any]]]:
    q0, q1, q2 = nm(0), nm(1), nm(2)
    S = set(al)
    labels = [None, ""] + ([al[0]] if al else [])
    for lab in labels:
        yield (f"2states/label={lab!r}", dict(states={q0, q1}, input_symbols=set(S), transitions={q0: {q1: lab}},
                                             initial_state=q0, final_state=q1))
        yield (f"2states-final-empty-row/label={lab!r}",
               dict(states={q0, q1}, input_symbols=set(S), transitions={q0: {q1: lab}, q1: {}},
                    initial_state=q0, final_state=q1))
        yield (f"3states-all-{lab!r}", dict(states={q0, q1, q2}, input_symbols=set(S),
                                            transitions={q0: {q1: lab, q2: lab}, q2: {q1: lab, q2: lab}},
                                            initial_state=q0, final_state=q1))
    yield ("2states-no-table", dict(states={q0, q1}, input_symbols=set(S), transitions={}, initial_state=q0,
                                    final_state=q1))


def pda_defs(al: Sequence[str], nm, deterministic: bool) -> Iterator[Tuple[str, Dict[str, Any]]]:
    q0, q1 = nm(0), nm(1)
    S = set(al)
    shapes = [("1state-no-table", [q0], {}), ("1state-empty-row", [q0], {q0: {}}),
              ("2states-only-initial-row-empty", [q0, q1], {q0: {}}), ("2states-no-table", [q0, q1], {})]
    lam = (q0, "") if deterministic else {(q0, "")}
    shapes.append(("1state-pop-on-lambda", [q0], {q0: {"": {"Z": lam}}}))
    if al:
        shapes.append(("1state-empty-stack-map", [q0], {q0: {al[0]: {}}}))
    for tag, st, T in shapes:
        for F in _subsets(st):
            for mode in ("final_state", "empty_stack", "both"):
                yield (f"{tag}/F={len(F)}of{len(st)}/{mode}",
                       dict(states=set(st), input_symbols=set(S), stack_symbols={"Z"},
                            transitions={k: {a: dict(m) for a, m in r.items()} for k, r in T.items()},
                            initial_state=q0, initial_stack_symbol="Z", final_states=set(F), acceptance_mode=mode))


def tm_defs(al: Sequence[str], nm, kind: str) -> Iterator[Tuple[str, Dict[str, Any]]]:
    q0, q1 = nm(0), nm(1)
    S = set(al)
    blank = "."
    shapes = [("1state-no-table", [q0], {}), ("1state-empty-row", [q0], {q0: {}}),
              ("2states-only-initial-row-empty", [q0, q1], {q0: {}}), ("2states-no-table", [q0, q1], {})]
    tapes = (1, 2) if kind == "MNTM" else (1,)
    for n_tapes in tapes:
        if kind == "DTM":
            halt = {q0: {blank: (q1, blank, "N")}}
        elif kind == "NTM":
            halt = {q0: {blank: {(q1, blank, "N")}, **({al[0]: set()} if al else {})}}
        else:
            halt = {q0: {(blank,) * n_tapes: [(q1, tuple((blank, "N") for _ in range(n_tapes)))]}}
        for tag, st, T in shapes + [("2states-halt-on-blank", [q0, q1], halt)]:
            for F in _subsets(st):
                kw = dict(states=set(st), input_symbols=set(S), tape_symbols=set(S) | {blank},
                          transitions={k: dict(r) for k, r in T.items()}, initial_state=q0, blank_symbol=blank,
                          final_states=set(F))
                if kind == "MNTM":
                    kw["n_tapes"] = n_tapes
                yield (f"{tag}/F={len(F)}of{len(st)}" + ("+init" if q0 in F else "")
                       + (f"/{n_tapes}tapes" if kind == "MNTM" else ""), kw)


def degenerate_defs(cls: str, alphabet: Sequence[str], style: str = "int") -> Iterator[Tuple[str, Dict[str, Any]]]:
    nm = NAME_STYLES[style]
    al = list(alphabet)
    if cls == "NFA":
        return nfa_defs(al, nm)
    if cls == "DFA":
        return dfa_defs(al, nm)
    if cls == "GNFA":
        return gnfa_defs(al, nm)
    if cls in ("DPDA", "NPDA"):
        return pda_defs(al, nm, cls == "DPDA")
    return tm_defs(al, nm, cls)
