"""C10 — regular expressions compile to an NFA with exactly the denoted language.

Correspondence (real code vs. Lean model through drv_regex):
  RX_POSTFIX  token stream after lexing, verdict of validate_tokens, stream after
              add_concat_and_empty_string_tokens, stream after tokens_to_postfix  — exactly;
  RX_COMPILE  NFA.from_regex(s, input_symbols=Σ) — exception class, or the NFA up to
              isomorphism (state names come from a counter through hash-ordered sets).
Property on the real code, independent of the model: for an AST `e` rendered to `s`
(with redundant parentheses / blanks), the real NFA accepts exactly den(e):
  (1) brute force on every word of length ≤ N through the real accepts_input against a
      20-line set semantics of the AST,
  (2) exact language comparison of the real transition table with Brzozowski derivatives
      of the AST.
"""
from __future__ import annotations

import itertools
import json
from itertools import count
from typing import Optional, Sequence

from automata.fa.nfa import NFA
from automata.regex import parser as rxparser
from automata.regex.postfix import tokens_to_postfix, validate_tokens

from harness import rx_common as R
from harness import rx_deep as D
from harness import rx_sequences as S
from harness.common import Ctx, InfraError, Toks, call, toks

LEVEL = "proof"
RULE = ("cases = (AST of the documented syntax, concrete rendering with redundant parentheses/blanks — also blanks "
        "inside quantifier braces and leading zeros in bounds —, alphabet); "
        "round 3, run first: 700 (thorough 6000) PROGRAMS of 1–5 calls over an alphabet no earlier call of the process has "
        "touched (validate / a tiny compile / a call that must raise first, then from_regex with the explicit or the default "
        "alphabet, sometimes again / over Σ∪{x} / a second expression; `()` in 70 % of the expressions), every compiled NFA judged "
        "by both oracles and compared with the model; then "
        "round 7, DEEP / LARGE expressions (harness/rx_deep.py): 22 texts of up to 9000 characters per run built from small "
        "specs — a concatenation / an alternation of 1100–3000 literals, parentheses nested 300–2000 deep (left-nested and "
        "right-nested a(b(a(…)))), 140–300 chained postfix operators, bounds a{k,k} a{0,k} a{,k} (ab){k,} a{k-d,k} with k in "
        "1100–3000 (also with blanks / leading zeros inside the braces), a unit of 150–400 literals repeated {2,3}, shuffle "
        "chains (1100–3000 empty groups; a{k,k}^b; a{k,k}^b{k,k}; 9–10 distinct literals), intersection chains (1100–3000 "
        "operands; a{0,k}&a{m,}), 1100–1500 wildcards / groups (a|b), thousands of blanks — over the default, the exact and "
        "a larger explicit alphabet; judged by a CLOSED FORM of the language (lengths, counts, one fixed word) on words "
        "around the thresholds through the real accepts_input, plus regex.validate, NFA.validate and a structural reading of "
        "validity; no model round trip for these; each spec also runs as a small twin (parameters 2–4) where the closed form "
        "must equal the set semantics of the AST and the twin goes through both language oracles and the model; then "
        "corpus of past defects, then every AST of depth ≤1 over {a,b} with all bounds from {∅,0,1,2,3} in three "
        "renderings (thorough: depth ≤2 with a reduced bound set), then shaped random ASTs of depth ≤4 with bounds "
        "from {∅,0..6,007,10,12} over alphabets of 1–7 symbols incl. the characters 1 , - é 𝒳; "
        "non-trivial = the AST has ≥2 operator nodes and denotes ≥2 words of length ≤N; "
        "distinct = distinct (string, alphabet)")
ASSUMPTIONS = [
    "symbols are single non-blank, non-reserved characters; repetition bounds are ASCII decimal numerals",
    "Python re / int() / set / dict are modelled by hand (trusted); compiled NFAs are compared up to isomorphism "
    "AND on their sets of state names (the counter is reproduced; only the assignment inside a renamed block may "
    "be permuted)",
    "the property is about inputs, so no result may depend on earlier calls: a failing case is re-run as the first call of a "
    "fresh interpreter; if it does not fail there its replay is the recorded calls of the run over the same alphabet "
    "(else all recorded calls) followed by the case",
    "repetition bounds in the small generated cases are ≤12 (the theorems have no bound); NFAs with more than 140 states are "
    "skipped there (counted, and reported as a note)",
    "deep / large family: the verdict is a closed form of the language written from the construction parameters and probed "
    "on ~7 words per instance around the thresholds (not an exact language comparison); the Lean model is not consulted on "
    "these sizes; alternations of more than 1300 literals are read by an own walk of the compiled table because the "
    "library's lambda closures are quadratic on their ε-chain; sizes the unchanged library cannot build in seconds are "
    "excluded and named in the stats (intersection chains of multi-symbol or starred operands: exponential state count; "
    "more than 300 chained postfix operators: cubic deep copies)",
]
EXPLANATION = ("C10_* theorems: the builder model's NFA accepts exactly den(e) for every AST, the pipeline "
               "lexer→validator→concat insertion→shunting-yard→postfix evaluation yields that builder run; "
               "this run ties the model to the code stage by stage and evaluates the property itself on the real NFA. "
               "The theorems hold for expressions of every size; the code is only tied to the model on small ones, so a "
               "deep / large family additionally compiles expressions with thousands of tokens, nesting depth up to 2000 "
               "and bounds up to 3000 through the real from_regex and judges them by closed forms (a size threshold in the "
               "code — recursion limit, bounded cache, fixed buffer, cut-off — is an in-domain failing input).")

MAX_STATES = 140

CORPUS = [
    # F4 (fixed ba647c6): upper bound 0
    (("rep", ("lit", "a"), 0, 0), "ab"), (("rep", ("lit", "a"), None, 0), "ab"),
    (("cat", ("rep", ("lit", "a"), 0, 0), ("lit", "b")), "ab"),
    (("rep", ("cat", ("lit", "a"), ("lit", "b")), 0, 0), "ab"),
    (("star", ("rep", ("lit", "a"), 0, 0)), "ab"),
    (("rep", ("star", ("lit", "a")), 0, 0), "ab"),
    (("rep", ("rep", ("lit", "a"), 1, 2), None, 0), "ab"),
    # repeat needs "no transition enters the initial state": lower bound 0 over loops
    (("rep", ("star", ("lit", "a")), 0, 2), "ab"), (("opt", ("plus", ("lit", "a"))), "ab"),
    (("rep", ("plus", ("cat", ("lit", "a"), ("lit", "b"))), 0, 1), "ab"),
    (("rep", ("rep", ("lit", "a"), 2, None), 0, 2), "ab"),
    (("rep", ("lit", "a"), 4, None), "a"), (("rep", ("lit", "a"), 3, 3), "a"),
    # precedence: postfix > concat > {| & ^} (one level, left associative)
    (("alt", ("cat", ("lit", "a"), ("star", ("lit", "b"))), ("lit", "a")), "ab"),
    (("and", ("alt", ("lit", "a"), ("lit", "b")), ("lit", "b")), "ab"),
    (("alt", ("lit", "a"), ("and", ("lit", "b"), ("lit", "b"))), "ab"),
    (("shuf", ("alt", ("lit", "a"), ("lit", "b")), ("lit", "a")), "ab"),
    (("cat", ("lit", "a"), ("cat", ("lit", "b"), ("lit", "a"))), "ab"),
    (("cat", ("alt", ("lit", "a"), ("lit", "b")), ("lit", "a")), "ab"),
    (("star", ("and", ("star", ("lit", "a")), ("plus", ("lit", "a")))), "ab"),
    (("star", ("shuf", ("lit", "a"), ("lit", "b"))), "ab"),
    (("cat", ("and", ("lit", "a"), ("lit", "b")), ("lit", "a")), "ab"),
    (("cat", ("any",), ("eps",)), "ab"), (("shuf", ("eps",), ("eps",)), "ab"),
    # larger / multi-digit / leading-zero bounds (7 is spelled 007)
    (("rep", ("lit", "a"), 10, 12), "a"), (("rep", ("alt", ("lit", "a"), ("lit", "b")), 7, None), "ab"),
    (("rep", ("cat", ("lit", "a"), ("opt", ("lit", "b"))), 5, 6), "ab"), (("rep", ("lit", "a"), None, 10), "ab"),
    (("rep", ("rep", ("lit", "a"), 2, 3), 4, 4), "a"), (("cat", ("rep", ("any",), 6, 6), ("lit", "b")), "ab"),
    # symbols that also occur inside quantifier braces, non-ASCII, non-BMP
    (("rep", ("lit", "1"), 1, 2), "1,"), (("cat", ("rep", ("lit", ","), 1, 2), ("lit", ",")), "1,"),
    (("alt", ("cat", ("lit", "-"), ("lit", "1")), ("rep", ("lit", ","), 0, 1)), "1,-"),
    (("star", ("alt", ("lit", "\u00e9"), ("lit", "\U0001d4b3"))), "\u00e9\U0001d4b3"),
    (("shuf", ("lit", "\U0001d4b3"), ("rep", ("any",), 1, 2)), "a\u00e9\U0001d4b3-,"),
]
RAW_CORPUS = ["", " ", "\t ", "()", "( )", "(())", "a{0,0}", "a{,0}", "a{ 1 , 2 }", "a{1,2}{0,1}", "a**", "a+?",
              "(a|b)&(b|a)", "a^b^a", "a|b&a^b", ".{2,}", "a{2}", "a{2,1}", "a{-1,2}", "a{x,2}", "a{", "a}", "a|", "|a",
              "(a", "a)", ")(", "(|a)", "(a|)", "a(*)", "a\nb", "a{1\n,2}", "é*", "a,b", "a{1_0,}",
              "a{ 1 ,\t2 }", "a{ ,2}", "a{1, }", "a{007,010}", "a{ 007 , }", "1{1,1}1", ",{,1},", "-{1,}", "𝒳{2,2}é"]


BLANK_ONLY = [""] + ["".join(t) for k in (1, 2, 3) for t in itertools.product(" \t", repeat=k)]


def n_words(sigma) -> int:
    k = len(sigma)
    return 5 if k <= 2 else (4 if k == 3 else (3 if k <= 7 else 2))


def stage_observe(s: str, sigma):
    """Real intermediate stages of parse_regex on `s`."""
    out = {}
    ctr = count(0)
    lexer = rxparser.get_regex_lexer(sigma, ctr)
    lx = call(lambda: lexer.lex(s))
    if lx[0] == "err":
        out["lex"] = lx
        return out
    tokens = lx[1]
    out["lex"] = ("ok", [R.canon_token(t) for t in tokens])
    out["valid"] = call(lambda: validate_tokens(tokens))
    withc = rxparser.add_concat_and_empty_string_tokens(tokens, ctr)
    out["concat"] = [R.canon_token(t) for t in withc]
    pf = call(lambda: tokens_to_postfix(withc))
    out["postfix"] = ("ok", [R.canon_token(t) for t in pf[1]]) if pf[0] == "ok" else pf
    return out


def stage_model(ctx: Ctx, s: str):
    t = Toks(ctx.driver("drv_regex").ask(toks("RX_POSTFIX", R.enc_str(s))))
    out = {}
    t.expect("lex")
    out["lex"] = R.read_res_tokens(t)
    if out["lex"][0] == "err":
        return out
    t.expect("valid")
    out["valid"] = t.res(lambda: None)
    t.expect("concat")
    out["concat"] = R.read_tokens(t)
    t.expect("postfix")
    out["postfix"] = R.read_res_tokens(t)
    return out


def model_compile(ctx: Ctx, s: str, sigma):
    t = Toks(ctx.driver("drv_regex").ask(toks("RX_COMPILE", R.enc_str(s), R.enc_syms(sigma))))
    return t.res(t.nfa)


def property_on_real(nfa, e, sigma: Sequence[str], n: Optional[int] = None, ctx: Optional[Ctx] = None):
    """None if the real NFA accepts exactly den(e) (as far as the two oracles can tell), else a
    description + the failing word."""
    sig = sorted(sigma)
    n = n_words(sig) if n is None else n
    want = R.den_words(e, sig, n)
    brute = None
    for w in R.words_upto(sig, n):
        got = nfa.accepts_input(w)
        if got != (w in want):
            brute = (w, w in want)
            break
    try:
        exact = R.nfa_vs_ast(nfa, e, sig)
    except R.OracleBudget:
        exact = "budget"
        if ctx is not None:
            ctx.stat("oracle_budget_fallback")     # only the brute-force oracle (words of length ≤ N) judged this case
    if brute is None and exact not in (None, "budget"):
        w, verdict = exact
        # the shortest distinguishing word is longer than N: confirm it through the real reader
        # and a third, structural-recursion membership test
        if len(w) <= 14 or "shuf" not in R.ops_of(e):
            confirmed = R.matches(e, w, sig) == verdict
        else:
            confirmed = True      # third oracle too expensive (2^|w| splits for shuffle): derivatives trusted
            if ctx is not None:
                ctx.stat("long_shuffle_witness_unconfirmed")
        if confirmed and nfa.accepts_input(w) != verdict:
            brute = (w, verdict)
        elif confirmed:
            # the transition table of the compiled NFA is wrong on w (two independent oracles), but the
            # library's own reader does not follow the table there: the reader is broken as well (C01).
            # Still a failing input for C10 — the NFA as defined does not denote the expression.
            brute = (w, verdict)
            if ctx is not None:
                ctx.stat("table_wrong_reader_disagrees_with_table")
        else:
            raise InfraError(f"oracles disagree on {e!r}: derivatives say {exact}, structural membership does not confirm")
    if brute is not None and exact is None:
        # accepts_input answers wrongly although the compiled table denotes the expression exactly:
        # on this tree the reader (C01) is what is broken; through the public API the property still
        # fails on this input (a user asking `in` / accepts_input gets the wrong answer), so it is
        # reported, with the cause named
        if ctx is not None:
            ctx.stat("reader_disagrees_with_correct_table")
    return brute


# Every call into the regex code made by check_case in this process, in order, as replayable steps (see
# harness/rx_sequences.py): if a failing case turns out to depend on the calls made before it, they are its replay.
CALLS: list = []


def fail_case(ctx: Ctx, what: str, replay_dict: dict):
    n = len(ctx.prop_fails)
    ctx.prop_fail(what, replay_dict, None)
    if len(ctx.prop_fails) > n:
        ctx.prop_fails[-1]["_calls"] = len(CALLS)       # the log up to and including this case's from_regex call


def check_case(ctx: Ctx, s: str, sigma, e, origin: str, style: str = "raw"):
    """One (string, alphabet[, AST]) case: stages, compile, property."""
    sig = None if sigma is None else frozenset(sigma)
    judged = e if (e is not None and (sig is None or R.lits_of(e) <= sig)) else None
    CALLS.append(dict(op="compile", re=s, input_symbols=None if sig is None else sorted(sig), valid=None, ast=judged))
    real = call(lambda: NFA.from_regex(s, input_symbols=sig))
    ctx.stat(origin)
    ctx.stat("style_" + style)
    if real[0] == "ok" and len(real[1].states) > MAX_STATES:
        ctx.stat("skipped_too_many_states")
        return
    eff_sigma = sorted(real[1].input_symbols) if real[0] == "ok" else (sorted(sig) if sig is not None else None)
    case = dict(regex=s, input_symbols=None if sigma is None else sorted(sigma), ast=e)
    # --- property on the real code
    failed = False
    nontrivial = None
    if e is not None:
        lits = R.lits_of(e)
        in_domain = sig is None or lits <= sig
        for k in R.ops_of(e):
            ctx.stat("op_" + k)
        ctx.stat(f"depth_{R.depth(e)}")
        if in_domain:
            if real[0] == "err":
                fail_case(ctx, f"valid expression {s!r} does not compile: {real[1]}", dict(case, kind="compile"))
                failed = True
            else:
                bad = property_on_real(real[1], e, eff_sigma, ctx=ctx)
                nw = len(R.den_words(e, eff_sigma, n_words(eff_sigma)))
                ctx.stat("lang_empty" if nw == 0 else ("lang_one_word" if nw == 1 else "lang_many"))
                if R.size(e) >= 3 and nw >= 2:
                    nontrivial = (s, tuple(eff_sigma))
                if bad is not None:
                    w, verdict = bad
                    fail_case(
                        ctx,
                        f"NFA.from_regex({s!r}, input_symbols={eff_sigma}) {'rejects' if verdict else 'accepts'} {w!r} "
                        f"but the expression {'denotes' if verdict else 'does not denote'} it",
                        dict(case, kind="language", word=w, denoted=verdict))
                    failed = True
        else:
            ctx.stat("literal_outside_alphabet")
    ctx.case(nontrivial)
    if real[0] == "err":
        ctx.stat("err_" + real[1])
    else:
        ns = len(real[1].states)
        ctx.stat("states_le5" if ns <= 5 else ("states_le20" if ns <= 20 else "states_gt20"))
    # --- correspondence: stages
    stage_sigma = sig if sig is not None else frozenset(s) - rxparser.RESERVED_CHARACTERS
    CALLS.append(dict(op="stages", re=s, input_symbols=sorted(stage_sigma)))
    so = stage_observe(s, stage_sigma)
    sm = stage_model(ctx, s)
    so_c = {k: (v if not (isinstance(v, tuple) and v[0] == "ok" and v[1] is None) else ("ok", None)) for k, v in so.items()}
    if so_c != sm and not failed:
        ctx.corr_diff("RX_POSTFIX", case, so_c, sm)
    # --- correspondence: compiled NFA
    compare_compiled(ctx, case, s, sigma, real, failed)
    if ctx.evaluations % 1499 == 7:
        ctx.sample(dict(regex=s, alphabet=eff_sigma, ast=repr(e), states=(len(real[1].states) if real[0] == "ok" else real[1]),
                        postfix=so.get("postfix")))


def compare_compiled(ctx: Ctx, case: dict, s: str, sigma, real, failed: bool):
    """RX_COMPILE: the real result of from_regex against the model's (exception class, or isomorphism + names)."""
    mod = model_compile(ctx, s, None if sigma is None else list(sigma))
    if real[0] == "err" or mod[0] == "err":
        same = real[0] == mod[0] and real[1] == mod[1]
    else:
        pr = R.plain_real_nfa(real[1])
        same = R.nfa_iso(pr, mod[1])
        if same and set(pr["states"]) != set(mod[1]["states"]):
            same = False                      # isomorphic, but the counter / name block is not reproduced
            ctx.stat("names_differ")
    if not same and not failed:
        ctx.corr_diff("RX_COMPILE", case,
                      real[1] if real[0] == "err" else repr(real[1])[:600],
                      mod[1] if mod[0] == "err" else json.dumps(mod[1], default=sorted)[:600])


STYLES = ("min", "full", "blank")
# alphabets of the shaped-random stream: small ones (long words reachable by brute force), symbols that are a
# digit / comma / minus (they also occur inside quantifier braces), non-ASCII and non-BMP symbols, and two
# alphabets with ≥5 symbols
ALPHABETS = ["ab", "ab", "ab", "abc", "a", "ba", "a1,", "\u00e9\U0001d4b3-", "abcde", "ab1,-\u00e9\U0001d4b3"]


def max_bound(e) -> int:
    m = 0
    if e[0] == "rep":
        m = max(e[2] or 0, e[3] or 0)
    return max([m] + [max_bound(x) for x in e[1:] if isinstance(x, tuple)])


def final_notes(ctx: Ctx):
    """Silent degradations become notes of the evidence."""
    k = ctx.stats.get("oracle_budget_fallback", 0)
    if k:
        ctx.note(f"{k} case(s): the exact derivative oracle hit its budget; those were judged by the brute-force "
                 f"oracle only (every word of length ≤N through the real accepts_input)")
    k = ctx.stats.get("skipped_too_many_states", 0)
    if k:
        ctx.note(f"{k} generated case(s) skipped before property and correspondence: the compiled NFA has more than "
                 f"{MAX_STATES} states")
    k = ctx.stats.get("long_shuffle_witness_unconfirmed", 0)
    if k:
        ctx.note(f"{k} case(s): a distinguishing word longer than 14 symbols under shuffle was confirmed by the real "
                 f"reader against the derivative oracle only (third oracle skipped)")


def _language(nfa, e, sig):
    return property_on_real(nfa, e, sig)


def _stages_step(st: dict):
    stage_observe(st["re"], frozenset(st["input_symbols"]))


def judge_program_json(text: str):
    """Entry point of the fresh-interpreter confirmation and of `replay`: run a recorded program of calls through the
    real library; every from_regex step that carries an AST is judged by the two language oracles, every step of the
    deep family (op "deep": spec + probe words) by its closed form."""
    try:
        return S.judge_steps(json.loads(text), language=_language,
                             extra_ops={"stages": _stages_step, "deep": lambda st: D.judge_step(st, deep_guard)})
    except S.Skip:
        return []


def fresh_alphabet_sequences(ctx: Ctx):
    """Round 3: short programs of calls — validate / a small compile / a call that raises, then from_regex (explicit
    or default alphabet), possibly again / over a larger alphabet / a second expression — each over an alphabet NO
    earlier call of this process has touched, `()` in most expressions (harness/rx_sequences.py).  Must run before
    every other family.  Every compiled NFA is judged by the brute-force and the derivative oracle of its own AST;
    afterwards the NFA of each compile step is compared with the model's (RX_COMPILE: isomorphism and state names —
    the names come from a counter that every call starts at 0)."""
    rng = ctx.rng
    used: set = set()
    failing: list = []
    for _ in range(ctx.budget(700, 6000)):
        prog = S.gen_program(rng, used, "compile", _rewrite)
        if prog is None:
            ctx.stat("seq_no_fresh_alphabet")
            continue
        steps = prog["steps"]
        used.update(S.touched_alphabets(steps))
        CALLS.extend(S.clean(steps))
        bad = S.judge_steps(steps, language=_language)
        ctx.stat("sequence")
        ctx.stat(f"seq_steps_{len(steps)}")
        ctx.stat(f"seq_alphabet_size_{min(len(prog['sigma']), 6)}")
        for tg in prog["tags"]:
            ctx.stat("seq_" + tg)
        ctx.case(json.dumps(S.clean(steps), sort_keys=True) if len(steps) >= 2 else None)
        if bad:
            ctx.stat("seq_failing_program")
            failing.append((prog, bad, len(CALLS)))
            continue
        for st in steps:
            if st["op"] == "compile" and "_nfa" in st:
                compare_compiled(ctx, dict(regex=st["re"], input_symbols=st["input_symbols"], origin="sequence"),
                                 st["re"], st["input_symbols"], ("ok", st["_nfa"]), False)
        if ctx.evaluations % 97 == 5:
            ctx.sample(dict(sequence=S.clean(steps)))
    S.report_failing(ctx, failing)


def _rewrite(rng, e):
    """A second expression for the programs (C10 judges every expression on its own; any AST will do)."""
    r = rng.random()
    if r < 0.3:
        return ("alt", e, ("eps",))
    if r < 0.5:
        return ("opt", e)
    if r < 0.7:
        return ("cat", ("eps",), e)
    return ("star", e)



# ---------------------------------------------------------------------------------------------------------------
# Round 7: DEEP / LARGE expressions.  Everything above generates expressions of ≤ 14 AST nodes with bounds ≤ 12:
# a change that only breaks beyond a SIZE THRESHOLD — a loop of the lexer / validator / shunting-yard / postfix
# evaluation / builder rewritten as recursion (Python gives up near 1000 frames), a bare functools.lru_cache
# (128 entries) or a fixed-size buffer on a helper, an early cut-off of a bound or of the text, a quadratic copy —
# is invisible there.  This family compiles a handful of expressions of 1000–9000 characters through the real
# NFA.from_regex: long concatenations / alternations, parentheses nested up to 2000 deep (left and right), chains of
# postfix operators, repetition bounds in the thousands, shuffle / intersection chains, long runs of blanks
# (harness/rx_deep.py).  Their languages are known in CLOSED FORM from the construction parameters, so the verdict
# needs neither the library nor the Lean model: NO model round trip is made for these cases (stat
# `deep:closed_form_oracle_no_model_round_trip`).  Per instance: from_regex must return, regex.validate must accept
# the text, the returned NFA must pass its own validate() and an independent structural reading of "valid NFA over
# the alphabet", and the real accepts_input must agree with the closed form on words around the thresholds (the
# word itself, one symbol less / more / changed, the bounds ± 1, a foreign symbol).  The closed form is tied to the
# module's oracles by SMALL TWINS: the same spec with parameters 2–4 is (a) compared with the set semantics of its
# AST on every word up to the brute-force length and (b) sent through check_case — both language oracles on the
# real NFA and the full model correspondence.
# A wrong answer is re-asked on a newly built instance, alone; its replay is the spec + that one probe word, and
# settle_replays confirms it in a fresh interpreter like every other failure.  Every library call runs under a
# wall-clock / memory watchdog, so "no answer" is an observation.
DEEP_TIMEOUT_S = 20
DEEP_STATE = dict(timeouts=0)


def deep_guard(f):
    from harness.dfa_query_lib import guarded
    r = guarded(f, DEEP_TIMEOUT_S)
    if r == ("err", "_Timeout"):
        DEEP_STATE["timeouts"] += 1
    return r


def deep_plan(rng, thorough: bool) -> list:
    """Specs of one run.  Sizes measured on the unchanged library (notes/C10.md): 1100–3000 where from_regex and the
    reader are linear; alternation through the real reader ≤ 1200 (its lambda closures are quadratic on the ε-chain
    of the union states), larger ones through an own walk of the compiled table; postfix-operator chains 140–300
    (repeat() deep-copies the whole fragment per operator: cubic for '*')."""
    sig = lambda: rng.choice(["default", "explicit", "larger"])
    r = rng.randint
    plan = [
        dict(kind="cat", n=r(1100, 3000), style=rng.choice(["plain", "plain", "blank", "tab"]), sigma=sig()),
        dict(kind="alt", n=r(1100, 1200), style="plain", sigma=rng.choice(["default", "explicit"])),
        dict(kind="alt", n=r(2000, 3000), style=rng.choice(["plain", "blank"]), sigma=sig()),
        dict(kind="nest", n=r(300, 2000), sigma=sig()),
        dict(kind="nest", n=r(1100, 2000), sigma=sig()),
        dict(kind="rnest", n=r(1100, 2000), sigma=sig()),
        dict(kind="chain", n=r(140, 160), ops=["*", "?"], sigma=rng.choice(["explicit", "larger"])),
        dict(kind="chain", n=r(200, 300), ops=rng.choice([["?"], ["+"], ["{1,1}"], ["+", "{1,}"], ["?", "{0,1}", "{,1}"]]),
             sigma=sig()),
        dict(kind="rep", n=0, unit="a", lo=None, hi=None, pad=rng.random() < 0.4, sigma=sig()),     # exact, filled below
        dict(kind="rep", n=0, unit="a", lo=rng.choice([0, None]), hi=r(1100, 3000), pad=rng.random() < 0.3, sigma=sig()),
        dict(kind="rep", n=0, unit="ab", lo=r(600, 1500), hi=None, pad=rng.random() < 0.3, sigma=sig()),
        dict(kind="rep", n=0, unit=rng.choice(["a", "ab"]), lo=None, hi=None, pad=False, sigma=sig()),   # window, filled below
        dict(kind="rep", n=0, unit=["abc", r(150, 400)], lo=r(2, 3), hi=rng.choice([3, 4, None]), pad=False, sigma=sig()),
        dict(kind="shuf_eps", n=r(1100, 3000), m=8, sigma=sig()),
        dict(kind="shuf2", n=r(600, 1200), m=1, sigma=sig()),
        dict(kind="shuf2", n=r(30, 40), m=r(30, 40), sigma=sig()),
        dict(kind="shuf_lits", n=r(9, 10), sigma=sig()),
        dict(kind="and_chain", n=r(1100, 3000), sigma=sig()),
        dict(kind="and_window", n=0, m=0, sigma=sig()),
        dict(kind="wild", n=r(1100, 1500), sigma=rng.choice(["explicit", "larger"])),
        dict(kind="cat_alts", n=r(1100, 1500), sigma=sig()),
        dict(kind="pad", n=r(1100, 2000), sigma=sig()),
    ]
    k = r(1100, 3000)
    plan[8].update(lo=k, hi=k)
    k = r(1100, 1500)
    plan[11].update(lo=k - r(1, 100), hi=k)
    k = r(1100, 1200)
    plan[18].update(n=k, m=k - r(1, 100))
    for s in plan:
        if s["kind"] == "rep":
            s["n"] = max(s["lo"] or 0, s["hi"] or 0) if isinstance(s["unit"], str) else s["unit"][1]
    if thorough:
        plan = plan + [dict(s, sigma=sig()) for s in deep_plan(rng, False)] + [
            dict(kind="chain", n=r(200, 300), ops=o, sigma=sig()) for o in (["?"], ["+"], ["{1,1}"], ["+", "{1,}"], ["{0,}", "?"])]
    return plan


def deep_twin(ctx: Ctx, spec: dict):
    """The closed form against the module's set-semantics oracle on a small twin, then the twin through check_case
    (both language oracles on the real NFA + the model correspondence)."""
    t = D.twin_spec(spec, ctx.rng)
    inst = D.DeepRx(t)
    e = inst.ast()
    sig = sorted(inst.expected_symbols() | inst.alpha)
    n = n_words(sig)
    want = R.den_words(e, sig, n)
    for w in R.words_upto(sig, n):
        if inst.member(w) != (w in want):
            raise InfraError(f"C10 deep family: closed form and set semantics disagree on {w!r} for {inst.re!r} (spec {t})")
    for p in inst.probes:
        w = D.word(p)
        if set(w) <= set(sig) and len(w) <= 7 and inst.member(w) != R.matches(e, w, sig):
            raise InfraError(f"C10 deep family: closed form and structural membership disagree on {w!r} for {inst.re!r}")
    ctx.stat("deep:small_twin")
    ctx.stat("deep:small_twin_closed_form_equals_set_semantics")
    sigma = inst.sigma()
    check_case(ctx, inst.re, None if sigma is None else sorted(sigma), e, "deep_twin")


def check_deep(ctx: Ctx, spec: dict):
    if DEEP_STATE["timeouts"] >= 2 or ctx.stats.get("deep:failing_instance", 0) >= 4:
        ctx.stat("deep:skipped_after_failures")
        return
    inst = D.DeepRx(spec)
    ctx.stat(f"deep:{inst.kind}")
    ctx.stat(f"deep:text_length:{len(inst.re) // 1000 * 1000}+")
    ctx.stat(f"deep:sigma_{spec.get('sigma', 'default')}")
    ctx.stat("deep:closed_form_oracle_no_model_round_trip")
    ctx.case(("deep", json.dumps(spec, sort_keys=True)))
    r = D.run_instance(inst, None, deep_guard, count=lambda name: ctx.stat("deep:" + name))
    if ctx.stats.get(f"deep:{inst.kind}", 0) == 1:
        ctx.sample(dict(deep=inst.desc, about=inst.about, text_length=len(inst.re), alphabet=spec.get("sigma"),
                        probes=[D.short(p) + (" ∈" if inst.member(D.word(p)) else " ∉") for p in inst.probes[:6]],
                        verdict="ok" if r is None else r[0]))
    if r is None:
        return
    # re-confirm on a newly built instance, the failing query alone
    step = dict(op="deep", spec=spec, probes=[] if r[1] is None else [r[1]])
    again = D.judge_step(step, deep_guard)
    if not again:
        ctx.stat("deep:failure_not_reproduced")
        ctx.corr_diff("deep-not-reproduced", dict(spec=spec, probe=r[1]), r[0], "the closed form's answer on the second try")
        return
    ctx.stat("deep:failing_instance")
    n = len(ctx.prop_fails)
    CALLS.append(step)
    ctx.prop_fail(again[0], dict(kind="sequence", steps=[step], failing_step=0, detail=dict(deep=inst.desc)), None)
    if len(ctx.prop_fails) > n:
        ctx.prop_fails[-1]["_tail"] = [step]
        ctx.prop_fails[-1]["_calls"] = len(CALLS)


def deep_family(ctx: Ctx):
    plan = deep_plan(ctx.rng, ctx.thorough())
    for spec in plan:
        deep_twin(ctx, spec)
    for spec in plan:
        check_deep(ctx, spec)
    # measured on the unchanged library, in the property's domain, NOT asked: the product of intersection() keeps the
    # independent ε-moves of both operands, so the state count doubles with every two operands of a chain
    # 'ab&ab&…&ab' (14 operands: 16 386 states, 20: no answer within minutes) and with every operand of 'a*&a*&…'
    # (10 operands: 2 047 states); 'a' + '*?' * 600 needs ~60 s (repeat() deep-copies the fragment per operator).
    # The answers are right as far as they come; the sizes are excluded from the family because of their cost.
    ctx.stat("deep:excluded:intersection_chain_of_multi_symbol_or_starred_operands(exponential_states)")
    ctx.stat("deep:excluded:postfix_chain_beyond_300_operators(cubic_deepcopy)")
    if DEEP_STATE["timeouts"]:
        ctx.note(f"deep family: {DEEP_STATE['timeouts']} library call(s) gave no answer within {DEEP_TIMEOUT_S} s")
    if ctx.stats.get("deep:skipped_after_failures", 0):
        ctx.note(f"deep family: {ctx.stats['deep:skipped_after_failures']} instance(s) skipped after 2 time-outs / 4 failing instances")


def settle_replays(ctx: Ctx):
    """run.py prints the failure whose replay is shortest.  A single-case replay ({regex, alphabet}) — or a program of
    calls — only stands on its own if it also fails as the FIRST thing a fresh interpreter does; otherwise the failure
    depends on calls made before it, and its replay becomes recorded calls of the run (the last ones over the same
    alphabet / expression if that suffices, else all of those, else all) followed by it — harness/fresh.py."""
    from harness import fresh

    def as_step(rp):
        # a failing case is a rendering of its AST over an alphabet containing its literals: it must compile
        return dict(op="compile", re=rp["regex"], input_symbols=rp.get("input_symbols"),
                    valid=True if rp.get("ast") is not None else None, ast=rp.get("ast"))

    def make_replay(steps, rp, n_history):
        return dict(kind="sequence", steps=steps, failing_step=n_history + rp.get("failing_step", 0),
                    detail=rp.get("detail") or {k: rp[k] for k in ("word", "denoted") if k in rp})

    fresh.settle_replays(ctx, "C10", CALLS, as_step, S.keys_of, make_replay)


def run(ctx: Ctx):
    try:
        run_families(ctx)
    finally:
        settle_replays(ctx)


def run_families(ctx: Ctx):
    rng = ctx.rng
    # 0. call sequences over fresh alphabets — FIRST, while no alphabet has been used in this process
    fresh_alphabet_sequences(ctx)
    # 0b. deep / large expressions (closed-form oracle; small twins through check_case)
    deep_family(ctx)
    # 1. corpus
    for e, sigma in CORPUS:
        for st in STYLES:
            check_case(ctx, R.render(e, st), sigma, e, "corpus", st)
    for s in RAW_CORPUS:
        check_case(ctx, s, None, None, "corpus_raw")
        check_case(ctx, s, "ab", None, "corpus_raw")
    # the empty regex and blank-only regexes (theorem C10_blank_only; fix 9e58d22): outside the grammar, they
    # compile to the {ε} NFA over the default alphabet and over every explicit one
    for s in BLANK_ONLY:
        for sigma in (None, "ab", "a", "\u00e9\U0001d4b3-", "ab1,-\u00e9\U0001d4b3"):
            check_case(ctx, s, sigma, ("eps",), "blank_only")
    ctx.exhaustive("every string of ≤3 blanks (space / tab), default alphabet and four explicit alphabets: "
                   "compiles to an NFA accepting exactly the empty word")
    # 2. bounded-exhaustive
    allq = R.all_quants()
    for e in R.asts_upto("ab", 1, allq):
        for st in STYLES:
            check_case(ctx, R.render(e, st), "ab", e, "exhaustive_depth1", st)
    ctx.exhaustive("every AST of depth ≤1 over atoms {a,b,.,()} with * + ? and all {m,n} bounds from {∅,0,1,2,3}, "
                   "binary cat | & ^, rendered minimal / fully parenthesised / blank-separated, alphabet {a,b}")
    smallq = [(0, 0), (None, 1), (1, 2), (2, None)]
    d2 = R.asts_upto("ab", 2, smallq)
    if ctx.thorough():
        for i, e in enumerate(d2):
            st = STYLES[i % 3]
            check_case(ctx, R.render(e, st), "ab", e, "exhaustive_depth2", st)
        ctx.exhaustive(f"every AST of depth ≤2 over atoms {{a,b,.,()}}, postfix * + ? {{0,0}} {{,1}} {{1,2}} {{2,}}, "
                       f"binary cat | & ^ ({len(d2)} trees), one rendering each (style rotates)")
    else:
        for _ in range(ctx.budget(2500, 0)):
            e = d2[rng.randrange(len(d2))]
            st = rng.choice(STYLES)
            check_case(ctx, R.render(e, st), "ab", e, "sampled_depth2", st)
    # 3. shaped random, depth ≤ 4
    for _ in range(ctx.budget(2500, 60000)):
        alpha = rng.choice(ALPHABETS)
        d = rng.choice([2, 3, 3, 4])
        e = R.rand_ast(rng, alpha, d, p_foreign=0.03, p_wide=0.3)
        if R.size(e) > 14:
            ctx.stat("regenerated_too_big")
            continue
        ctx.stat(f"alphabet_size_{len(alpha)}")
        if any(c in R.ODD_LITERALS for c in R.lits_of(e)):
            ctx.stat("odd_literal_used")
        if max_bound(e) >= 4:
            ctx.stat("bound_ge4")
        r = rng.random()
        if r < 0.55:
            sigma = alpha
        elif r < 0.75:
            sigma = alpha + rng.choice([c for c in "cdx" if c not in alpha])
        else:
            sigma = None  # default alphabet: the non-reserved characters of the string
        st = rng.choice(["min", "full", "blank", "extra", "extra"])
        s = R.render(e, st, rng)
        check_case(ctx, s, sigma, e, "random", st)
    final_notes(ctx)


def search(ctx: Ctx):
    """Deeper failing-input search on the real code only (no model involved)."""
    rng = ctx.rng
    if not ctx.stats.get("deep:failing_instance", 0):
        for spec in deep_plan(rng, True):
            check_deep(ctx, spec)
    for _ in range(ctx.budget(6000, 40000)):
        alpha = rng.choice(["ab", "abc", "a"])
        e = R.rand_ast(rng, alpha, rng.choice([2, 3, 4]))
        if R.size(e) > 14:
            continue
        s = R.render(e, rng.choice(["min", "extra"]), rng)
        real = call(lambda: NFA.from_regex(s, input_symbols=frozenset(alpha)))
        if real[0] == "err":
            ctx.prop_fail(f"valid expression {s!r} does not compile: {real[1]}",
                          dict(regex=s, input_symbols=sorted(alpha), ast=e, kind="compile"), None)
            continue
        if len(real[1].states) > MAX_STATES:
            continue
        bad = property_on_real(real[1], e, sorted(alpha))
        if bad is not None:
            w, verdict = bad
            ctx.prop_fail(f"NFA.from_regex({s!r}) {'rejects' if verdict else 'accepts'} {w!r} against the denotation",
                          dict(regex=s, input_symbols=sorted(alpha), ast=e, kind="language", word=w, denoted=verdict), None)
    settle_replays(ctx)


def to_ast(x):
    return tuple(to_ast(y) if isinstance(y, list) else y for y in x) if isinstance(x, (list, tuple)) else x


def replay(ctx: Ctx, path: str) -> int:
    data = json.load(open(path))
    rp = data.get("replay", data)
    if rp.get("kind") == "sequence":
        for i, what, _detail in judge_program_json(json.dumps(rp["steps"])):
            ctx.prop_fail(what if i == 0 else f"after {S.describe(rp['steps'], i)}: {what}", rp, None)
    else:
        e = to_ast(rp.get("ast")) if rp.get("ast") is not None else None
        check_case(ctx, rp["regex"], rp.get("input_symbols"), e, "replay")
    if ctx.prop_fails:
        print(f"VIOLATION property=C10 replay={path}")
        print("  " + ctx.prop_fails[0]["what"])
        return 1
    print("replay: property holds on this input now")
    return 0
