"""C20 — query answers do not depend on what was asked before (caches stay coherent).

A *history* is a list of public calls on ONE DFA instance: accepts_input, count_words_of_length,
words_of_length (generator objects that are opened, advanced step by step, interleaved with
other calls and abandoned), iter(dfa) (same), successors / predecessors generator objects (same:
`SO` opens one, `NX` advances it between other calls and across clear_cache), cardinality, len,
minimum/maximum_word_length, isempty, isfinite, random_word, successors / successor / predecessor
as atomic calls (key=None, fresh callables, or ONE callable `rank.get` of a shared dict that is
re-filled between the calls), minify / to_partial (read the `_get_digraph` memo), complement,
union, comparisons with another DFA (==, <=, >=, <, >, issubset, isdisjoint) and clear_cache().
Round 3: CORRELATED successor-search calls (the chains of harness/ops/C14.py): a call starts at the word the
previous call returned (computed by the brute-force oracle when the history is generated), with strictness /
direction / window / wrapper / ranking changed in between (successor → successor(strict=False) → predecessor …).

Property oracle (independent of the model): every answer of the long-lived instance is compared
with the answer of the same call on a *fresh copy* (for `next(g)`: a fresh copy on which the same
kind of generator is opened and advanced the same number of times).  After the history every
populated cache level is queried once more and compared with a fresh copy.

Round 4: (a) histories over TWO OR THREE LIVE OBJECTS (`run_multi_history`): each object answers its own cache-populating
queries, interleaved with the binary comparisons (==, !=, <=, <, >=, >, issubset, issuperset, isdisjoint) and binary operations
(union / intersection / difference / symmetric difference, | & - ^, with and without retained names) BETWEEN the live
objects (also an object with itself); the partner objects are related to the first (equal language through another state graph:
copy / minified / trimmed / completed / relabelled + unreachable state / self product; sub- and superset; complement;
unrelated), every answer is compared with the same call on fresh copies of the operand(s).  (b) live-object MODES: the
long-lived DFA / NFA (and every fresh copy) is built either as a default copy or under allow_mutable_automata=True from
plain containers (plain / aliased / copy_of_plain: harness/dfa_query_lib3.build_live, harness/c20_lib4.build_live_nfa);
the frozen twin (definition as built) is what the model and the fresh copies start from.  (c) NFA histories on NFAs with
lambda cycles of length 3–5 entered at different members by different first symbols, reads in bursts; the second NFA
operand is live too (`OA`: it answers a query itself, `QE`: it is the left operand of ==); after an NFA history
acceptance of ≤16 short words is asked once more on both live objects.

The NFA half (memo of `_get_lambda_closures`): histories of accepts_input, read_input_stepwise, ==,
DFA.from_nfa, eliminate_lambda, validate on one NFA object, same fresh-copy oracle, replayed by the
Lean machine `nstep` (NHISTORY command), memoised closure table compared with a fresh one.

Round 7: DEEP / LARGE instances and LONG query sequences (`deep_family`, harness/c20_deep.py): objects of up to 3000 states,
lengths up to 3000, up to 330 calls on one object, inputs of 3000 symbols for the NFA half; answers judged by closed forms
derived from the construction parameters (no model round trip), small twins of the same templates through the fresh-copy
oracle and the Lean model.

Correspondence: the whole history is replayed by the Lean state machine `step` (HISTORY command);
answers are compared, the content of every populated level of `_count_cache` / `_word_cache` is
compared with the model's tables (the invariant `CacheInv` of Props/C20.lean, checked on the real
object after every call), and the driver re-checks at run time that `step` and the stateless
`stepPure` agree.  Cache *lengths* and which cached_method tables are populated are compared with
the model's snapshot as statistics only (a different but coherent caching policy is not a defect).
"""
from __future__ import annotations

import itertools
import json
import random
import time

from automata.fa.dfa import DFA

from harness import gen
from harness import c20_deep as DD
from harness import c20_lib4 as L4
from harness import dfa_query_lib as L
from harness import dfa_query_lib3 as Q3
from harness.common import guarded as case_guard
from harness.common import Ctx, InfraError, Names, Toks, call, dfa_canon, dfa_plain, enc_dfa, enc_nfa, enc_word, sym_names, toks
from harness.ops import C14 as S

LEVEL = "proof"
RULE = ("cases = (valid DFA, history of ≤30 public calls on one instance, incl. live generators of all three kinds "
        "(words_of_length, iter, successors/predecessors) advanced between other calls and across clear_cache, abandoned "
        "generators, minify / to_partial (digraph memo), successor search with key=None / fresh callables / one shared "
        "callable whose ranking changes between calls; correlated chains: a call starts at the previous answer with "
        "strictness / direction / window / ranking flipped); corpus (mutant killers, written-out successor loops, short-after-long and long-after-short "
        "lengths, shared-key pairs, generators across clear_cache), all histories of length ≤2 (thorough: ≤3) over 18 "
        "call groups on 20 DFAs, then random histories on shaped random DFAs (≤6 states); round 4: histories over 2–3 LIVE "
        "DFAs related by language (equal through another graph / sub- / superset / complement / unrelated): per-object random "
        "histories interleaved with binary comparisons and Boolean operations between the live objects (all pairs of 14 "
        "cache-populating call groups × all 9 comparisons on 8 fixed pairs, then random), every answer compared with fresh "
        "copies of the operands; live objects built as default copies or under allow_mutable_automata=True from plain / "
        "aliased containers / as a copy of such an object (25–45 % of the random histories, all corpus histories); NFA "
        "histories: random NFAs, lambda-dense NFAs and NFAs with a lambda cycle of length 3–5 entered at different members "
        "by different first symbols (all ordered pairs of entry+exit words on 9 fixed ones), reads in bursts, a second live "
        "NFA operand, same modes; round 7 — DEEP / LARGE instances (harness/c20_deep.py), every run: 7 DFA and 3 NFA templates built "
        "by the library's constructors from JSON specs with sizes drawn from the seed — a^lo a* and Σ^≥lo (≤ 6 states) asked "
        "130–330 calls on ONE object at lengths up to 3000 (the long length first, then short ones, then lengths in between, "
        "clear_cache and live generators in between; the same kind of object asked in ascending stretches of 200–700), "
        "Σ^≤N and {a^N} with N = 1100–3000 states (linear operations, successor search along the whole chain, words of N "
        "symbols, comparisons with a relabelled partner), {a^k : lo ≤ k ≤ N} with N = 240–300 (the length × states tables "
        "in full: count / words / random_word at and beyond the depth, cardinality, len, the whole iteration, predecessors), "
        "{b, (ab)^M} with 2M = 1100–3000; NFA: lambda chain of 1100–1300 states, shallow NFA with a lambda cycle reading "
        "34 inputs of 2800–3000 symbols, symbol chain of 2000–3000 states with lambda side exits (accepts_input, read_input, "
        "read_input_stepwise, ==, DFA.from_nfa, eliminate_lambda) — every answer judged by a CLOSED FORM from the construction "
        "parameters (no model round trip for these), a few plain queries asked again as first call on a fresh object, and "
        "each template also at ≤ 8 states where closed form, fresh-copy oracle and Lean model must all agree; evaluations = calls compared "
        "with a fresh copy; a history is non-trivial when it contains ≥2 cache-touching calls on a DFA with a "
        "non-empty language; distinct = distinct (definition, history)")
ASSUMPTIONS = [
    "lengths k are naturals (negative lengths index the caches from the end and are history-dependent: finding F18)",
    "the DFA definition is immutable (C18); the object stays referenced while it is queried; under allow_mutable_automata=True "
    "the caller does not touch the containers it handed over, and answers are judged against fresh objects built the same "
    "way from the definition as built (whether the library changed the containers is only counted: C18's clause)",
    "queries that never touch the caches (==, <=, issubset, isdisjoint, complement, union, …) are opaque in the model; "
    "their history independence is only sampled (compared with a fresh copy), not proved; minify / to_partial are "
    "modelled as far as they touch the instance (the `_get_digraph` memo), the rest of their body is an arbitrary "
    "function of the definition and the graph object",
    "a key callable is a pure function at the moment of the call (the model takes its values on the alphabet at that "
    "moment); NFA half: accepts_input / read_input_stepwise are modelled exactly over the memoised closure table, "
    "==, DFA.from_nfa, eliminate_lambda only as far as they fetch that table (their answers are sampled against fresh copies)",
]
EXPLANATION = ("Theorem C20_history: for every DFA and every finite history the cached instance `step` returns the "
               "answers of the stateless `stepPure`; this run ties `step` to the code by differential execution of "
               "random histories and evaluates the property on the real code against fresh copies.  The theorem has no size "
               "bound; the differential runs do (≤ 6 states, lengths ≤ 8, ≤ 30 calls), so size thresholds of the real caches "
               "(recursion depth ≈ 1000, lru_cache's 128 entries, fixed-size windows) are covered by the deep / large family: "
               "histories of up to 330 calls at lengths up to 3000 on objects of up to 3000 states whose every answer is "
               "dictated by the construction parameters in closed form (cross-checked against the fresh-copy oracle and the "
               "model on small twins of the same templates).")

NX_FUEL = 60
HANGS = 0           # histories ended by a real call that did not return (time / memory guard of L.guarded)
MAX_HANGS = 8
MEMO = ["_get_digraph", "isempty", "isfinite", "cardinality", "minimum_word_length", "maximum_word_length"]
OTHER_OPS = ["eq", "le", "ge", "lt", "gt", "issubset", "issuperset", "isdisjoint",
             "complement", "complement_keep", "union", "union_keep"]
# methods that read `_get_digraph()` through the memo: (model query, tag, real call)
GRAPH_OPS = {"minify": ("MINI", 0), "minify_keep": ("MINI", 1),
             "to_partial": ("TOP", 0), "to_partial_keep": ("TOP", 1), "to_partial_plain": ("TOP", 2)}


# ------------------------------------------------------------------ real execution
def canon_result(r: DFA, keep_names: bool):
    """A DFA-valued answer: its reachable part up to isomorphism (+ the state names when the
    operation promises to retain them)."""
    c = dfa_canon(dfa_plain(r, Names(sorted(r.states, key=repr)), sym_names(r.input_symbols)))
    return (c, frozenset(r.states) if keep_names else None)


def do_graph_op(x: DFA, op: str):
    if op == "minify":
        return canon_result(x.minify(), False)
    if op == "minify_keep":
        return canon_result(x.minify(retain_names=True), True)
    if op == "to_partial":
        return canon_result(x.to_partial(retain_names=False), False)
    if op == "to_partial_keep":
        return canon_result(x.to_partial(retain_names=True), True)
    return canon_result(x.to_partial(minify=False), True)


def do_other(x: DFA, op: str, other: DFA):
    if op == "complement":
        return canon_result(x.complement(), False)
    if op == "complement_keep":
        return canon_result(x.complement(retain_names=True, minify=False), True)
    if op == "union":
        return canon_result(x.union(other), False)
    if op == "union_keep":
        return canon_result(x.union(other, retain_names=True, minify=False), True)
    if op == "eq":
        return x == other
    if op == "le":
        return x <= other
    if op == "ge":
        return x >= other
    if op == "lt":
        return x < other
    if op == "gt":
        return x > other
    if op == "issubset":
        return x.issubset(other)
    if op == "issuperset":
        return x.issuperset(other)
    if op == "ne":
        return x != other
    if op in ("intersection", "difference", "symmetric_difference"):
        return canon_result(getattr(x, op)(other), False)
    if op in ("intersection_keep", "difference_keep", "symmetric_difference_keep"):
        return canon_result(getattr(x, op[:-5])(other, retain_names=True, minify=False), True)
    if op == "op_or":
        return canon_result(x | other, False)
    if op == "op_and":
        return canon_result(x & other, False)
    if op == "op_sub":
        return canon_result(x - other, False)
    if op == "op_xor":
        return canon_result(x ^ other, False)
    return x.isdisjoint(other)


def gen_next(g):
    try:
        return ("ok", next(g))
    except StopIteration:
        return ("stop",)
    except Exception as e:  # noqa: BLE001
        return ("err", type(e).__name__)


def succ_kwargs(q, runner=None):
    """Keyword arguments of a successor-search call.  keymode "shared": the SAME callable
    `rank.get` of the runner's one rank dict is passed every time; the dict is re-filled with the
    ranking of this call just before (a callable whose ranking changes between calls)."""
    p = q["p"]
    if p.get("keymode") == "shared":
        runner.rank.clear()
        runner.rank.update(p["key"])
        return dict(strict=p["strict"], key=runner.rank_get, min_length=p["min"], max_length=p["max"])
    return S.kwargs_of(p)


def open_succ(x: DFA, p: dict):
    """A successors generator object (through the predecessors wrapper when p says so); nothing of
    its body runs before the first next()."""
    if p["reverse"] and p.get("via_predecessors"):
        return x.predecessors(p["start"], **S.kwargs_of(p))
    return x.successors(p["start"], reverse=p["reverse"], **S.kwargs_of(p))


class Runner:
    """Executes queries on one instance, remembering its generator objects."""

    def __init__(self, d: DFA, other: DFA):
        self.x = d
        self.other = other
        self.gens = []
        self.kinds = []   # ("words", k) | ("iter",) | ("succ", p)
        self.nexts = []   # number of next() calls so far per handle
        self.rank = {}
        self.rank_get = self.rank.get     # one callable object, reused by every keymode="shared" call

    def run(self, q: dict):
        x = self.x
        k = q["q"]
        if k == "A":
            return call(lambda: x.accepts_input(q["w"]))
        if k == "C":
            return call(lambda: x.count_words_of_length(q["k"]))
        if k == "WO":
            self.gens.append(x.words_of_length(q["k"]))
            self.kinds.append(("words", q["k"]))
            self.nexts.append(0)
            return ("handle", len(self.gens) - 1)
        if k == "IO":
            self.gens.append(iter(x))
            self.kinds.append(("iter",))
            self.nexts.append(0)
            return ("handle", len(self.gens) - 1)
        if k == "NX":
            self.nexts[q["h"]] += 1
            return S.guarded(lambda: gen_next(self.gens[q["h"]]))[1]
        if k == "CARD":
            return call(lambda: x.cardinality())
        if k == "LEN":
            return call(lambda: len(x))
        if k == "MIN":
            return call(lambda: x.minimum_word_length())
        if k == "MAX":
            return call(lambda: x.maximum_word_length())
        if k == "EMPTY":
            return call(lambda: x.isempty())
        if k == "FINITE":
            return call(lambda: x.isfinite())
        if k == "RW":
            r, choices, _ = L.random_word_recorded(x, q["k"], q["seed"])
            q["cs"] = choices
            return r
        if k == "SU":
            p = q["p"]
            return S.guarded(lambda: list(itertools.islice(x.successors(p["start"], reverse=p["reverse"], **succ_kwargs(q, self)), p["n"])))
        if k == "FI":
            p = q["p"]
            if p["reverse"]:
                return S.guarded(lambda: x.predecessor(p["start"], **succ_kwargs(q, self)))
            return S.guarded(lambda: x.successor(p["start"], **succ_kwargs(q, self)))
        if k == "SO":
            self.gens.append(open_succ(x, q["p"]))
            self.kinds.append(("succ", q["p"]))
            self.nexts.append(0)
            return ("handle", len(self.gens) - 1)
        if k == "GO":
            return call(lambda: do_graph_op(x, q["op"]))
        if k == "CLR":
            return call(lambda: x.clear_cache())
        if k == "OT":
            return call(lambda: do_other(x, q["op"], self.other))
        raise InfraError(f"unknown query {q}")


def fresh_answer(d: DFA, other: DFA, q: dict, kinds, nexts, mode: str = "frozen"):
    """The same call on a fresh copy (kept referenced while it runs).  Under a mutable-option mode the fresh copy is
    built the way the live object was, from new plain copies of the definition of the frozen twin `d`."""
    keep = []
    c = d.copy() if mode == "frozen" else Q3.build_live(d, mode, keep)
    if q["q"] in ("WO", "IO", "SO"):
        return None
    if q["q"] == "NX":
        kind = kinds[q["h"]]
        g = c.words_of_length(kind[1]) if kind[0] == "words" else iter(c) if kind[0] == "iter" else open_succ(c, kind[1])
        r = None
        for _ in range(nexts[q["h"]]):
            r = S.guarded(lambda: gen_next(g))[1]
        return r
    if q["q"] == "RW":
        return L.random_word_recorded(c, q["k"], q["seed"])[0]
    return Runner(c, other).run(dict(q))


def snapshot(x: DFA, st, sy):
    ct = [[lvl.get(s, 0) for s in st.order] for lvl in x._count_cache]
    wt = [[L.words_to_ints(sy, lvl.get(s, [])) for s in st.order] for lvl in x._word_cache]
    memo = [int(name in x.__dict__ and x.__dict__[name].cache_info().currsize > 0) for name in MEMO]
    return ct, wt, memo


def digraph_content(x: DFA):
    """Nodes and edges of the `_get_digraph()` result (one shared mutable networkx object)."""
    g = x._get_digraph()
    return sorted(map(repr, g.nodes)), sorted((repr(a), repr(b)) for a, b in g.edges)


# ------------------------------------------------------------------ model
def handle_kinds(hist):
    return [q["q"] for q in hist if q["q"] in ("WO", "IO", "SO")]


def enc_query(sy, q: dict, kinds=()) -> str:
    k = q["q"]
    if k == "NX":
        is_succ = q["h"] < len(kinds) and kinds[q["h"]] == "SO"
        return toks("NX", q["h"], S.FUEL if is_succ else NX_FUEL)
    if k == "SO":
        p = q["p"]
        return toks("SO", L.enc_succ_args(sy, p["start"], p["strict"], p["reverse"], p["min"], p["max"], p["key"]))
    if k == "GO":
        name, tag = GRAPH_OPS[q["op"]]
        return toks(name, tag)
    if k == "A":
        return toks("A", enc_word(sy, q["w"]))
    if k in ("C", "WO"):
        return toks(k, q["k"])
    if k == "NX":
        return toks("NX", q["h"], NX_FUEL)
    if k == "RW":
        return toks("RW", q["k"], len(q["cs"]), q["cs"])
    if k in ("SU", "FI"):
        p = q["p"]
        args = L.enc_succ_args(sy, p["start"], p["strict"], p["reverse"], p["min"], p["max"], p["key"])
        return toks("SU", args, p["n"], S.FUEL) if k == "SU" else toks("FI", args, S.FUEL)
    if k == "OT":
        return toks("OT", OTHER_OPS.index(q["op"]))
    return k


def parse_answer(sy, text: str):
    t = Toks(text)
    k = t.next()
    w2s = lambda w: "".join(sy.back(c) for c in w)
    if k == "unit":
        return ("ok", None)
    if k == "bool":
        return ("ok", bool(t.int()))
    if k == "nat":
        return ("ok", t.int())
    if k == "optnat":
        return ("ok", t.optint())
    if k == "word":
        return ("ok", w2s(t.ints()))
    if k == "words":
        ws = [w2s(w) for w in L.rd_words(t)]
        end = t.next()
        if end == "raised":
            return ("err", t.next())
        if end == "outOfFuel":
            return ("fuel",)
        return ("ok", ws)
    if k == "first":
        fk = t.next()
        if fk == "word":
            return ("ok", w2s(t.ints()))
        if fk == "none":
            return ("ok", None)
        if fk == "raised":
            return ("err", t.next())
        return ("fuel",)
    if k == "handle":
        return ("handle", t.int())
    if k == "stop":
        return ("stop",)
    if k == "exn":
        return ("err", t.next())
    if k == "outOfFuel":
        return ("fuel",)
    if k == "opaque":
        return ("opaque",)
    raise InfraError(f"cannot parse model answer {text!r}")


def model_history(ctx: Ctx, enc: str, sy, hist):
    kinds = handle_kinds(hist)
    line = ctx.driver(L.DRV).ask(toks("HISTORY", enc, len(hist), [enc_query(sy, q, kinds) for q in hist]))
    out = []
    for part in line.split(" | ") if hist else []:
        ans, snap, same = part.split(" ; ")
        s = snap.split()
        out.append(dict(ans=parse_answer(sy, ans), nc=int(s[1]), nw=int(s[2]), memo=[int(v) for v in s[3:9]],
                        same=same.strip() == "1"))
    return out


_TABLES = {}


def model_tables(ctx: Ctx, enc: str, k: int):
    key = (enc, k)
    if key not in _TABLES:
        if len(_TABLES) > 64:
            _TABLES.clear()
        t = Toks(ctx.driver(L.DRV).ask(toks("COUNT", enc, k)))
        t.int()
        ct = t.many(lambda: t.ints())
        t = Toks(ctx.driver(L.DRV).ask(toks("WORDS", enc, k)))
        L.rd_words(t)
        wt = t.many(lambda: t.many(lambda: L.rd_words(t)))
        _TABLES[key] = (ct, [[[tuple(w) for w in cell] for cell in lvl] for lvl in wt])
    return _TABLES[key]


# ------------------------------------------------------------------ one history
def describe(d: DFA, other: DFA, hist, mode: str = "frozen"):
    out = dict(automaton=repr(d), other=repr(other), history=[{k: v for k, v in q.items()} for q in hist])
    if mode != "frozen":
        out["mode"] = mode      # the live object (and every fresh copy) is built by dfa_query_lib3.build_live(·, mode)
    return out


@case_guard
def run_history(ctx: Ctx, d: DFA, other: DFA, hist, origin: str, kmax: int, mode: str = "frozen"):
    """`mode` (round 4): how the long-lived object is built — "frozen" (a default copy) or one of the
    allow_mutable_automata=True modes of dfa_query_lib3.build_live (plain / aliased containers, copy of such an
    object).  `d` is the frozen twin: the definition AS BUILT, which the model and the fresh copies start from."""
    with Q3.mutable_option(mode):
        return _run_history(ctx, d, other, hist, origin, kmax, mode)


def _run_history(ctx: Ctx, d: DFA, other: DFA, hist, origin: str, kmax: int, mode: str):
    enc, st, sy = enc_dfa(d)
    keep = []
    fresh = lambda: d.copy() if mode == "frozen" else Q3.build_live(d, mode, keep)      # noqa: E731
    inst = fresh()
    R = Runner(inst, other)
    real, snaps, bad = [], [], []
    touching = 0
    fresh_graph = None
    hung = False
    full_hist = hist
    for i, q in enumerate(hist):
        a = R.run(q)
        if a == ("err", "_Timeout"):
            # the call did not return (time or memory guard): the object is left in an arbitrary state, possibly
            # with caches grown without bound — judge this call, then end the history (no snapshot, no sweep)
            global HANGS
            HANGS += 1
            hung = True
            ctx.case(None)
            ctx.stat("history_ended_by_a_call_that_did_not_return")
            f = fresh_answer(d, other, q, R.kinds, R.nexts, mode)
            if f is not None and f != a:
                bad.append(f"call #{i} {show_q(q)} after {i} earlier calls did not return (time / memory guard); the same "
                           f"call on a fresh copy answers {str(f)[:120]}")
            full_hist = hist[: i + 1]
            hist = hist[:i]
            break
        real.append(a)
        snaps.append(snapshot(inst, st, sy))
        if snaps[-1][2][0]:
            # MemoOK on the real object: the memoised `_get_digraph()` result is ONE shared mutable
            # networkx graph; whatever was called so far must have left it equal to a fresh one
            # (calling the memoised method again only returns the stored object)
            if fresh_graph is None:
                fresh_graph = digraph_content(fresh())
            got_graph = digraph_content(inst)
            ctx.stat("digraph_memo:compared_with_fresh")
            if got_graph != fresh_graph:
                ctx.corr_diff("HISTORY digraph memo content (mutated shared graph object)",
                              dict(describe(d, other, hist[: i + 1], mode), index=i), got_graph, fresh_graph)
        f = fresh_answer(d, other, q, R.kinds, R.nexts, mode)
        ctx.case(None)
        ctx.stat(f"q:{q['q']}")
        if q["q"] == "NX":
            ctx.stat(f"next:{R.kinds[q['h']][0]}")
        if q["q"] in ("SU", "FI", "SO"):
            ctx.stat(f"succ_key:{q['p'].get('keymode', 'int')}")
            if q["p"].get("from_prev"):
                ctx.stat("succ:starts_at_the_previous_answer")
        if q["q"] not in ("A", "OT", "WO", "IO", "SO"):
            touching += 1
        if f is not None and f != a:
            bad.append(f"call #{i} {show_q(q)} after {i} earlier calls answered {str(a)[:120]}; the same call on a fresh copy answers {str(f)[:120]}")
    # final sweep: every populated level must still give the fresh answers
    for k in range(0 if hung else len(inst._count_cache)):
        a = call(lambda: inst.count_words_of_length(k))
        c = fresh()
        f = call(lambda: c.count_words_of_length(k))
        if a != f:
            bad.append(f"after the history, count_words_of_length({k}) = {a}, fresh copy: {f}")
    for k in range(0 if hung else len(inst._word_cache)):
        a = call(lambda: list(inst.words_of_length(k)))
        c = fresh()
        f = call(lambda: list(c.words_of_length(k)))
        if a != f:
            bad.append(f"after the history, words_of_length({k}) = {str(a)[:120]}, fresh copy: {str(f)[:120]}")
    shape_nonempty = bool(inst.final_states)
    ctx.case((enc, json.dumps(hist, sort_keys=True, default=str)) if (touching >= 2 and shape_nonempty) else None)
    ctx.stat(f"origin:{origin}")
    ctx.stat(f"live_mode:{mode}")
    ctx.stat(f"history_len:{min(len(hist) // 5 * 5, 30)}+")
    if ctx.stats.get(f"origin:{origin}", 0) % 400 == 1:
        ctx.sample(dict(describe(d, other, hist[:8], mode), answers=[str(a)[:60] for a in real[:8]]))
    for b in bad:
        ctx.prop_fail(b, dict(describe(d, other, full_hist, mode), what=b), None)
    if hung:
        inst.clear_cache()
    # ---- model
    mod = model_history(ctx, enc, sy, hist)
    need = max([kmax + 1] + [max(len(ct), len(wt)) for ct, wt, _ in snaps])
    mct, mwt = model_tables(ctx, enc, need - 1)
    for i, (q, a, m, (ct, wt, memo)) in enumerate(zip(hist, real, mod, snaps)):
        if not m["same"]:
            ctx.corr_diff("HISTORY step≠stepPure (model theorem violated at run time)", describe(d, other, hist[: i + 1], mode), a, m)
        if m["ans"] == ("fuel",):
            ctx.stat("model:outOfFuel")
            continue
        if m["ans"] != ("opaque",) and m["ans"] != a and not bad:
            ctx.corr_diff("HISTORY answer", dict(describe(d, other, hist[: i + 1], mode), index=i), a, m["ans"])
        # CacheInv on the real object: every populated level holds the table of that level
        if len(ct) > len(mct) or len(wt) > len(mwt):
            if not bad:
                ctx.corr_diff("HISTORY cache longer than any query asked for", dict(describe(d, other, hist[: i + 1], mode), index=i),
                              (len(ct), len(wt)), (len(mct), len(mwt)))
            break
        if any(ct[j] != mct[j] for j in range(len(ct))) and not bad:
            ctx.corr_diff("HISTORY count cache content", dict(describe(d, other, hist[: i + 1], mode), index=i), ct, mct[: len(ct)])
        if any(wt[j] != mwt[j] for j in range(len(wt))) and not bad:
            ctx.corr_diff("HISTORY word cache content", dict(describe(d, other, hist[: i + 1], mode), index=i), wt, mwt[: len(wt)])
        if (len(ct), len(wt)) != (m["nc"], m["nw"]):
            ctx.stat("snapshot:cache_length_differs_from_model")
        else:
            ctx.stat("snapshot:cache_length_equal")
        if memo != m["memo"]:
            ctx.stat("snapshot:memo_flags_differ_from_model")
            if ctx.stats["snapshot:memo_flags_differ_from_model"] == 1:
                ctx.note(f"memo flags differ from model at call #{i} {show_q(q)}: real {dict(zip(MEMO, memo))} model {m['memo']} on {d!r}")
        else:
            ctx.stat("snapshot:memo_flags_equal")


def show_q(q: dict) -> str:
    k = q["q"]
    if k == "A":
        return f"accepts_input({q['w']!r})"
    if k == "C":
        return f"count_words_of_length({q['k']})"
    if k == "WO":
        return f"g=words_of_length({q['k']})"
    if k == "IO":
        return "g=iter(dfa)"
    if k == "NX":
        return f"next(g{q['h']})"
    if k == "RW":
        return f"random_word({q['k']}, seed={q['seed']})"
    if k in ("SU", "FI") and "call" in q["p"]:
        return S.show_chain_step(q["p"])
    if k in ("SU", "FI"):
        return f"{'successors' if k == 'SU' else 'successor/predecessor'}({q['p']})"
    if k == "SO":
        return f"g=successors({q['p']})"
    if k == "GO":
        return f"{q['op']}()"
    if k == "OT":
        return f"{q['op']}(other)"
    return {"CARD": "cardinality()", "LEN": "len()", "MIN": "minimum_word_length()", "MAX": "maximum_word_length()",
            "EMPTY": "isempty()", "FINITE": "isfinite()", "CLR": "clear_cache()"}[k]


# ------------------------------------------------------------------ histories over SEVERAL live objects (round 4)
BIN_CMP = ["eq", "ne", "le", "ge", "lt", "gt", "issubset", "issuperset", "isdisjoint"]
BIN_BUILD = ["union", "union_keep", "intersection", "intersection_keep", "difference", "symmetric_difference",
             "op_or", "op_and", "op_sub", "op_xor"]
BIN_SHOW = {"eq": "{} == {}", "ne": "{} != {}", "le": "{} <= {}", "ge": "{} >= {}", "lt": "{} < {}", "gt": "{} > {}",
            "op_or": "{} | {}", "op_and": "{} & {}", "op_sub": "{} - {}", "op_xor": "{} ^ {}"}


def show_step(s: dict) -> str:
    x = f"d{s['on']}"
    if s["q"] == "BIN":
        y = f"d{s['arg']}"
        return BIN_SHOW[s["op"]].format(x, y) if s["op"] in BIN_SHOW else f"{x}.{s['op']}({y})"
    return f"{x}: {show_q(s)}"


def sweep_caches(inst: DFA, fresh, label: str, bad: list):
    """Every populated cache level of a long-lived object must still give the fresh answers."""
    for k in range(len(inst._count_cache)):
        a = call(lambda: inst.count_words_of_length(k))
        c = fresh()
        f = call(lambda: c.count_words_of_length(k))
        if a != f:
            bad.append(f"after the history, {label}count_words_of_length({k}) = {a}, fresh copy: {f}")
    for k in range(len(inst._word_cache)):
        a = call(lambda: list(inst.words_of_length(k)))
        c = fresh()
        f = call(lambda: list(c.words_of_length(k)))
        if a != f:
            bad.append(f"after the history, {label}words_of_length({k}) = {str(a)[:120]}, fresh copy: {str(f)[:120]}")


def describe_multi(refs, steps, mode: str):
    return dict(kind="multi", automata=[repr(r) for r in refs], mode=mode, steps=[dict(s) for s in steps])


@case_guard
def run_multi_history(ctx: Ctx, refs, steps, origin: str, mode: str = "frozen", fresh_memo: dict = None):
    """A history over 2–3 LIVE objects d0, d1, (d2): every object answers its own cache-populating queries (the
    single-object repertoire of `Runner`), interleaved with binary comparisons and binary operations BETWEEN the live
    objects (`BIN`: operands `on` and `arg`, possibly the same object).  Oracle: the same call on FRESH COPIES of the
    operand(s); at the end every populated cache level of every object, and ==, != , <= of every ordered pair, are
    asked once more.  Model: the projection of the history on each object is replayed by the Lean machine `step`
    (binary calls are opaque there) and the non-opaque answers are compared."""
    with Q3.mutable_option(mode):
        return _run_multi_history(ctx, refs, steps, origin, mode, {} if fresh_memo is None else fresh_memo)


def _run_multi_history(ctx: Ctx, refs, steps, origin: str, mode: str, fresh_memo: dict):
    global HANGS
    keep = []
    fresh = lambda i: refs[i].copy() if mode == "frozen" else Q3.build_live(refs[i], mode, keep)      # noqa: E731
    live = [fresh(i) for i in range(len(refs))]
    runners = [Runner(x, None) for x in live]
    bad, real = [], []
    touching, nbin = 0, 0
    done = steps

    def binary(x, y, op):
        return S.guarded(lambda: do_other(x, op, y))

    def fresh_binary(s):
        # what fresh copies of the operands answer does not depend on the history: asked once per (operands, call)
        k = (s["on"], s["op"], s["arg"])
        if k not in fresh_memo:
            fx = fresh(s["on"])
            fy = fx if s["arg"] == s["on"] else fresh(s["arg"])
            fresh_memo[k] = binary(fx, fy, s["op"])
        return fresh_memo[k]

    for i, s in enumerate(steps):
        if s["q"] == "BIN":
            a = binary(live[s["on"]], live[s["arg"]], s["op"])
            f = fresh_binary(s)
            nbin += 1
            ctx.stat(f"multi_bin:{s['op']}")
            if s["on"] == s["arg"]:
                ctx.stat("multi_bin:object_with_itself")
        else:
            R = runners[s["on"]]
            a = R.run(s)
            f = fresh_answer(refs[s["on"]], None, s, R.kinds, R.nexts, mode)
            ctx.stat(f"multi_q:{s['q']}")
            if s["q"] not in ("A", "WO", "IO", "SO"):
                touching += 1
        ctx.case(None)
        real.append(a)
        if f is not None and f != a:
            bad.append((i + 1, f"call #{i} {show_step(s)} after {i} earlier calls on {len(refs)} live objects answered "
                               f"{str(a)[:120]}; the same call on fresh copies of the operands answers {str(f)[:120]}"))
        if a == ("err", "_Timeout"):
            HANGS += 1
            ctx.stat("history_ended_by_a_call_that_did_not_return")
            done = steps[: i + 1]
            break
    hung = len(done) < len(steps) or (real and real[-1] == ("err", "_Timeout"))
    tail = []
    if not hung:
        for i, x in enumerate(live):
            swept = []
            sweep_caches(x, lambda i=i: fresh(i), f"d{i}.", swept)
            bad.extend((len(done), b) for b in swept)
        for i in range(len(live)):
            for j in range(len(live)):
                for op in (("eq", "le") if i != j else ()):
                    s = dict(q="BIN", on=i, op=op, arg=j)
                    a, f = binary(live[i], live[j], op), fresh_binary(s)
                    ctx.case(None)
                    if a != f and not tail:
                        tail.append(s)      # one more call of the history: the replay carries it as its last step
                        bad.append((len(done) + 1, f"call #{len(done)} {show_step(s)} after {len(done)} earlier calls on {len(refs)} live "
                                                   f"objects answered {a}; the same call on fresh copies of the operands answers {f}"))
        if mode != "frozen":
            for i, x in enumerate(live):
                if Q3.definition_of(x) != Q3.definition_of(refs[i]):
                    ctx.stat("multi:definition_changed_under_the_mutable_option")      # C18's clause; here only counted
    nonempty = any(r.final_states for r in refs)
    key = (tuple(repr(r) for r in refs), mode, json.dumps(done, sort_keys=True, default=str))
    ctx.case(key if (touching >= 2 and nbin >= 1 and nonempty) else None)
    ctx.stat(f"multi_origin:{origin}")
    ctx.stat(f"multi_objects:{len(refs)}")
    ctx.stat(f"multi_live_mode:{mode}")
    if ctx.stats.get(f"multi_origin:{origin}", 0) % 300 == 1:
        ctx.sample(dict(describe_multi(refs, done[:8], mode), answers=[str(a)[:60] for a in real[:8]]))
    for upto, b in bad:
        ctx.prop_fail(b, dict(describe_multi(refs, (list(done) + tail)[:upto], mode), what=b), None)
    if hung or bad:
        return
    # ---- model: the projection on each object
    for i, r in enumerate(refs):
        proj = [(k, s) for k, s in enumerate(done) if s["on"] == i]
        hist = [dict(q="OT", op="eq") if s["q"] == "BIN" else s for _, s in proj]
        if not any(q["q"] != "OT" for q in hist):
            continue
        enc, st, sy = enc_dfa(r)
        mod = model_history(ctx, enc, sy, hist)
        for (k, s), m in zip(proj, mod):
            if not m["same"]:
                ctx.corr_diff("MULTI step≠stepPure (model theorem violated at run time)", describe_multi(refs, done[: k + 1], mode), real[k], m)
            if m["ans"] in (("fuel",), ("opaque",)):
                continue
            if m["ans"] != real[k]:
                ctx.corr_diff("MULTI answer", dict(describe_multi(refs, done[: k + 1], mode), index=k), real[k], m["ans"])


def interleave(rng, refs, per_object_len: int, pbin: float = 0.3):
    """Per-object random histories (own handles, own correlated chains), interleaved in a random order that keeps the
    order within each object, with binary calls between the live objects in between and at the end."""
    hists = []
    for r in refs:
        h, _ = rand_history(rng, r, per_object_len)
        hists.append([q for q in h if q["q"] != "OT"])
    pos = [0] * len(refs)
    steps = []

    def some_binary():
        i = rng.randrange(len(refs))
        j = i if rng.random() < 0.1 else rng.choice([k for k in range(len(refs)) if k != i])
        op = rng.choice(BIN_CMP) if rng.random() < 0.75 else rng.choice(BIN_BUILD)
        return dict(q="BIN", on=i, op=op, arg=j)

    while any(pos[i] < len(hists[i]) for i in range(len(refs))):
        if steps and rng.random() < pbin:
            steps.append(some_binary())
            continue
        i = rng.choice([i for i in range(len(refs)) if pos[i] < len(hists[i])])
        # a burst on one object (a caller fills one object's caches, then turns to the other)
        for _ in range(rng.choice([1, 1, 2, 3])):
            if pos[i] < len(hists[i]):
                steps.append(dict(hists[i][pos[i]], on=i))
                pos[i] += 1
    for _ in range(rng.randint(1, 3)):
        steps.append(some_binary())
    return steps


def rand_refs(rng, max_states: int = 5):
    d, kind = L.shaped_dfa(rng, max_states)
    if not d.input_symbols:
        d, kind = DFA.from_finite_language({"a", "b"}, {"ab", "b"}), "finite_language"
    refs, kinds = [d], [kind]
    for _ in range(rng.choice([1, 1, 1, 2])):
        try:
            e, how = L4.related_partner(rng, rng.choice(refs))
        except Exception:  # noqa: BLE001
            e, how = d.copy(), "copy"
        if len(e.states) > 16:
            e, how = d.copy(), "copy"
        refs.append(e)
        kinds.append(how)
    return refs, kinds


# populating call groups of the bounded-exhaustive part of the multi-object family ("—" = the object stays fresh)
MULTI_MACROS = [
    [], [dict(q="C", k=0)], [dict(q="C", k=1)], [dict(q="C", k=3)], [dict(q="WO", k=1), "NX", "NX", "NX"],
    [dict(q="IO"), "NX", "NX"], [dict(q="CARD")], [dict(q="LEN")], [dict(q="MAX")], [dict(q="RW", k=2, seed=7)],
    [dict(q="C", k=2), dict(q="CLR")], [dict(q="C", k=2), dict(q="CLR"), dict(q="C", k=0)],
    [dict(q="FI", p=dict(start="a", strict=True, key={"a": 0, "b": 1}, reverse=False, min=0, max=4, n=1))],
    [dict(q="GO", op="minify")],
]


def multi_pairs():
    ab = {"a", "b"}
    fin = DFA.from_finite_language(ab, {"ab", "b"})
    fin2 = DFA.from_finite_language(ab, {"ab", "b", "ba"})
    sub = DFA.from_substring(ab, "aa")           # the non-final initial state has an incoming transition
    suf = DFA.from_suffix(ab, "ba")
    hand = DFA(states={0, 1, 2, 3}, input_symbols=ab, transitions={0: {"a": 1, "b": 2}, 1: {"a": 3}, 2: {"a": 2, "b": 2}, 3: {}},
               initial_state=0, final_states={1, 3}, allow_partial=True)
    uni = DFA.universal_language(ab)
    return [(fin, fin.copy()), (fin, fin.to_partial()), (fin, fin2), (sub, sub.copy()), (sub, L4._relabel(random.Random(1), sub)),
            (suf, suf.union(suf, minify=False)), (hand, hand.to_complete()), (uni, uni.minify())]


def multi_exhaustive(ctx: Ctx, depth3: bool):
    cmps = [dict(q="BIN", on=0, op=op, arg=1) for op in BIN_CMP] + [dict(q="BIN", on=1, op=op, arg=0) for op in ("eq", "ne", "lt")]
    n = 0
    for d0, d1 in multi_pairs():
        memo = {}
        shapes = [L.language_shape(d0), L.language_shape(d1)]

        def ok(m, i):
            return all(q == "NX" or q["q"] not in ("SU", "FI", "SO") or S.in_domain((d0, d1)[i], q["p"], shapes[i]) for q in m)
        for m0 in MULTI_MACROS:
            for m1 in MULTI_MACROS:
                if not (ok(m0, 0) and ok(m1, 1)) or HANGS >= MAX_HANGS:
                    continue
                thirds = [MULTI_MACROS[i] for i in (1, 3, 5, 6)] if depth3 else [None]
                for m2 in thirds:
                    steps = [dict(q, on=0) for q in expand_macros([m0])] + [dict(q, on=1) for q in expand_macros([m1])]
                    if m2 is not None:
                        # a third group, on the first object again (its handles continue the numbering of the first group)
                        both = expand_macros([m0, m2])
                        steps += [dict(q, on=0) for q in both[len(expand_macros([m0])):]]
                    run_multi_history(ctx, [d0, d1], steps + [dict(c) for c in cmps], "exhaustive", "frozen", memo)
                    n += 1
    ctx.exhaustive(f"multi-object histories: all pairs{' (thorough: + a third group on the first object)' if depth3 else ''} of "
                   f"{len(MULTI_MACROS)} cache-populating call groups (none, count 0/1/3, words 1 three steps, iter two "
                   "steps, cardinality, len, max, random_word, count+clear_cache, count+clear_cache+count 0, successor, minify), "
                   f"the first on d0, the second on d1, followed by all {len(BIN_CMP)} comparisons d0·d1 and ==, !=, < d1·d0, on "
                   f"{len(multi_pairs())} fixed pairs of DFAs over {{a,b}} (equal languages through different graphs, sub-/superset, unrelated)")


def multi_corpus():
    ab = {"a", "b"}
    fin = DFA.from_finite_language(ab, {"ab", "b"})
    u = lambda i, **q: dict(q, on=i)      # noqa: E731
    b = lambda i, op, j: dict(q="BIN", on=i, op=op, arg=j)      # noqa: E731
    # both operands have counted, one of them looked its (non-final) initial state up at length 0 (seed C20_w4m2)
    yield [fin, fin.copy()], [u(0, q="LEN"), u(1, q="C", k=0), b(0, "eq", 1), b(1, "eq", 0), b(0, "ne", 1), b(0, "lt", 1), b(0, "le", 1)]
    yield [fin, fin.minify(), fin.copy()], [u(0, q="CARD"), u(1, q="C", k=2), u(2, q="RW", k=2, seed=5), b(0, "eq", 1), b(1, "eq", 2),
                                            b(2, "ge", 0), b(0, "union", 1), b(2, "eq", 2), u(2, q="CLR"), b(2, "eq", 0), b(0, "gt", 2)]
    sub = DFA.from_substring(ab, "aa")
    yield [sub, sub.copy()], [u(0, q="C", k=3), u(1, q="C", k=0), b(0, "eq", 1), u(1, q="C", k=3), u(0, q="CLR"), u(0, q="C", k=1),
                              b(1, "eq", 0), b(0, "issubset", 1), b(0, "symmetric_difference", 1), b(0, "isdisjoint", 1)]
    # generators of both objects alive across comparisons and a clear_cache of the other object
    yield [sub, sub.minify()], [u(0, q="IO"), u(1, q="WO", k=3), u(0, q="NX", h=0), u(1, q="NX", h=0), b(0, "eq", 1), u(1, q="CLR"),
                                u(0, q="NX", h=0), u(1, q="NX", h=0), b(1, "le", 0), u(0, q="NX", h=0), u(1, q="NX", h=0), b(0, "op_xor", 1)]


def run_multi(ctx: Ctx):
    rng = ctx.rng
    for refs, steps in multi_corpus():
        for mode in Q3.LIVE_MODES:
            run_multi_history(ctx, refs, steps, "corpus", mode)
    multi_exhaustive(ctx, ctx.thorough())
    for _ in range(ctx.budget(260, 5000)):
        if HANGS >= MAX_HANGS:
            break
        refs, kinds = rand_refs(rng)
        for k in kinds[1:]:
            ctx.stat(f"multi_partner:{k}")
        mode = "frozen" if rng.random() < 0.6 else rng.choice(Q3.MUTABLE_MODES)
        run_multi_history(ctx, refs, interleave(rng, refs, rng.choice([3, 6, 10])), "random", mode)


# ------------------------------------------------------------------ history generators
def kmax_for(d: DFA) -> int:
    return {0: 3, 1: 8, 2: 6, 3: 4}.get(len(d.input_symbols), 3)


def rand_succ_query(rng, d: DFA, shape, bw, hi, kind):
    for _ in range(20):
        p = S.rand_params(rng, d, bw, shape, hi)
        if S.in_domain(d, p, shape):
            break
    else:
        return dict(q="EMPTY")
    S.set_n(rng, d, p, shape)
    p.pop("split", None)
    if rng.random() < 0.1:
        p["n"] = 0
    if kind == "SO":
        p["n"] = 0
        if p["reverse"] and rng.random() < 0.5:
            p["via_predecessors"] = True
    elif rng.random() < 0.4:
        p["keymode"] = "shared"
    return dict(q=kind, p=p)


def chain_queries(chain):
    """A C14 chain (correlated successor-search calls: each starts at the word the previous one returned —
    computed with the brute-force oracle when the history is generated — with strictness / direction / window /
    ranking / wrapper changed in between) as atomic history queries."""
    return [dict(q="FI" if p["call"] in ("successor", "predecessor") else "SU", p=p) for p in chain]


def rand_history(rng, d: DFA, length: int):
    kmax = kmax_for(d)
    shape = L.language_shape(d)
    hi = S.hi_for(d, shape)
    can_succ = bool(d.input_symbols) and len(d.input_symbols) ** hi <= 3000
    bw = L.brute_words(d, hi) if can_succ else {}
    sy = sorted(d.input_symbols)
    hist = []
    handles = 0
    live = []
    orc = None
    while len(hist) < length:
        r = rng.random()
        k = rng.choice([0, 1, 2, kmax, rng.randint(0, kmax), rng.randint(0, kmax)])
        if r < 0.07:
            hist.append(dict(q="A", w=gen.rand_word(rng, sy, 6)))
        elif r < 0.22:
            hist.append(dict(q="C", k=k))
        elif r < 0.32:
            hist.append(dict(q="WO", k=k)); live.append(handles); handles += 1
        elif r < 0.37:
            hist.append(dict(q="IO")); live.append(handles); handles += 1
        elif r < 0.60 and live:
            h = rng.choice(live)
            for _ in range(rng.choice([1, 1, 2, 4])):
                hist.append(dict(q="NX", h=h))
            if rng.random() < 0.15:
                live.remove(h)  # abandoned
        elif r < 0.64:
            hist.append(dict(q="CARD"))
        elif r < 0.66:
            hist.append(dict(q="LEN"))
        elif r < 0.70:
            hist.append(dict(q="MIN"))
        elif r < 0.74:
            hist.append(dict(q="MAX"))
        elif r < 0.77:
            hist.append(dict(q="EMPTY"))
        elif r < 0.80:
            hist.append(dict(q="FINITE"))
        elif r < 0.86:
            hist.append(dict(q="RW", k=k, seed=rng.randrange(1 << 30)))
        elif r < 0.885 and can_succ:
            q = rand_succ_query(rng, d, shape, bw, hi, rng.choice(["SU", "SU", "FI"]))
            hist.append(q)
            if q["q"] != "EMPTY" and q["p"].get("keymode") == "shared" and rng.random() < 0.6:
                # the same callable again, after the ranking behind it has changed
                q2 = rand_succ_query(rng, d, shape, bw, hi, q["q"])
                if q2["q"] != "EMPTY":
                    q2["p"]["keymode"] = "shared"
                    if rng.random() < 0.7:
                        q2["p"]["reverse"] = q["p"]["reverse"] if S.in_domain(d, dict(q2["p"], reverse=q["p"]["reverse"]), shape) else q2["p"]["reverse"]
                    hist.append(q2)
        elif r < 0.905 and can_succ and not shape["empty"]:
            orc = orc or S.ChainOracle(d, shape, hi, bw)
            hist.extend(chain_queries(S.rand_chain(rng, d, orc)))
        elif r < 0.925 and can_succ:
            q = rand_succ_query(rng, d, shape, bw, hi, "SO")
            if q["q"] == "SO":
                hist.append(q); live.append(handles); handles += 1
                if rng.random() < 0.5:
                    hist.append(dict(q="NX", h=handles - 1))
        elif r < 0.953:
            hist.append(dict(q="CLR"))
        elif r < 0.975:
            hist.append(dict(q="GO", op=rng.choice(sorted(GRAPH_OPS))))
        else:
            hist.append(dict(q="OT", op=rng.choice(OTHER_OPS)))
    return hist[:length], kmax


def other_for(rng, d: DFA) -> DFA:
    r = rng.random()
    if r < 0.3:
        return d.copy()
    if r < 0.5:
        return d.complement(minify=False) if not d.allow_partial else gen.rand_dfa(rng, 4, alphabet=sorted(d.input_symbols))
    return gen.rand_dfa(rng, 4, alphabet=sorted(d.input_symbols))


MACROS = [
    [dict(q="C", k=0)], [dict(q="C", k=2)], [dict(q="C", k=4)],
    [dict(q="WO", k=1), "NX", "NX", "NX", "NX"], [dict(q="WO", k=3), "NX"], [dict(q="WO", k=2)],
    [dict(q="IO"), "NX", "NX"], [dict(q="CARD")], [dict(q="MIN")], [dict(q="MAX")], [dict(q="FINITE")],
    [dict(q="RW", k=2, seed=7)], [dict(q="CLR")],
    [dict(q="SU", p=dict(start=None, strict=True, key={"a": 0, "b": 1}, reverse=False, min=0, max=2, n=3))],
    [dict(q="FI", p=dict(start="b", strict=False, key={"a": 0, "b": 1}, reverse=True, min=0, max=None, n=1))],
    [dict(q="SO", p=dict(start=None, strict=True, key={"a": 0, "b": 1}, keymode="none", reverse=False, min=0, max=2, n=0)),
     "NX", "NX"],
    [dict(q="GO", op="to_partial")], [dict(q="GO", op="minify_keep")],
]


def expand_macros(ms):
    hist, handles = [], 0
    for m in ms:
        h = None
        for q in m:
            if q == "NX":
                hist.append(dict(q="NX", h=h))
            else:
                hist.append(dict(q))
                if q["q"] in ("WO", "IO", "SO"):
                    h = handles
                    handles += 1
    return hist


def twenty_dfas():
    ab = {"a", "b"}
    out = [DFA.empty_language(ab), DFA.universal_language(ab),
           DFA.from_finite_language(ab, {"", "a", "ab", "b", "ba", "bb"}),
           DFA.from_finite_language(ab, {"ab", "b", "ba"}),
           DFA.from_finite_language(ab, {"aaaa"}),
           DFA.of_length(ab, min_length=2, max_length=3), DFA.count_mod(ab, 2), DFA.from_prefix(ab, "ab"),
           DFA.from_suffix(ab, "ba"), DFA.from_substring(ab, "aa"), DFA.nth_from_end(ab, "a", 2),
           DFA(states={0}, input_symbols=ab, transitions={0: {}}, initial_state=0, final_states={0}, allow_partial=True),
           DFA(states={0, 1, 2}, input_symbols=ab, transitions={0: {"a": 1, "b": 2}, 1: {}, 2: {"a": 2, "b": 2}},
               initial_state=0, final_states={1}, allow_partial=True),
           DFA(states={0, 1}, input_symbols=ab, transitions={0: {"a": 1, "b": 0}, 1: {"b": 1}}, initial_state=0,
               final_states={1}, allow_partial=True)]
    k = 0
    for d in gen.all_dfas(2, ("a", "b")):
        k += 1
        if k % 61 == 7 and len(out) < 20:
            out.append(d)
    return out[:20]


def corpus():
    ab = {"a", "b"}
    fin = DFA.from_finite_language(ab, {"ab", "b", "ba", "abba", "bbbbb"})
    uni = DFA.universal_language(ab)
    # m42 killer: a short count after the word cache has grown long
    yield fin, [dict(q="WO", k=5), dict(q="NX", h=0), dict(q="C", k=2), dict(q="C", k=1), dict(q="C", k=5)]
    yield uni, [dict(q="WO", k=5), dict(q="NX", h=0), dict(q="C", k=2), dict(q="RW", k=2, seed=3), dict(q="CARD")]
    # shorter after longer and vice versa, clear in between, generators across a clear
    yield fin, [dict(q="C", k=5), dict(q="C", k=2), dict(q="CLR"), dict(q="C", k=2), dict(q="C", k=5)]
    yield fin, [dict(q="WO", k=2), dict(q="IO"), dict(q="NX", h=1), dict(q="CLR"), dict(q="NX", h=0), dict(q="NX", h=1),
                dict(q="NX", h=1), dict(q="C", k=3), dict(q="NX", h=1), dict(q="NX", h=1), dict(q="NX", h=1), dict(q="CARD")]
    yield uni, [dict(q="IO"), dict(q="NX", h=0), dict(q="NX", h=0), dict(q="CLR"), dict(q="NX", h=0), dict(q="NX", h=0),
                dict(q="WO", k=0), dict(q="NX", h=1), dict(q="NX", h=1), dict(q="FINITE"), dict(q="CARD"), dict(q="LEN")]
    yield DFA.empty_language(ab), [dict(q="IO"), dict(q="NX", h=0), dict(q="MIN"), dict(q="CARD"), dict(q="MIN"),
                                   dict(q="MAX"), dict(q="FINITE"), dict(q="RW", k=0, seed=1), dict(q="NX", h=0)]
    # one key callable (rank.get of a shared dict) reused after the ranking behind it changed (seed C20_w2m1)
    kab, kba = {"a": 0, "b": 1}, {"a": 1, "b": 0}
    sp = lambda key, rev, start, n=8: dict(start=start, strict=True, key=key, keymode="shared", reverse=rev, min=0, max=3, n=n)
    yield fin, [dict(q="FI", p=sp(kab, False, "")), dict(q="FI", p=sp(kba, False, "")), dict(q="SU", p=sp(kab, False, None)),
                dict(q="SU", p=sp(kba, False, None)), dict(q="SU", p=sp(kba, True, None)), dict(q="SU", p=sp(kab, True, None)),
                dict(q="FI", p=sp(kab, True, "bb")), dict(q="CLR"), dict(q="FI", p=sp(kba, True, "bb"))]
    yield uni, [dict(q="SU", p=sp(kba, False, "a", 5)), dict(q="SU", p=sp(kab, False, "a", 5)), dict(q="FI", p=sp(kba, False, "ab"))]
    # live successors / predecessors generators across clear_cache, other generators, minify / to_partial
    so = lambda rev, start, **kw: dict(q="SO", p=dict(dict(start=start, strict=True, key=kab, keymode="none", reverse=rev, min=0, max=None, n=0), **kw))
    yield fin, [so(False, None), dict(q="NX", h=0), dict(q="CLR"), dict(q="NX", h=0), so(True, "bb", via_predecessors=True),
                dict(q="NX", h=1), dict(q="GO", op="to_partial"), dict(q="NX", h=0), dict(q="NX", h=1), dict(q="C", k=3),
                dict(q="NX", h=0), dict(q="NX", h=0), dict(q="NX", h=0), dict(q="NX", h=0), dict(q="NX", h=1), dict(q="NX", h=1)]
    yield uni, [so(True, "ab"), dict(q="FINITE"), dict(q="NX", h=0), dict(q="NX", h=0), so(False, "b", max=2),
                dict(q="GO", op="minify"), dict(q="NX", h=1), dict(q="CLR"), dict(q="NX", h=1), dict(q="NX", h=1), dict(q="NX", h=1)]
    # correlated successor-search calls (seed C20_w3m3): `w = successor(w)` loops whose every answer is asked about
    # again — non-strictly, strictly, in the other direction, with another window, through the generator — with
    # key=None / one shared callable / fresh callables, other queries and clear_cache in between
    no11 = DFA.from_substring({"0", "1"}, "11", contains=False)
    for dd, hi_ in ((fin, None), (uni, 3), (no11, 4)):
        orc = S.ChainOracle(dd)
        sy_ = sorted(dd.input_symbols)
        cp, rv = {c: i for i, c in enumerate(sy_)}, {c: -i for i, c in enumerate(sy_)}
        for keymode, key in (("none", cp), ("shared", rv), ("none_explicit", cp), ("int", cp)):
            for start in ("", sy_[-1]):
                ch = chain_queries(S.walk_chain(orc, start, 0, hi_, keymode, key))
                yield dd, ch[:24]
                mixed = []
                for i_, q_ in enumerate(ch[:18]):
                    mixed.append(q_)
                    if i_ % 5 == 2:
                        mixed.append([dict(q="C", k=2), dict(q="CLR"), dict(q="MAX")][(i_ // 5) % 3])
                yield dd, mixed
        if orc.shape["finite"]:
            yield dd, chain_queries(S.walk_chain(orc, sy_[-1] * 5, 0, hi_, "none", cp, reverse=True))[:24]
    part = DFA(states={0, 1, 2, 3}, input_symbols=ab, transitions={0: {"a": 1, "b": 2}, 1: {"a": 3}, 2: {"a": 2, "b": 2}, 3: {}},
               initial_state=0, final_states={1, 3}, allow_partial=True)
    yield part, [dict(q="GO", op="minify"), dict(q="MAX"), dict(q="GO", op="to_partial_plain"), so(True, None), dict(q="NX", h=0),
                 dict(q="GO", op="minify_keep"), dict(q="NX", h=0), dict(q="NX", h=0), dict(q="GO", op="to_partial_keep"), dict(q="CARD")]


def nfa_corpus():
    from automata.fa.nfa import NFA
    n = NFA(states={0, 1, 2}, input_symbols={"a", "b"},
            transitions={0: {"": {1}, "a": {0}}, 1: {"b": {2}, "": {0}}, 2: {"a": {2}, "": {2}}},
            initial_state=0, final_states={2})
    other = NFA(states={0, 1}, input_symbols={"a", "b"}, transitions={0: {"a": {0}, "b": {1}}, 1: {"a": {1}}},
                initial_state=0, final_states={1})
    yield n, other, [dict(q="EQ"), dict(q="A", w="ab"), dict(q="READ", w="aba"), dict(q="DET"), dict(q="A", w="ba"),
                     dict(q="ELIM", ws=["", "b", "ab", "ba"]), dict(q="READ", w="bb"), dict(q="A", w="ab"), dict(q="EQ")]
    yield n, n.copy(), [dict(q="READ", w=""), dict(q="VAL"), dict(q="A", w=""), dict(q="A", w="b#"), dict(q="EQ")]
    # a lambda cycle of length 3 entered at different members by different first symbols, several reads in a row (seed C20_w4m3)
    cyc = NFA(states={"S", "A", "B", "C", "F"}, input_symbols={"x", "y", "z", "a", "b", "c"},
              transitions={"S": {"x": {"A"}, "y": {"B"}, "z": {"C"}}, "A": {"": {"B"}, "a": {"F"}}, "B": {"": {"C"}, "b": {"F"}},
                           "C": {"": {"A"}, "c": {"F"}}, "F": {}}, initial_state="S", final_states={"F"})
    yield cyc, cyc.copy(), [dict(q="A", w="xa"), dict(q="A", w="ya"), dict(q="A", w="za"), dict(q="READ", w="yc"), dict(q="A", w="zb"),
                            dict(q="EQ"), dict(q="DET"), dict(q="ELIM", ws=["xa", "ya", "zb", "xc"]), dict(q="OA", w="zc"), dict(q="QE")]
    yield cyc, cyc.eliminate_lambda(), [dict(q="READ", w="zb"), dict(q="READ", w="xc"), dict(q="A", w="yb"), dict(q="QE"), dict(q="A", w="ya"),
                                        dict(q="OA", w="ya"), dict(q="EQ")]
    # two simultaneously active states move on the same symbol (an accumulator aliased to a target set: seed C20_w4m1)
    par = NFA(states={0, 1, 2, 3}, input_symbols={"a", "b"},
              transitions={0: {"a": {0, 1}, "b": {0}}, 1: {"a": {2}, "b": {3}}, 2: {"a": {2}, "b": {1}}, 3: {}},
              initial_state=0, final_states={3})
    yield par, par.copy(), [dict(q="A", w="aab"), dict(q="A", w="ab"), dict(q="A", w="b"), dict(q="READ", w="abb"), dict(q="EQ"),
                            dict(q="DET"), dict(q="OA", w="aab"), dict(q="OA", w="bb"), dict(q="QE"), dict(q="A", w="bb")]


# ------------------------------------------------------------------ round 7: DEEP / LARGE instances, LONG query sequences
# The property quantifies over every valid DFA / NFA and every finite history; all generators above stay at ≤ 6 states,
# lengths ≤ 8 and ≤ 30 calls.  A cache that is coherent only while it is SMALL — `while len(cache) <= k` rewritten as a
# recursion over k (RecursionError near depth 1000, but only when the long length is asked FIRST), a bare lru_cache (128
# entries) behind a query, a level list cut off at a fixed size, a recursive closure walk — passes all of them.  This
# family (harness/c20_deep.py) builds big objects from small JSON specs with the library's own constructors, runs long
# histories on ONE object each and judges every answer by a CLOSED FORM derived from the construction parameters —
# independent of the library and of the Lean model: NO model round trip is made for the big instances (stat
# `deep:closed_form_oracle_no_model_round_trip`).  The closed forms are tied to the real code twice: `selfcheck`
# (membership predicate vs the real accepts_input on the boundary words of every big DFA) and the SMALL TWINS: every
# template is also instantiated at ≤ 8 states / lengths ≤ 8, judged by the closed form AND run through this module's
# existing oracle (run_history / run_nfa_history: fresh copy per call + Lean HISTORY / NHISTORY replay); a twin on which
# the closed form objects while the existing oracle is content is an InfraError of the harness, not a finding.
# A wrong answer is re-confirmed on newly built objects (the step alone as the FIRST call on a fresh object, else the
# recorded prefix); the replay carries the specs and the steps.  Every real call runs under a watchdog (10 s).
DEEP_STOP = 3


def deep_report(ctx: Ctx, family: str, case: dict, r, run_fn, show, standalone) -> None:
    i, msg, got = r
    steps = case["steps"]
    spec, other = case["spec"], case["other"]
    expr = DD.expr_dfa(spec) if family == "dfa" else DD.DeepNFA(spec).expr()
    alone = run_fn(spec, other, [steps[i]]) if standalone(steps[i]) else "n/a"
    prefix = run_fn(spec, other, steps[: i + 1])
    again = prefix is not None and prefix[0] == i
    if alone not in (None, "n/a"):
        small, m2 = [steps[i]], alone[1]
        what = (f"{show(steps[i])} {m2} — FIRST call on a fresh object: {expr}"
                + ("" if again else f" (asked after {i} earlier calls on one object the answer was {DD.short(got)})"))
    elif again:
        small, m2 = steps[: i + 1], prefix[1]
        what = (f"{show(steps[i])} {m2} — call #{i} on ONE object after {i} earlier calls"
                + (" (asked as the first call on a fresh object the construction's answer is given)" if alone is None else "")
                + f": {expr}; earlier calls: " + "; ".join(show(s) for s in steps[max(0, i - 6): i]))
    else:
        ctx.stat("deep:failure_not_reproduced")
        if got == ("err", "_Timeout"):
            ctx.note(f"deep family: {show(steps[i])} on {expr} timed out once and answered on the second try")
        else:
            ctx.corr_diff("deep-not-reproduced", dict(automaton=expr, spec=spec, other=other, steps=steps[: i + 1]),
                          DD.short(got), msg)
        return
    ctx.stat(f"deep:{family}:property_failure")
    ctx.prop_fail(what, dict(kind="deep", family=family, automaton=expr, spec=spec, other=other, steps=small, what=what), None)


@case_guard
def check_deep(ctx: Ctx, family: str, case: dict):
    if L.TIMEOUTS >= DEEP_STOP:
        ctx.stat("deep:skipped_after_timeouts")
        return
    spec, other, steps, name = case["spec"], case["other"], case["steps"], case["name"]
    t0 = time.time()
    if family == "dfa":
        n_probe, bad = DD.selfcheck_dfa(spec, ctx.rng)
        for _ in range(n_probe):
            ctx.stat("deep:selfcheck_words_through_accepts_input")
        if bad is not None:
            ctx.stat("deep:selfcheck_disagreement")
            ctx.corr_diff("deep-closed-form", dict(automaton=DD.expr_dfa(spec), spec=spec, word=DD.short(bad)),
                          "accepts_input disagrees", "closed-form membership")
            return
        size = DD.DP.DeepLang(spec).n_states_expected()
        run_fn, show, standalone = DD.run_dfa, DD.show_step, (lambda s: s["q"] in DD.STANDALONE)
    else:
        size = DD.DeepNFA(spec).n_states()
        run_fn, show, standalone = DD.run_nfa, DD.show_nstep, (lambda s: True)
    ctx.stat(f"deep:{family}:{name}")
    ctx.stat(f"deep:states:{size // 500 * 500}+")
    ctx.stat("deep:closed_form_oracle_no_model_round_trip")
    ctx.stat(f"deep:history_len:{len(steps) // 50 * 50}+")

    def on_step(s, got):
        ctx.case(None)
        ctx.stat(f"deep_q:{s['q']}")
        k = s.get("k")
        if isinstance(k, int) and k >= 1000:
            ctx.stat(f"deep_q:{s['q']}:length_1000+")
        if "w" in s and sum(len(u) * r for u, r in s["w"]) >= 1000:
            ctx.stat(f"deep_q:{s['q']}:input_1000+_symbols")

    r = run_fn(spec, other, steps, on_step)
    ctx.case(("deep", family, DD.key_of(case), len(steps)))
    if ctx.stats.get(f"deep:{family}:{name}", 0) == 1:
        ctx.sample(dict(deep=name, automaton=(DD.expr_dfa(spec) if family == "dfa" else DD.DeepNFA(spec).expr()), states=size,
                        calls_on_one_object=len(steps), first_calls=[show(s) for s in steps[:10]]))
    if r is not None:
        deep_report(ctx, family, case, r, run_fn, show, standalone)
    elif family == "dfa":
        # the same answers from a FRESH object: a few of the plain queries, each as the first call on its own object
        plain = [s for s in steps if s["q"] in DD.STANDALONE and s["q"] != "cmp"]
        big = [s for s in plain if s.get("k", 0) >= 1000][:1] + [s for s in plain if s["q"] in ("card", "succ")][:1]
        for s in big + [ctx.rng.choice(plain)]:
            ctx.stat("deep:plain_query_asked_again_as_first_call_on_a_fresh_object")
            r1 = DD.run_dfa(spec, other, [s])
            ctx.case(None)
            if r1 is not None:
                deep_report(ctx, family, dict(case, steps=[s]), r1, run_fn, show, standalone)
                break


@case_guard
def deep_twin(ctx: Ctx, family: str, case: dict):
    """The template at ≤ 8 states: closed form AND the existing oracle of this module (fresh copy + Lean model)."""
    spec, other, steps = case["spec"], case["other"], case["steps"]
    before = (ctx.n_prop_fails, ctx.n_corr_diffs)
    ctx.stat(f"deep:twin:{family}:{case['name']}")
    if family == "dfa":
        r = DD.run_dfa(spec, other, steps)
        d = DD.build_dfa(spec)
        o = DD.build_dfa(other) if other is not None else d.copy()
        hist = DD.to_c20_history(spec, steps)
        kmax = max([3] + [q["k"] for q in hist if "k" in q])
        run_history(ctx, d, o, hist, "deep-twin", kmax)
        show = DD.show_step
    else:
        r = DD.run_nfa(spec, other, steps)
        n = DD.DeepNFA(spec).build()
        o = DD.DeepNFA(other).build() if other is not None else n.copy()
        run_nfa_history(ctx, n, o, DD.to_c20_nfa_history(steps), "deep-twin")
        show = DD.show_nstep
    for _ in steps:
        ctx.stat("deep:twin_answers_judged_by_closed_form_and_existing_oracle")
    if r is not None:
        if (ctx.n_prop_fails, ctx.n_corr_diffs) == before:
            raise InfraError(f"C20 deep family: on the small twin {json.dumps(spec)} the closed form objects to "
                             f"{show(steps[r[0]])} {r[1]} while the fresh-copy oracle and the Lean model are content")
        deep_report(ctx, family, case, r, DD.run_dfa if family == "dfa" else DD.run_nfa, show,
                    (lambda s: s["q"] in DD.STANDALONE) if family == "dfa" else (lambda s: True))


def deep_family(ctx: Ctx):
    rng = ctx.rng
    t0 = time.time()
    for family, templates in (("dfa", DD.DFA_TEMPLATES), ("nfa", DD.NFA_TEMPLATES)):
        for t in templates:
            deep_twin(ctx, family, t(rng, DD.Profile(rng, False)))
    t1 = time.time()
    for family, templates in (("dfa", DD.DFA_TEMPLATES), ("nfa", DD.NFA_TEMPLATES)):
        for t in templates:
            check_deep(ctx, family, t(rng, DD.Profile(rng, True)))
    ctx.note(f"deep / large family: twins {t1 - t0:.1f}s, big instances {time.time() - t1:.1f}s")


def run(ctx: Ctx):
    rng = ctx.rng
    deep_family(ctx)
    for i, (d, hist) in enumerate(corpus()):
        run_history(ctx, d, d.copy(), hist, "corpus", kmax_for(d))
        # round 4: the same history on an object built under allow_mutable_automata=True (plain / aliased containers)
        run_history(ctx, d, d.copy(), [dict(q) for q in hist], "corpus", kmax_for(d), Q3.MUTABLE_MODES[i % 3])
    # ---- bounded-exhaustive: all macro histories of length ≤ L on 20 DFAs
    Lmax = 3 if ctx.thorough() else 2
    dfas = twenty_dfas()
    for i, d in enumerate(dfas):
        other = dfas[(2 + 7 * i) % len(dfas)]
        for n in range(1, Lmax + 1):
            for ms in itertools.product(MACROS, repeat=n):
                hist = expand_macros(ms)
                ok = True
                shape = None
                for q in hist:
                    if q["q"] in ("SU", "FI", "SO"):
                        shape = shape or L.language_shape(d)
                        ok = ok and S.in_domain(d, q["p"], shape)
                if ok and HANGS < MAX_HANGS:
                    run_history(ctx, d, other, hist, "exhaustive", 5)
    ctx.exhaustive(f"all sequences of ≤{Lmax} call groups out of {len(MACROS)} (count 0/2/4, words 1 exhausted, words 3 one step, "
                   "words 2 unopened, iter two steps, cardinality, min, max, isfinite, random_word, clear_cache, "
                   "successors, predecessor, successors generator two steps, to_partial, minify) on 20 fixed DFAs over {a,b}")
    # ---- random histories
    for _ in range(ctx.budget(700, 25000)):
        if HANGS >= MAX_HANGS:
            ctx.note(f"{HANGS} histories ended by a real call that did not return within {S.TIMEOUT_S}s / its memory "
                     "allowance; random histories cut short")
            break
        d, kind = L.shaped_dfa(rng, 6)
        if not d.input_symbols:
            continue
        ctx.stat(f"kind:{kind}")
        hist, kmax = rand_history(rng, d, rng.choice([5, 10, 20, 30, 30]))
        mode = "frozen" if rng.random() < 0.75 else rng.choice(Q3.MUTABLE_MODES)
        run_history(ctx, d, other_for(rng, d), hist, "random", kmax, mode)
    # ---- round 4: histories over two / three live objects, binary calls between them; mutable-option modes
    t0 = time.time()
    run_multi(ctx)
    ctx.note(f"multi-object family: {time.time() - t0:.1f}s")
    # ---- NFA side (lambda-closure memo): fresh-copy oracle + NHISTORY correspondence
    for n, other, hist in nfa_corpus():
        for mode in Q3.LIVE_MODES:
            run_nfa_history(ctx, n, other, hist, "corpus", mode)
    nfa_cycle_exhaustive(ctx, ctx.thorough())
    for _ in range(ctx.budget(400, 7000)):
        nfa_history(ctx, rng)


# ------------------------------------------------------------------ NFA side (NHISTORY: the lambda-closure memo)
NFA_VIA = ["EQ", "DET", "ELIM"]     # read `_get_lambda_closures()` through the memo; opaque in the model


def nfa_read(n, w, st=None):
    """read_input_stepwise consumed to its end: (configurations, terminating exception class)."""
    out = []
    try:
        for c in n.read_input_stepwise(w):
            out.append(sorted(st(q) for q in c) if st else sorted(map(repr, c)))
        return (out, None)
    except Exception as e:  # noqa: BLE001
        return (out, type(e).__name__)


def nfa_answer(n, other, q, st=None):
    k = q["q"]
    if k == "A":
        return call(lambda: n.accepts_input(q["w"]))
    if k == "EQ":
        return call(lambda: n == other)
    if k == "DET":
        return call(lambda: L_dfa_sig(DFA.from_nfa(n)))
    if k == "ELIM":
        return call(lambda: sorted(w for w in q["ws"] if n.eliminate_lambda().accepts_input(w)))
    if k == "READ":
        return ("ok", nfa_read(n, q["w"], st))
    if k == "VAL":
        return call(lambda: n.validate())
    if k == "OA":       # a query answered by the OTHER live object (it has a history of its own)
        return call(lambda: other.accepts_input(q["w"]))
    if k == "QE":       # the comparison asked from the other side
        return call(lambda: other == n)
    raise InfraError(f"unknown NFA query {q}")


def L_dfa_sig(d: DFA):
    """Language signature of a DFA result: accepted words up to length 4."""
    sy = sorted(d.input_symbols)
    return [w for w in gen.words_upto(sy, 4 if len(sy) <= 2 else 3) if d.accepts_input(w)]


def nfa_memo(n):
    name = "_get_lambda_closures"
    return int(name in n.__dict__ and n.__dict__[name].cache_info().currsize > 0)


def enc_nquery(sy, q):
    k = q["q"]
    if k == "A":
        return toks("A", enc_word(sy, q["w"]))
    if k == "READ":
        return toks("RD", enc_word(sy, q["w"]))
    if k in NFA_VIA:
        return toks("VC", NFA_VIA.index(k))
    if k == "QE":
        return toks("VC", 0)
    return toks("OT", 0)


def parse_nanswer(text: str):
    t = Toks(text)
    k = t.next()
    if k == "bool":
        return ("ok", bool(t.int()))
    if k == "exn":
        return ("err", t.next())
    if k == "configs":
        cs = t.many(lambda: sorted(t.ints()))
        e = t.next()
        return ("ok", (cs, None if e == "-" else e))
    if k == "opaque":
        return ("opaque",)
    raise InfraError(f"cannot parse NFA model answer {text!r}")


def rand_nfa_history(rng, n, other=None, pool=None):
    """`pool`: words worth asking about on this NFA (for lambda-cycle NFAs: the words that enter the cycle at its
    different members); reads come in bursts of 1–4 in a row."""
    sy = sorted(n.input_symbols)
    osy = sorted(other.input_symbols) if other is not None else sy
    hist = []

    def word(limit=6):
        if pool and rng.random() < 0.75:
            w = rng.choice(pool)
            return w + (gen.rand_word(rng, sy, 2) if rng.random() < 0.25 else "")
        w = gen.rand_word(rng, sy, limit)
        if rng.random() < 0.05:
            w += gen.foreign_symbol(n.input_symbols)
        return w

    for _ in range(rng.choice([4, 8, 12])):
        r = rng.random()
        if r < 0.40:
            for _ in range(rng.choice([1, 1, 2, 3, 4]) if pool else 1):
                hist.append(dict(q="A", w=word()))
        elif r < 0.58:
            for _ in range(rng.choice([1, 2]) if pool else 1):
                hist.append(dict(q="READ", w=word(5)[:5]))
        elif r < 0.68:
            hist.append(dict(q="EQ"))
        elif r < 0.72:
            hist.append(dict(q="QE"))
        elif r < 0.80:
            hist.append(dict(q="OA", w=gen.rand_word(rng, osy, 5)))
        elif r < 0.88:
            hist.append(dict(q="DET"))
        elif r < 0.96:
            hist.append(dict(q="ELIM", ws=[word(5) for _ in range(4)]))
        else:
            hist.append(dict(q="VAL"))
    return hist


def nfa_sweep_words(n):
    """≤ 16 short words, chosen by the definition alone (all words of length ≤ 2, thinned out evenly)."""
    ws = list(gen.words_upto(sorted(n.input_symbols), 2))
    step = -(-len(ws) // 16)
    return ws[::step] if step > 1 else ws


@case_guard
def run_nfa_history(ctx: Ctx, n, other, hist, origin: str, mode: str = "frozen"):
    """The NFA half of the property (cached lambda closures): every answer on a long-lived NFA must
    equal the answer on a fresh copy (property, independent of the model) and the answer of the
    Lean instance machine `nstep` (NHISTORY); the memoised closure table of the real object must
    stay equal to a fresh one.  Round 4: `other` is a second LIVE object (queries `OA` are answered by it, `EQ` / `QE`
    compare the two live objects; the fresh answer uses fresh copies of both); `mode`: both live objects — and every
    fresh copy — are built by c20_lib4.build_live_nfa (default frozen copy, or under allow_mutable_automata=True from
    a deep copy of the constructor arguments: plain / aliased containers, copy of such an object), `n` / `other` are
    the frozen twins; after the history acceptance of every short word is asked once more."""
    with Q3.mutable_option(mode):
        return _run_nfa_history(ctx, n, other, hist, origin, mode)


def _run_nfa_history(ctx: Ctx, n, other, hist, origin: str, mode: str):
    enc, st, sy = enc_nfa(n)
    keep = []
    inst = L4.build_live_nfa(n, mode, keep)
    other_live = L4.build_live_nfa(other, mode, keep)
    real, memos, bad = [], [], []
    fresh_table = None
    rp = lambda h, what: dict(dict(kind="nfa", automaton=repr(n), other=repr(other), history=h, what=what),      # noqa: E731
                              **({} if mode == "frozen" else {"mode": mode}))
    for i, q in enumerate(hist):
        a = nfa_answer(inst, other_live, q, st)
        f = nfa_answer(L4.build_live_nfa(n, mode, keep), L4.build_live_nfa(other, mode, keep), q, st)
        real.append(a)
        memos.append(nfa_memo(inst))
        ctx.case(None)
        ctx.stat(f"nfa_q:{q['q']}")
        if a != f:
            bad.append((i + 1, f"NFA call #{i} {q} after {i} earlier calls answered {str(a)[:120]}; "
                               f"a fresh copy answers {str(f)[:120]}"))
        if memos[-1]:
            if fresh_table is None:
                c = L4.build_live_nfa(n, mode, keep)          # keep the receiver referenced (cached_method holds it weakly)
                fresh_table = {k: frozenset(v) for k, v in dict(c._get_lambda_closures()).items()}
            if {k: frozenset(v) for k, v in dict(inst._get_lambda_closures()).items()} != fresh_table:
                ctx.corr_diff("NHISTORY closure memo content", dict(automaton=repr(n), history=hist[: i + 1], mode=mode),
                              repr(dict(inst._get_lambda_closures()))[:300], repr(fresh_table)[:300])
    # final sweep: acceptance of every short word, long-lived object (and the other live object) against fresh copies
    extra = []
    if hist:
        for x, ref, kind in ((inst, n, "A"), (other_live, other, "OA")):
            for w in nfa_sweep_words(ref):
                c = L4.build_live_nfa(ref, mode, keep)      # a fresh copy per question
                a, f = call(lambda: x.accepts_input(w)), call(lambda: c.accepts_input(w))
                ctx.case(None)
                if a != f:
                    # the sweep question is one more call of the history: the replay carries it as its last call
                    extra.append(dict(q=kind, w=w))
                    bad.append((len(hist) + 1, f"NFA call #{len(hist)} {extra[0]} after {len(hist)} earlier calls answered {a}; "
                                               f"a fresh copy answers {f}"))
                    break
            if extra:
                break
        if mode != "frozen" and L4.nfa_definition_of(inst) != L4.nfa_definition_of(n):
            ctx.stat("nfa:definition_changed_under_the_mutable_option")      # C18's clause; here only counted
    ctx.case((enc, mode, json.dumps(hist, sort_keys=True)) if len(hist) >= 2 and n.final_states else None)
    ctx.stat(f"nfa_origin:{origin}")
    ctx.stat(f"nfa_live_mode:{mode}")
    for upto, what in bad:
        ctx.prop_fail(what, rp((hist + extra)[:upto], what), None)
    line = ctx.driver(L.DRV).ask(toks("NHISTORY", enc, len(hist), [enc_nquery(sy, q) for q in hist]))
    for i, (q, a, mm, part) in enumerate(zip(hist, real, memos, line.split(" | ") if hist else [])):
        ans, memo, same = part.split(" ; ")
        m = parse_nanswer(ans)
        if same.strip() != "1":
            ctx.corr_diff("NHISTORY nstep≠nstepPure (model theorem violated at run time)", dict(automaton=repr(n), history=hist[: i + 1]), a, ans)
        if m != ("opaque",) and m != a and not bad:
            ctx.corr_diff("NHISTORY answer", dict(automaton=repr(n), history=hist[: i + 1], index=i, mode=mode), a, m)
        ctx.stat("nfa_snapshot:memo_flag_equal" if int(memo) == mm else "nfa_snapshot:memo_flag_differs_from_model")


def nfa_history(ctx: Ctx, rng):
    r = rng.random()
    pool = None
    if r < 0.3:
        n, kind = L4.lambda_cycle_nfa(rng), "lambda_cycle_3_to_5"
        pool = L4.cycle_words(n)
    elif r < 0.4:
        n, kind = gen.rand_nfa(rng, 6, eps=0.8, min_states=4), "lambda_dense"
    else:
        n, kind = gen.rand_nfa(rng, 5), "rand"
    sy = sorted(n.input_symbols)
    r = rng.random()
    other = n.copy() if r < 0.4 else gen.rand_nfa(rng, 4, alphabet=sy) if r < 0.8 else n.eliminate_lambda()
    mode = "frozen" if rng.random() < 0.55 else rng.choice(Q3.MUTABLE_MODES)
    ctx.stat(f"nfa_kind:{kind}")
    run_nfa_history(ctx, n, other, rand_nfa_history(rng, n, other, pool), "random", mode)


def nfa_cycle_exhaustive(ctx: Ctx, depth3: bool):
    """Fixed NFAs with one lambda cycle of length 3, 4, 5 (every member is an entry point with its own first symbol;
    one or two members carry the exit to the final state): all ordered pairs (thorough: triples) of the words
    `entry symbol + exit symbol`, each asked with accepts_input on ONE object."""
    count = 0
    for length in (3, 4, 5):
        for seed in range(3):
            n = L4.lambda_cycle_nfa(random.Random(100 * length + seed), length, decorate=False)
            exits = sorted(a for a in n.input_symbols if a in "ab")
            words = [e + x for e in sorted(n.transitions["S"]) for x in exits]
            if len(words) > 6:
                words = [w for w in words if w[1] == exits[0]] + [w for w in words if w[1] != exits[0]][:1]
            for ws in itertools.product(words, repeat=3 if depth3 else 2):
                run_nfa_history(ctx, n, n, [dict(q="A", w=w) for w in ws], "exhaustive_lambda_cycle")
                count += 1
    ctx.exhaustive(f"NFA: all ordered {'triples' if depth3 else 'pairs'} of accepts_input(entry symbol + exit symbol) on 9 fixed NFAs with a "
                   f"lambda cycle of length 3 / 4 / 5 entered at every member by its own symbol ({count} histories)")


def replay(ctx: Ctx, path: str) -> int:
    data = json.load(open(path))
    rp = data.get("replay", data)
    from automata.fa.nfa import NFA
    env = {"DFA": DFA, "NFA": NFA, "frozenset": frozenset}
    if rp.get("kind") == "deep":
        fam = rp["family"]
        r = (DD.run_dfa if fam == "dfa" else DD.run_nfa)(rp["spec"], rp["other"], rp["steps"])
        if r is not None and r[0] == len(rp["steps"]) - 1:
            show = DD.show_step if fam == "dfa" else DD.show_nstep
            print(f"VIOLATION property=C20 replay={path}")
            print(f"  {show(rp['steps'][r[0]])} {r[1]} — call #{r[0]} of the recorded history on one newly built object: {rp['automaton']}")
            return 1
        print("replay: property holds on this input now")
        return 0
    if rp.get("kind") == "multi":
        run_multi_history(ctx, [eval(a, env) for a in rp["automata"]], rp["steps"], "replay", rp.get("mode", "frozen"))
    elif rp.get("kind") == "nfa":
        run_nfa_history(ctx, eval(rp["automaton"], env), eval(rp["other"], env), rp["history"], "replay", rp.get("mode", "frozen"))
    else:
        run_history(ctx, eval(rp["automaton"], env), eval(rp["other"], env), rp["history"], "replay", 8, rp.get("mode", "frozen"))
    if ctx.prop_fails:
        print(f"VIOLATION property=C20 replay={path}")
        print("  " + ctx.prop_fails[0]["what"])
        return 1
    print("replay: property holds on this input now")
    return 0
