"""C09 — NFA equality decides language equivalence exactly.

Correspondence: NFA_EQ A B — `A.__eq__(B)` (incl. NotImplemented), `A == B`, `A != B`, in
both orders, against the Lean model of the extended Hopcroft–Karp loop over subset states
with union–find (Model/HK.lean, Model/NFAEq.lean).  The verdict does not depend on the
union–find's choice of representatives (theorem, for every choice), so only verdicts are
compared.

Property on the real code: an independent subset construction + product search written
here (`nfaops_lib.distinguish`, shortest distinguishing word, re-confirmed through the
real `accepts_input`) decides language equality; `==` must say exactly that, `!=` the
opposite, both orders must agree, and the literal default call `DFA.from_nfa(A) ==
DFA.from_nfa(B)` must agree (theorem `C09_eq_det_lib_default_renumbered`); if that call raises
on valid operands it is a property failure (`det_call_raised`).  Pairs on which the oracle
runs out of budget are counted and reported as a note in the evidence.

Long-witness family (`harness/c09_longword.py`, `run_long_witness`): unions of coprime cycles /
'n-th letter from the end' against near-equal partners — the shortest distinguishing word is as
long as the lcm (far beyond |A| + |B|), or the walk meets 2^n subset pairs.  Oracle = pair walk
over the family's own deterministic structure + the generic subset oracle; the Lean model is asked
only on the members it answers quickly (`model_skipped_large_pair` counts the others).
"""
from __future__ import annotations

import json

from automata.fa.dfa import DFA
from automata.fa.nfa import NFA

from harness import c09_longword as LW
from harness import gen
from harness import nfaops_lib as L
from harness.common import Ctx, Names, Toks, call, guarded

LEVEL = "proof"
RULE = ("cases = ordered pairs of valid NFAs; bounded-exhaustive small pairs, then pairs built from a shaped "
        "random NFA by language-preserving rewrites (ε-elimination, determinise-and-embed, double reversal, "
        "edge splitting by ε, added unreachable / dead / duplicated states, renaming) — equivalent by construction "
        "— and by one-edge edits (add / drop / retarget one transition, flip one final state) — mostly "
        "inequivalent, often only on one long word; equivalent pairs of 8–14 states per operand (one base table, states split differently on either side, or the union of two permuted split copies) on which the real == performs ≥ 10 union-find merges before it answers (merge count measured on the real run and recorded), and their one-edge edits; the long-witness family (harness/c09_longword.py): pairs whose SHORTEST distinguishing word is longer than |A| + |B| — a start state guessing (by ε or by a nondeterministic first step, after an optional tail) one of 2–5 cycles of pairwise coprime lengths, letters advancing the cycles by fixed weights (length counters, letter counters), against near-equal partners that differ only around the lcm (Σ+ / Σ*, the same cycles with one length changed / one final residue toggled / one cycle dropped / the other kind of start, the deterministic cycle of length lcm with or without one toggled state), lcm up to 420 and a few members with lcm 2310–4620 (word longer than the square of the state count) — and 'the n-th letter from the end is a hit', n ≤ 8, against rewrites of itself (twin copies, ε-split edges, the hand-written window DFA with or without one toggled window, one extra window Σ*w0): 2^n different subset pairs on ~3n states; each such pair is judged twice, by a pair walk over the family's own deterministic structure (residue tuples / windows; exact verdict and shortest word, re-confirmed through accepts_input) and by the generic subset oracle, the ratios word length / states and merged pairs / states are recorded; the same object on both sides; empty alphabet; independent random pairs; pairs over different alphabets; a "
        "case is non-trivial when both operands have ≥2 states and both languages are non-empty; distinct = "
        "distinct ordered pairs of definitions")
ASSUMPTIONS = [
    "operands are NFAs that pass validate(); the property speaks about pairs over a common alphabet "
    "(different alphabets: __eq__ returns NotImplemented and == is False — modelled and compared, not part of the property)",
    "networkx UnionFind is modelled by its contract (representative of a class, union of two roots); the "
    "theorem holds for every choice of representative, the driver uses the heavier-root rule",
]
EXPLANATION = ("Theorems C09_* state that the model of NFA.__eq__ returns True exactly when the two languages are "
               "equal, for every union-find representative choice; this run ties the model to the code by "
               "differential execution and evaluates == / != on the real code against an independent decision "
               "procedure for language equality — including pairs of NFAs whose shortest distinguishing word is far longer than the "
               "number of states (up to the lcm of coprime cycle lengths), where the DFA bound m + n on the length of a "
               "distinguishing word does not apply and a depth- or size-limited pair walk would answer True wrongly.")


def model_ask(ctx: Ctx, A: NFA, B: NFA):
    sigma = set(A.input_symbols) | set(B.input_symbols)
    sy = Names(sorted(sigma))
    encA, _ = L.enc_nfax(A, sy)
    encB, _ = L.enc_nfax(B, sy)
    line = ctx.driver("drv_nfa_ops").ask(f"NFA_EQ {encA} {encB}")
    t = Toks(line)
    t.expect("impl")
    impl = t.next()
    t.expect("eq")
    eq = t.next()
    t.expect("ne")
    ne = t.next()
    return dict(impl=impl, eq=eq, ne=ne), encA, encB


def real_obs(A: NFA, B: NFA):
    def b(x):
        if x is NotImplemented:
            return "NI"
        return "1" if x is True else "0" if x is False else repr(x)
    r_impl = call(lambda: A.__eq__(B))
    r_eq = call(lambda: A == B)
    r_ne = call(lambda: A != B)
    f = lambda r: b(r[1]) if r[0] == "ok" else "raised:" + r[1]
    return dict(impl=f(r_impl), eq=f(r_eq), ne=f(r_ne))


class MergeCount:
    """Counts the calls of networkx `UnionFind.union` made while the real `==` runs.  In
    `NFA.__eq__` every call joins two distinct classes (the arguments are two different roots),
    so this is the number of union-find merges that happened before the verdict."""

    def __enter__(self):
        import networkx as nx
        self.UF = nx.utils.union_find.UnionFind
        self.orig = self.UF.union
        self.n = 0
        me = self

        def union(uf, *objects):
            me.n += 1
            return me.orig(uf, *objects)
        self.UF.union = union
        return self

    def __exit__(self, *a):
        self.UF.union = self.orig
        return False


def merges_of(A: NFA, B: NFA):
    """Number of union-find merges of the real `A == B` (None if it raises)."""
    with MergeCount() as mc:
        r = call(lambda: A == B)
    return mc.n if r[0] == "ok" else None


def check_pair(ctx: Ctx, A: NFA, B: NFA, origin: str, both_orders: bool = True, model: bool = True):
    """`model=False` (only the largest members of the long-witness family, where the list-based Lean
    model needs seconds per pair): the property is evaluated on the real code exactly as for every other
    pair, the model correspondence is skipped and counted as `model_skipped_large_pair`."""
    obs = real_obs(A, B)
    if model:
        mod, encA, encB = model_ask(ctx, A, B)
    else:
        mod, encA, encB = None, repr(A), repr(B)
        ctx.stat("model_skipped_large_pair")
    same_alpha = set(A.input_symbols) == set(B.input_symbols)
    case = dict(A=repr(A), B=repr(B))
    # --- the property on the real code
    verdict = None
    if same_alpha:
        verdict, w = L.distinguish(L.raw_of(A), L.raw_of(B), A.input_symbols, budget=20000)
        if verdict == "budget":   # a second, much larger try before the pair is given up
            verdict, w = L.distinguish(L.raw_of(A), L.raw_of(B), A.input_symbols, budget=400000)
        wrong = []
        equal = None
        if verdict == "budget":
            # the language clause cannot be evaluated on this pair: counted, and reported as a note in
            # the evidence by run(); symmetry and the determinisation clause are still evaluated
            ctx.stat("oracle_budget_exceeded")
        else:
            equal = verdict == "equal"
            if not equal:
                # re-confirm the distinguishing word on the real reader
                if A.accepts_input(w) == B.accepts_input(w):
                    ctx.note(f"oracle word {w!r} not confirmed by accepts_input")
                    equal = None
        if equal is not None:
            exp_eq, exp_ne = ("1" if equal else "0"), ("0" if equal else "1")
            if obs["eq"] != exp_eq:
                wrong.append(f"A == B is {obs['eq']} but the languages are {'equal' if equal else 'different'}"
                             + ("" if equal else f" (word {w!r}: A {'accepts' if A.accepts_input(w) else 'rejects'}, "
                                                f"B {'accepts' if B.accepts_input(w) else 'rejects'})"))
            if obs["ne"] != exp_ne:
                wrong.append(f"A != B is {obs['ne']}")
        rev = real_obs(B, A)
        if rev["eq"] != obs["eq"] or rev["ne"] != obs["ne"]:
            wrong.append(f"not symmetric: B == A is {rev['eq']}, A == B is {obs['eq']}")
        # "the same as comparing their determinisations": the literal default call
        det = call(lambda: DFA.from_nfa(A) == DFA.from_nfa(B))
        if det[0] != "ok":
            ctx.stat("det_call_raised")
            wrong.append(f"DFA.from_nfa(A) == DFA.from_nfa(B) raised {det[1]} on valid operands")
        else:
            ctx.stat("det_call_evaluated")
            if det[1] is not NotImplemented and ("1" if det[1] else "0") != obs["eq"]:
                wrong.append(f"differs from comparing determinisations ({det[1]})")
        if wrong:
            ctx.prop_fail("NFA ==: " + "; ".join(wrong), dict(case, distinguishing_word=w, observed=obs), None)
    nontrivial = (len(A.states) >= 2 and len(B.states) >= 2 and same_alpha and verdict in ("equal", "differ")
                  and _nonempty(A) and _nonempty(B))
    ctx.case((encA, encB) if nontrivial else None)
    ctx.stat(origin)
    ctx.stat("alphabet_same" if same_alpha else "alphabet_differs")
    if not A.input_symbols or not B.input_symbols:
        ctx.stat("empty_alphabet_operand")
    if A is B:
        ctx.stat("same_object_both_sides")
    if verdict:
        ctx.stat("languages_" + verdict)
        if verdict == "differ":
            ctx.stat(f"shortest_distinguishing_word_len_{min(len(w), 6)}{'+' if len(w) >= 6 else ''}")
    if any("" in row for row in A.transitions.values()) or any("" in row for row in B.transitions.values()):
        ctx.stat("with_eps")
    if ctx.evaluations % 397 == 1:
        ctx.sample(dict(A=repr(A), B=repr(B), observed=obs, model=mod, oracle=verdict))
    if model and obs != mod:
        ctx.corr_diff("NFA_EQ", case, obs, mod)
    if both_orders:
        check_pair(ctx, B, A, origin + "_swapped", both_orders=False, model=model)
    return verdict, (w if verdict == "differ" else None)


def _nonempty(n: NFA) -> bool:
    r = L.raw_of(n)
    seen = set(r.start())
    work = list(seen)
    while work:
        q = work.pop()
        if q in r.finals:
            return True
        for (p, a), ts in r.edges.items():
            if p == q:
                for t in ts:
                    if t not in seen:
                        seen.add(t)
                        work.append(t)
    return False


# ------------------------------------------------------------------ rewrites
def _parts(n: NFA):
    return (set(n.states), set(n.input_symbols), {k: {a: set(ts) for a, ts in row.items()} for k, row in n.transitions.items()},
            n.initial_state, set(n.final_states))


def _fresh(states, rng):
    pool = [x for x in list(range(-2, len(states) + 3)) + ["n", ("n", 0), frozenset({"n"})] if x not in states]
    return rng.choice(pool)


def rw_split_edge(rng, n: NFA):
    st, sy, tr, init, fin = _parts(n)
    edges = [(q, a, t) for q, row in tr.items() if q in st for a, ts in row.items() for t in ts]
    if not edges:
        return None
    q, a, t = rng.choice(edges)
    m = _fresh(st, rng)
    tr[q][a].discard(t)
    tr[q][a].add(m)
    if rng.random() < 0.5:
        tr[m] = {"": {t}}
    else:   # ε first, then the symbol
        tr[q][a].discard(m)
        tr[q].setdefault("", set()).add(m)
        tr[m] = {a: {t}} if a != "" else {"": {t}}
    st.add(m)
    return NFA(states=st, input_symbols=sy, transitions=tr, initial_state=init, final_states=fin)


def rw_add_unreachable(rng, n: NFA):
    st, sy, tr, init, fin = _parts(n)
    m = _fresh(st, rng)
    st.add(m)
    row = {a: {rng.choice(list(st))} for a in sy if rng.random() < 0.7}
    if rng.random() < 0.3:
        row[""] = {rng.choice(list(st))}
    tr[m] = row
    if rng.random() < 0.5:
        fin.add(m)
    return NFA(states=st, input_symbols=sy, transitions=tr, initial_state=init, final_states=fin)


def rw_add_dead(rng, n: NFA):
    st, sy, tr, init, fin = _parts(n)
    m = _fresh(st, rng)
    st.add(m)
    tr[m] = {a: {m} for a in sy if rng.random() < 0.8}
    q = rng.choice(list(tr.keys() & (st - {m})) or [init])
    tr.setdefault(q, {}).setdefault(rng.choice(sorted(sy) + [""]), set()).add(m)
    return NFA(states=st, input_symbols=sy, transitions=tr, initial_state=init, final_states=fin)


def rw_duplicate_state(rng, n: NFA):
    st, sy, tr, init, fin = _parts(n)
    q = rng.choice(list(st))
    m = _fresh(st, rng)
    st.add(m)
    if q in tr:
        tr[m] = {a: set(ts) for a, ts in tr[q].items()}
    if q in fin:
        fin.add(m)
    for k, row in tr.items():
        for a, ts in row.items():
            if q in ts and rng.random() < 0.6:
                ts.add(m)
    return NFA(states=st, input_symbols=sy, transitions=tr, initial_state=init, final_states=fin)


def rw_rename(rng, n: NFA):
    st, sy, tr, init, fin = _parts(n)
    new = gen.name_pool(rng, len(st))
    if len(new) < len(st):
        return None
    f = dict(zip(st, new))
    tr2 = {f[k]: {a: {f[t] for t in ts} for a, ts in row.items()} for k, row in tr.items() if k in f}
    return NFA(states=set(f.values()), input_symbols=sy, transitions=tr2, initial_state=f[init], final_states={f[q] for q in fin})


def rw_library(rng, n: NFA):
    """Language-preserving library operations (their own checks are C07 / C08)."""
    k = rng.randrange(5)
    if k == 0:
        return n.eliminate_lambda()
    if k == 1:
        return NFA.from_dfa(DFA.from_nfa(n))
    if k == 2:
        return n.reverse().reverse()
    if k == 3:
        return NFA.from_dfa(DFA.from_nfa(n, minify=False, retain_names=True))
    return n.union(n)


REWRITES = [rw_split_edge, rw_add_unreachable, rw_add_dead, rw_duplicate_state, rw_rename, rw_library]


def edit_one_edge(rng, n: NFA):
    st, sy, tr, init, fin = _parts(n)
    k = rng.randrange(6)
    states = list(st)
    if k == 5:   # same table, same final set, another initial state (a field-by-field shortcut must compare it)
        cands = [q for q in states if q in tr and q != init]
        if not cands:
            return None
        init = rng.choice(cands)
    elif k == 0:   # flip finality
        q = rng.choice(states)
        fin ^= {q}
    elif k == 1:  # add an edge
        q = rng.choice(states)
        tr.setdefault(q, {}).setdefault(rng.choice(sorted(sy) + [""]), set()).add(rng.choice(states))
    elif k == 2:  # drop an edge
        edges = [(q, a, t) for q, row in tr.items() for a, ts in row.items() for t in ts]
        if not edges:
            return None
        q, a, t = rng.choice(edges)
        tr[q][a].discard(t)
    elif k == 3:  # retarget an edge
        edges = [(q, a, t) for q, row in tr.items() for a, ts in row.items() for t in ts]
        if not edges:
            return None
        q, a, t = rng.choice(edges)
        tr[q][a].discard(t)
        tr[q][a].add(rng.choice(states))
    else:  # relabel an edge
        edges = [(q, a, t) for q, row in tr.items() for a, ts in row.items() for t in ts if a != ""]
        if not edges or len(sy) < 2:
            return None
        q, a, t = rng.choice(edges)
        tr[q][a].discard(t)
        tr[q].setdefault(rng.choice([b for b in sorted(sy) if b != a]), set()).add(t)
    if init not in tr:
        tr[init] = {}
    return NFA(states=st, input_symbols=sy, transitions=tr, initial_state=init, final_states=fin)


def deep_nfa(rng, alphabet, n: int) -> NFA:
    """A chain-like NFA whose language changes only on words of length ≈ n when one deep state is edited."""
    sy = list(alphabet)
    st = list(range(n))
    tr = {}
    for i in range(n):
        row = {}
        for a in sy:
            ts = {min(i + 1, n - 1)} if rng.random() < 0.8 else {rng.choice(st)}
            if rng.random() < 0.2:
                ts.add(rng.choice(st))
            row[a] = ts
        if rng.random() < 0.15:
            row[""] = {rng.choice(st)}
        tr[i] = row
    fin = {n - 1} if rng.random() < 0.7 else {q for q in st if rng.random() < 0.3}
    return NFA(states=set(st), input_symbols=set(sy), transitions=tr, initial_state=0, final_states=fin)


# ------------------------------------------------- many-merge equivalent pairs (8–14 states)
def _base_dfa_parts(rng, k: int, sy):
    """A complete deterministic table on 0..k-1 in which every state is reachable (i → i+1 on some
    symbol) and the final set is neither empty nor everything: most states get their own right language."""
    st = list(range(k))
    tr = {}
    for i in st:
        row = {a: {rng.choice(st)} for a in sy}
        if i + 1 < k:
            row[rng.choice(sy)] = {i + 1}
        tr[i] = row
    fin = {q for q in st if rng.random() < 0.5}
    if not fin:
        fin = {rng.choice(st)}
    if len(fin) == k and k > 1:
        fin.discard(rng.choice(st))
    return set(st), set(sy), tr, 0, fin


def _split_state(rng, parts, fresh):
    """Split one state q into q and a copy m with the same row and finality; every edge into q goes to
    q or to m (never both: a deterministic table stays deterministic, so the subset construction meets
    q and m as two different subset states with the same language).  Language-preserving: q ~ m."""
    st, sy, tr, init, fin = parts
    into = {}
    for p, row in tr.items():
        for a, ts in row.items():
            for t in ts:
                into.setdefault(t, []).append((p, a))
    cands = [q for q in st if q in into]
    if not cands:
        return False
    q = rng.choice(cands)
    m = fresh
    st.add(m)
    tr[m] = {a: set(ts) for a, ts in tr.get(q, {}).items()}
    if q in fin:
        fin.add(m)
    edges = [(p, a) for p, row in tr.items() for a, ts in row.items() if q in ts]
    rng.shuffle(edges)
    moved = 0
    for idx, (p, a) in enumerate(edges):
        if idx == 0 or rng.random() < 0.5:
            tr[p][a].discard(q)
            tr[p][a].add(m)
            moved += 1
    return moved > 0


def _rename_parts(rng, parts, style):
    st, sy, tr, init, fin = parts
    olds = list(st)
    rng.shuffle(olds)
    if style == 0:
        new = list(range(len(olds)))
        rng.shuffle(new)
    elif style == 1:
        new = [f"s{i}" for i in range(len(olds))]
    elif style == 2:
        new = [(i // 4, i % 4) for i in range(len(olds))]
    else:
        new = [frozenset({i, -1}) if i % 2 else i - 3 for i in range(len(olds))]
    f = dict(zip(olds, new))
    return (set(f.values()), set(sy), {f[k]: {a: {f[t] for t in ts} for a, ts in row.items()} for k, row in tr.items()},
            f[init], {f[q] for q in fin})


def _copy_parts(parts):
    st, sy, tr, init, fin = parts
    return set(st), set(sy), {k: {a: set(ts) for a, ts in row.items()} for k, row in tr.items()}, init, set(fin)


def _grow(rng, parts, target: int):
    parts = _copy_parts(parts)
    guard = 0
    while len(parts[0]) < target and guard < 60:
        guard += 1
        _split_state(rng, parts, ("c", len(parts[0]), guard))
    return parts


def _mk(parts) -> NFA:
    st, sy, tr, init, fin = parts
    return NFA(states=st, input_symbols=sy, transitions=tr, initial_state=init, final_states=fin)


def many_merge_pair(rng):
    """An equivalent-by-construction pair with 8–14 states per operand: both operands come from one base
    table by splitting states (each side differently) and renaming; the right operand may instead be the
    union (fresh initial state, ε-moves) of two differently split, permuted copies.  The subset
    construction of either side then meets many different subset states with pairwise equal languages,
    all of which `__eq__` has to merge before it can answer True."""
    sy = list(rng.choice([("a", "b"), ("a", "b", "c"), ("0", "1")]))
    k = rng.randint(4, 7)
    base = _base_dfa_parts(rng, k, sy)
    A = _mk(_rename_parts(rng, _grow(rng, base, rng.randint(8, 14)), rng.randrange(4)))
    if rng.random() < 0.5:
        kind = "split_vs_split"
        B = _mk(_rename_parts(rng, _grow(rng, base, rng.randint(8, 14)), rng.randrange(4)))
    else:
        kind = "split_vs_union_of_copies"
        total = rng.randint(max(8, 2 * k + 1), 14) if 2 * k + 1 <= 14 else None
        if total is None:
            return many_merge_pair(rng)
        n1 = rng.randint(k, total - 1 - k)
        c1 = _grow(rng, base, n1)
        c2 = _grow(rng, base, total - 1 - n1)
        st1, _, tr1, i1, f1 = c1
        st2, _, tr2, i2, f2 = c2
        T1 = lambda q: (1, q)
        T2 = lambda q: (2, q)
        st = {T1(q) for q in st1} | {T2(q) for q in st2} | {"start"}
        tr = {T1(q): {a: {T1(t) for t in ts} for a, ts in row.items()} for q, row in tr1.items()}
        tr.update({T2(q): {a: {T2(t) for t in ts} for a, ts in row.items()} for q, row in tr2.items()})
        tr["start"] = {"": {T1(i1), T2(i2)}}
        B = _mk(_rename_parts(rng, (st, set(sy), tr, "start", {T1(q) for q in f1} | {T2(q) for q in f2}),
                              rng.randrange(4)))
    return kind, A, B


def run_many_merges(ctx: Ctx, n_pairs: int):
    rng = ctx.rng
    counts = []
    for _ in range(n_pairs):
        best = None
        for _try in range(25):
            kind, A, B = many_merge_pair(rng)
            m = merges_of(A, B)
            if m is not None and (best is None or m > best[0]):
                best = (m, kind, A, B)
            if m is not None and m >= 10:
                break
        if best is None:
            ctx.stat("many_merge_pair_eq_raised")
            check_pair(ctx, A, B, "many_merges_equivalent")
            continue
        m, kind, A, B = best
        counts.append(m)
        ctx.stat("many_merges_" + kind)
        ctx.stat("many_merges_ge10" if m >= 10 else "many_merges_lt10")
        ctx.stat(f"hk_merges_{'lt10' if m < 10 else '10_14' if m < 15 else '15_19' if m < 20 else '20_29' if m < 30 else '30+'}")
        for X in (A, B):
            ctx.stat(f"many_merges_operand_states_{len(X.states)}")
        check_pair(ctx, A, B, "many_merges_equivalent")
        # the same pair after one edit of one side: mostly inequivalent, the clash often comes late
        C = edit_one_edge(rng, B)
        if C is not None:
            mc = merges_of(A, C)
            if mc is not None:
                ctx.stat("many_merges_edit_merges_ge10" if mc >= 10 else "many_merges_edit_merges_lt10")
            check_pair(ctx, A, C, "many_merges_one_edge_edit")
    if counts:
        cs = sorted(counts)
        ctx.note(f"many-merge family: {len(cs)} equivalent pairs of 8–14 states, union-find merges of the real "
                 f"A == B before the verdict: min {cs[0]}, median {cs[len(cs) // 2]}, max {cs[-1]}; "
                 f"{sum(1 for c in cs if c >= 10)} pairs with ≥ 10 merges")


# ------------------------------------- long shortest distinguishing words / exponentially many subset pairs
MODEL_COST_LIMIT = 2500


def _ratio_bucket(x: float) -> str:
    return "le1" if x <= 1 else "1_2" if x <= 2 else "2_5" if x <= 5 else "5_20" if x <= 20 else "gt20"


def check_long_witness_pair(ctx: Ctx, kind: str, A: NFA, sa, B: NFA, sb, size: int, origin: str):
    """One pair of the long-witness family.  Two library-independent oracles: the pair walk over the
    family's own deterministic structure (`LW.decide` on the Specs: exact verdict + a SHORTEST
    distinguishing word) and, inside `check_pair`, the generic subset construction over the real
    definitions.  The family verdict is re-confirmed on the real objects (witness word through the real
    `accepts_input`; for equal pairs a sample of words around the lcm) and `==` / `!=` in both orders are
    judged against it; then the pair goes through `check_pair` (model correspondence, symmetry,
    determinisation clause)."""
    fam, w, pairs = LW.decide(sa, sb, A.input_symbols)
    if fam == "budget":
        ctx.stat("long_witness_family_oracle_budget")
        return None
    n_states = len(A.states) + len(B.states)
    summary = (fam, len(w) if fam == "differ" else None, n_states, pairs)
    ctx.stat("long_witness_pairs")
    ctx.stat("long_witness_" + kind)
    ctx.stat("long_witness_languages_" + fam)
    ctx.stat("long_witness_det_pairs_over_states_" + _ratio_bucket(pairs / n_states))
    confirmed = True
    if fam == "differ":
        ctx.stat("long_witness_word_over_states_" + _ratio_bucket(len(w) / n_states))
        if len(w) > n_states:
            ctx.stat("long_witness_word_longer_than_states_A_plus_B")
        if len(w) > len(A.states) * len(B.states):
            ctx.stat("long_witness_word_longer_than_states_A_times_B")
        if len(w) > n_states ** 2:
            ctx.stat("long_witness_word_longer_than_square_of_states")
        ra, rb = call(lambda: A.accepts_input(w)), call(lambda: B.accepts_input(w))
        if ra[0] != "ok" or rb[0] != "ok" or ra[1] == rb[1] or ra[1] != sa.accepts(w) or rb[1] != sb.accepts(w):
            confirmed = False
    else:
        # equal by the family's structure: the real readers must agree with the Specs on words around the lcm
        sy = sorted(A.input_symbols)
        for _ in range(6):
            k = ctx.rng.choice([size, size - 1, size + 1, 2 * size, ctx.rng.randrange(0, 2 * size + 2)]) if size <= 5000 \
                else ctx.rng.randrange(0, 40)
            u = "".join(ctx.rng.choice(sy) for _ in range(max(k, 0))) if len(sy) > 1 and ctx.rng.random() < 0.5 else sy[0] * max(k, 0)
            ra, rb = call(lambda: A.accepts_input(u)), call(lambda: B.accepts_input(u))
            if ra != ("ok", sa.accepts(u)) or rb != ("ok", sb.accepts(u)):
                confirmed = False
    if not confirmed:
        # the real readers do not agree with the family's structure: the builder or accepts_input is off —
        # not a statement about ==; the generic oracle of check_pair still judges the pair
        ctx.stat("long_witness_family_oracle_not_confirmed")
        ctx.note(f"long-witness family: structure oracle not confirmed by accepts_input on {sa.descr} / {sb.descr}")
    else:
        equal = fam == "equal"
        want = (("ok", equal), ("ok", not equal))
        for X, Y, how in ((A, B, "A == B"), (B, A, "B == A")):
            with MergeCount() as mc:
                got = (call(lambda: X == Y), call(lambda: X != Y))
            if how == "A == B":
                ctx.stat("long_witness_hk_merges_over_states_" + _ratio_bucket(mc.n / 2 / n_states))
            if got != want:
                ctx.prop_fail(f"NFA == on a pair whose shortest distinguishing word is long ({kind}: {sa.descr} vs {sb.descr}; "
                              f"{len(A.states)} + {len(B.states)} states, {pairs} pairs of determinised states), {how}: "
                              f"== is {got[0]}, != is {got[1]}, but the languages are "
                              + ("equal" if equal else f"different (shortest word has length {len(w)}: {_short(w)}; "
                                                       f"A {'accepts' if sa.accepts(w) else 'rejects'}, B {'accepts' if sb.accepts(w) else 'rejects'} it, "
                                                       f"confirmed by accepts_input)"),
                              dict(A=repr(A), B=repr(B), distinguishing_word=w, family=kind), None)
                return summary
    before = ctx.n_prop_fails
    # the Lean model works on lists: its cost grows like (subset pairs) × (states); the correspondence is
    # run on the members it answers within ~0.3 s, the property on all of them
    with_model = pairs * n_states <= MODEL_COST_LIMIT
    # both orders of == / != were judged above; check_pair itself compares A == B with B == A
    res = check_pair(ctx, A, B, origin, both_orders=False, model=with_model)
    if confirmed and res is not None and res[0] in ("equal", "differ") and ctx.n_prop_fails == before:
        if res[0] != fam or (fam == "differ" and len(res[1]) != len(w)):
            ctx.stat("long_witness_two_oracles_disagree")
            ctx.note(f"long-witness family: structure oracle says {fam} ({w!r:.60}), subset oracle says {res[0]} "
                     f"({res[1]!r:.60}) on {sa.descr} / {sb.descr}")
    return summary


def _short(w: str) -> str:
    if len(w) <= 40:
        return repr(w)
    if len(set(w)) == 1:
        return f"{w[0]}^{len(w)}"
    return repr(w[:20]) + "…" + repr(w[-12:])


def run_long_witness(ctx: Ctx, n_cycles: int, n_nth: int, n_big: int, max_n: int, origin: str = "long_witness"):
    """The family of harness/c09_longword.py: unions of coprime cycles against near-equal partners (first
    difference at the lcm), 'n-th letter from the end' against rewrites / one added window, and a few
    members with lcm in the thousands (longer than the SQUARE of the state count)."""
    rng = ctx.rng
    done = []

    def go(kind, A, sa, B, sb, size, origin):
        if rng.random() < 0.5:   # the small near-equal partner on the left as often as on the right
            A, sa, B, sb, kind = B, sb, A, sa, kind + "_swapped"
        r = check_long_witness_pair(ctx, kind, A, sa, B, sb, size, origin)
        if r is not None:
            done.append(r)
    for _ in range(n_cycles):
        go(*LW.cycles_pair(rng), origin)
    for i in range(n_nth):
        n = 2 + (i % (max_n - 1))
        ctx.stat(f"long_witness_nth_n_{n}")
        go(*LW.nth_pair(rng, n), origin)
    for i in range(n_big):
        # the first two of every run: small partner, first difference exactly at the lcm (> (|A| + |B|)^2) / at the
        # solution of the congruences (anywhere below the lcm)
        force = ("nonzero", "sigma") if i == 0 else ("all_but_one", "sigma") if i == 1 else None
        kind, A, sa, B, sb, size = LW.cycles_pair(rng, big=True, force=force)
        go("big_" + kind, A, sa, B, sb, size, origin + "_big")
    diff = [(wl, ns) for fam, wl, ns, _ in done if fam == "differ"]
    if done:
        longer = [(wl, ns) for wl, ns in diff if wl > ns]
        best = max(diff, key=lambda x: x[0] / x[1]) if diff else None
        ctx.note(f"long-witness family: {len(done)} pairs ({len(done) - len(diff)} equal, {len(diff)} different); shortest "
                 f"distinguishing word longer than |A| + |B| on {len(longer)} pairs, longer than (|A| + |B|)^2 on "
                 f"{sum(1 for wl, ns in diff if wl > ns * ns)}"
                 + (f"; largest ratio: a word of length {best[0]} for {best[1]} states in total" if best else "")
                 + f"; pairs of determinised states walked by the structure oracle: max {max(p for *_, p in done)}")


def corpus():
    a = NFA(states={0, 1}, input_symbols={"a"}, transitions={0: {"": {1}}, 1: {}}, initial_state=0, final_states={1})
    b = NFA(states={0}, input_symbols={"a"}, transitions={0: {}}, initial_state=0, final_states={0})
    yield a, b   # finality only through an ε-move
    c = NFA(states={0}, input_symbols={"a"}, transitions={0: {}}, initial_state=0, final_states=set())
    yield a, c
    yield b, c
    # different alphabets, same language
    d = NFA(states={0}, input_symbols={"a", "b"}, transitions={0: {}}, initial_state=0, final_states={0})
    yield b, d
    # states without rows in the current set, empty target sets
    e = NFA(states={0, 1, 2}, input_symbols={"a", "b"}, transitions={0: {"a": {1, 2}, "b": set()}, 2: {"b": {0}}},
            initial_state=0, final_states={1})
    f = NFA(states={"p", "q"}, input_symbols={"a", "b"}, transitions={"p": {"a": {"q"}}, "q": {"b": {"p"}}},
            initial_state="p", final_states={"q"})
    yield e, f


def run(ctx: Ctx):
    rng = ctx.rng
    thorough = ctx.thorough()
    for A, B in corpus():
        check_pair(ctx, A, B, "corpus")
    # 1. bounded-exhaustive
    ones = list(gen.all_nfas(1, ("a", "b")))
    for A in ones:
        for B in ones:
            check_pair(ctx, A, B, "exhaustive", both_orders=False)
    ctx.exhaustive("all ordered pairs of 1-state NFAs over {a,b} with ε-loops and empty target sets")
    twos = list(gen.all_nfas(2, ("a",)))
    sub = twos if thorough else twos[::7]
    ones_a = list(gen.all_nfas(1, ("a",)))
    for A in sub:
        for B in ones_a:
            check_pair(ctx, A, B, "exhaustive", both_orders=True)
    ctx.exhaustive(("all" if thorough else "every 7th of the") + " 2-state NFAs over {a} with ε × all 1-state NFAs over {a}, both orders")
    for _ in range(ctx.budget(600, 40000)):
        A = rng.choice(twos)
        B = rng.choice(twos)
        check_pair(ctx, A, B, "small_pairs", both_orders=False)
    # 2. rewrites and edits
    for _ in range(ctx.budget(1500, 30000)):
        alpha = rng.choice(gen.ALPHABETS[:5])
        if rng.random() < 0.25:
            A = deep_nfa(rng, alpha[:2], rng.randint(3, 6))
        else:
            A = gen.rand_nfa(rng, 5, alphabet=alpha)
        B = A
        for _ in range(rng.randint(1, 3)):
            r = rng.choice(REWRITES)
            B2 = call(lambda: r(rng, B))
            if B2[0] == "ok" and B2[1] is not None and len(B2[1].states) <= 12:
                B = B2[1]
                ctx.stat("rewrite_" + r.__name__)
        check_pair(ctx, A, B, "rewritten_equivalent")
        C = edit_one_edge(rng, B if rng.random() < 0.5 else A)
        if C is not None:
            check_pair(ctx, A, C, "one_edge_edit")
    # 2b. equivalent pairs of 8–14 states that force ≥ 10 union-find merges before the verdict
    run_many_merges(ctx, ctx.budget(150, 4000))
    # 2b'. shortest distinguishing word longer than |A| + |B| (up to the lcm of coprime cycle lengths), and
    # exponentially many subset pairs on few states ('n-th letter from the end')
    run_long_witness(ctx, ctx.budget(100, 1500), ctx.budget(24, 300), ctx.budget(4, 40), 9 if thorough else 8)
    # 2c. the same object on both sides; empty alphabet
    for _ in range(ctx.budget(60, 1500)):
        A = gen.rand_nfa(rng, 5, alphabet=rng.choice(gen.ALPHABETS[:5]))
        check_pair(ctx, A, A, "same_object", both_orders=False)
    for A, B in empty_alphabet_pairs(rng, ctx.budget(40, 800)):
        check_pair(ctx, A, B, "empty_alphabet")
    # 2d. one long-lived NFA against a stream of temporaries
    for _ in range(ctx.budget(12, 200)):
        anchor = gen.rand_nfa(rng, 5, alphabet=rng.choice(gen.ALPHABETS[:4]), min_states=2)
        run_anchor_stream(ctx, anchor, ctx.budget(60, 150))
    # 2d'. sizes at which about n pairs are merged into one class
    for n, hole in ((1200, False), (3000, False), (3000, True)) + (((10000, False),) if thorough else ()):
        run_long_chain(ctx, n, hole)
    # 2e. the mutable-automata option: plain containers, repeated comparisons on the same objects
    for _ in range(ctx.budget(250, 5000)):
        alpha = rng.choice(gen.ALPHABETS[:4])
        A0 = gen.rand_nfa(rng, 5, alphabet=alpha, min_states=2)
        B0 = A0
        for _ in range(rng.randint(0, 2)):
            r = rng.choice(REWRITES)
            B2 = call(lambda: r(rng, B0))
            if B2[0] == "ok" and B2[1] is not None and len(B2[1].states) <= 10:
                B0 = B2[1]
        C0 = edit_one_edge(rng, A0) or gen.rand_nfa(rng, 4, alphabet=alpha)
        run_mutable_option(ctx, A0, B0, C0)
    # 3. independent random pairs (same and different alphabets)
    for _ in range(ctx.budget(800, 20000)):
        alpha = rng.choice(gen.ALPHABETS[:5])
        A = gen.rand_nfa(rng, 5, alphabet=alpha)
        if rng.random() < 0.15:
            beta = rng.choice(gen.ALPHABETS[:5])
        else:
            beta = alpha
        B = gen.rand_nfa(rng, 5, alphabet=beta) if rng.random() < 0.8 else L.degenerate_nfa(rng, beta)[1]
        check_pair(ctx, A, B, "random_pair")
    report_budget(ctx)


def report_budget(ctx: Ctx):
    n = ctx.stats.get("oracle_budget_exceeded", 0)
    if n:
        ctx.note(f"oracle budget exceeded on {n} pair(s) (subset-pair BFS > 400000 pairs): the language clause of the "
                 f"property was NOT evaluated on them (correspondence, symmetry and the determinisation clause were)")


def empty_alphabet_pairs(rng, n: int):
    """NFAs over the empty alphabet: only ε-moves; the language is {} or {''}."""
    def one():
        k = rng.randint(1, 4)
        st = gen.name_pool(rng, k)
        k = len(st)
        tr = {}
        for q in st:
            if rng.random() < 0.7:
                tr[q] = {"": {rng.choice(st) for _ in range(rng.randint(0, 2))}} if rng.random() < 0.7 else {}
        tr.setdefault(st[0], {})
        return NFA(states=set(st), input_symbols=set(), transitions=tr, initial_state=st[0],
                   final_states={q for q in st if rng.random() < 0.4})
    for _ in range(n):
        yield one(), one()


def search(ctx: Ctx):
    """Deeper failing-input search: larger operands, longer rewrite chains, more edits."""
    rng = ctx.rng
    for _ in range(ctx.budget(1500, 20000)):
        alpha = rng.choice(gen.ALPHABETS[:5])
        A = deep_nfa(rng, alpha[:2], rng.randint(4, 7)) if rng.random() < 0.4 else gen.rand_nfa(rng, 6, alphabet=alpha)
        B = A
        for _ in range(rng.randint(1, 4)):
            r = rng.choice(REWRITES)
            B2 = call(lambda: r(rng, B))
            if B2[0] == "ok" and B2[1] is not None and len(B2[1].states) <= 12:
                B = B2[1]
        check_pair(ctx, A, B, "search_equivalent")
        C = edit_one_edge(rng, B)
        if C is not None:
            check_pair(ctx, A, C, "search_edit")
        if ctx.n_prop_fails:
            return
    run_long_witness(ctx, ctx.budget(300, 3000), ctx.budget(60, 400), ctx.budget(8, 40), 9, origin="search_long_witness")


def _stream_verdicts(anchor: NFA, T: NFA):
    """(what the real code says, what the languages say) for anchor == T and T == anchor."""
    verdict, w = L.distinguish(L.raw_of(anchor), L.raw_of(T), anchor.input_symbols, budget=20000)
    if verdict == "budget":
        return None
    if verdict != "equal" and anchor.accepts_input(w) == T.accepts_input(w):
        return None
    return (call(lambda: anchor == T), call(lambda: T == anchor), call(lambda: anchor != T)), verdict == "equal", w


@guarded
def run_anchor_stream(ctx: Ctx, anchor: NFA, n_temps: int, temp_reprs=None):
    """ONE long-lived NFA compared with a stream of temporaries that are built, compared and dropped
    (so that later temporaries reuse the memory of earlier ones): the answer must depend on the two
    languages only, not on what the long-lived object was compared with before.  A failure is
    reported with the whole stream up to the failing temporary as replay (`temp_reprs` = replaying)."""
    rng = ctx.rng
    env = {"NFA": NFA, "frozenset": frozenset}
    alpha = sorted(anchor.input_symbols)
    seen = []
    for i in range(n_temps if temp_reprs is None else len(temp_reprs)):
        if temp_reprs is not None:
            T = eval(temp_reprs[i], env)
        elif rng.random() < 0.3:
            T = call(lambda: rng.choice(REWRITES)(rng, anchor))
            T = T[1] if T[0] == "ok" and T[1] is not None else gen.rand_nfa(rng, 4, alphabet=alpha)
        else:
            T = gen.rand_nfa(rng, 4, alphabet=alpha)
        seen.append(repr(T))
        r = _stream_verdicts(anchor, T)
        ctx.case(("stream", repr(anchor), seen[-1]) if len(anchor.states) >= 2 and len(T.states) >= 2 else None)
        ctx.stat("anchor_vs_temporary")
        if r is not None:
            (eq, qe, ne), equal, w = r
            ctx.stat("anchor_vs_temporary_" + ("equal" if equal else "differ"))
            want = ("ok", equal)
            if eq != want or qe != want or ne != ("ok", not equal):
                ctx.prop_fail(f"NFA == after {i} earlier comparisons of the same long-lived NFA with temporaries that "
                              f"were dropped: anchor == T is {eq}, T == anchor is {qe}, anchor != T is {ne}, but the "
                              f"languages are {'equal' if equal else 'different'}"
                              + ("" if equal else f" (word {w!r})"),
                              dict(kind="anchor_stream", anchor=repr(anchor), temporaries=list(seen)), None)
                return
        del T


@guarded
def run_long_chain(ctx: Ctx, n: int, hole: bool):
    """A one-state NFA for a* against a cycle of n accepting states (the same language), or against the
    same cycle with one non-accepting state (a different language: a^k for the position k of the hole is
    rejected).  The comparison merges about n subset pairs into ONE class, one after the other — the
    size at which recursive or quadratic bookkeeping gives up.  Judged by construction and, for the
    hole, confirmed through the real reader on the witness word."""
    star = NFA(states={0}, input_symbols={"a"}, transitions={0: {"a": {0}}}, initial_state=0, final_states={0})
    k = n // 2
    ring = NFA(states=set(range(n)), input_symbols={"a"},
               transitions={i: {"a": {(i + 1) % n}} for i in range(n)}, initial_state=0,
               final_states=set(range(n)) - ({k} if hole else set()))
    equal = not hole
    if hole and ring.accepts_input("a" * k) == star.accepts_input("a" * k):
        ctx.note("long chain: witness word not confirmed by accepts_input")
        return
    ctx.case(("long_chain", n, hole))
    ctx.stat("long_chain")
    for X, Y, how in ((star, ring, "a* == ring"), (ring, star, "ring == a*")):
        got = (call(lambda: X == Y), call(lambda: X != Y))
        if got != (("ok", equal), ("ok", not equal)):
            ctx.prop_fail(f"NFA == on a one-state NFA for a* and a cycle of {n} states"
                          + (f" of which state {k} is not accepting" if hole else ", all accepting")
                          + f" ({how}): == is {got[0]}, != is {got[1]}, but the languages are "
                          + ("equal" if equal else f"different (word a^{k})"),
                          dict(kind="long_chain", n=n, hole=hole), None)
            return


def _mutable_copy(n: NFA) -> NFA:
    """The same definition built under allow_mutable_automata=True from plain dicts and sets."""
    return NFA(states=set(n.states), input_symbols=set(n.input_symbols),
               transitions={k: {a: set(ts) for a, ts in row.items()} for k, row in n.transitions.items()},
               initial_state=n.initial_state, final_states=set(n.final_states))


@guarded
def run_mutable_option(ctx: Ctx, A0: NFA, B0: NFA, C0: NFA):
    """`==` under allow_mutable_automata=True: the operands hold plain dicts / sets.  The verdicts are
    judged against the languages of the definitions AS BUILT (A0, B0, C0 are frozen twins), and the
    same objects are compared several times in a row: a comparison must not depend on — or change —
    what an earlier comparison left behind."""
    import automata.base.config as global_config
    global_config.allow_mutable_automata = True
    try:
        A, B, C = _mutable_copy(A0), _mutable_copy(B0), _mutable_copy(C0)
        twins = {id(A): A0, id(B): B0, id(C): C0}
        for i, (X, Y) in enumerate(((A, B), (B, A), (A, C), (C, B), (A, B), (B, C), (A, A),
                                    (A, B), (C, A), (B, C))):
            if i == 7:
                # the operands were built under the option; from here on it is switched off again
                # (the objects keep their plain containers): the answers must not depend on the switch
                global_config.allow_mutable_automata = False
            X0, Y0 = twins[id(X)], twins[id(Y)]
            verdict, w = L.distinguish(L.raw_of(X0), L.raw_of(Y0), X0.input_symbols, budget=20000)
            ctx.case(("mutable", repr(X0), repr(Y0), i) if len(X0.states) >= 2 and len(Y0.states) >= 2 else None)
            ctx.stat("mutable_option_comparison")
            if verdict == "budget":
                continue
            equal = verdict == "equal"
            got = (call(lambda: X == Y), call(lambda: X != Y))
            if got != (("ok", equal), ("ok", not equal)):
                ctx.prop_fail(f"NFA == on operands built under allow_mutable_automata=True"
                              + (" (option switched off again before this call)" if i >= 7 else "")
                              + f", comparison #{i + 1} on the same objects: "
                              f"== is {got[0]}, != is {got[1]}, but the languages of the definitions as built are "
                              f"{'equal' if equal else 'different'}" + ("" if equal else f" (word {w!r})"),
                              dict(kind="mutable_option", A=repr(A0), B=repr(B0), C=repr(C0)), None)
                return
    finally:
        global_config.allow_mutable_automata = False


def replay(ctx: Ctx, path: str) -> int:
    data = json.load(open(path))
    rp = data.get("replay", data)
    env = {"NFA": NFA, "frozenset": frozenset}
    if rp.get("kind") == "long_chain":
        run_long_chain(ctx, int(rp["n"]), bool(rp["hole"]))
        if ctx.prop_fails:
            print(f"VIOLATION property=C09 replay={path}")
            print("  " + ctx.prop_fails[0]["what"])
            return 1
        print("replay: property holds on this input now")
        return 0
    if rp.get("kind") == "mutable_option":
        run_mutable_option(ctx, eval(rp["A"], env), eval(rp["B"], env), eval(rp["C"], env))
        if ctx.prop_fails:
            print(f"VIOLATION property=C09 replay={path}")
            print("  " + ctx.prop_fails[0]["what"])
            return 1
        print("replay: property holds on this history now")
        return 0
    if rp.get("kind") == "anchor_stream":
        run_anchor_stream(ctx, eval(rp["anchor"], env), 0, temp_reprs=rp["temporaries"])
        if ctx.prop_fails:
            print(f"VIOLATION property=C09 replay={path}")
            print("  " + ctx.prop_fails[0]["what"])
            return 1
        print("replay: property holds on this history now")
        return 0
    A = eval(rp["A"], env)
    B = eval(rp["B"], env)
    # pairs of the long-witness family carry `family`: the list-based Lean model may need minutes on the
    # largest of them, and a replay is a statement about the real code only
    check_pair(ctx, A, B, "replay", model="family" not in rp)
    if ctx.prop_fails:
        print(f"VIOLATION property=C09 replay={path}")
        print("  " + ctx.prop_fails[0]["what"])
        return 1
    print("replay: property holds on this input now")
    return 0
