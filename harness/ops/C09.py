"""C09 — NFA equality decides language equivalence exactly.

Correspondence: NFA_EQ A B — `A.__eq__(B)` (incl. NotImplemented), `A == B`, `A != B`, in
both orders, against the Lean model of the extended Hopcroft–Karp loop over subset states
with union–find (Model/HK.lean, Model/NFAEq.lean).  The verdict does not depend on the
union–find's choice of representatives (theorem, for every choice), so only verdicts are
compared.

Property on the real code: an independent subset construction + product search written
here (`nfaops_lib.distinguish`, shortest distinguishing word, re-confirmed through the
real `accepts_input`) decides language equality; `==` must say exactly that, `!=` the
opposite, both orders must agree, and `DFA.from_nfa(A) == DFA.from_nfa(B)` must agree.
"""
from __future__ import annotations

import json

from automata.fa.dfa import DFA
from automata.fa.nfa import NFA

from harness import gen
from harness import nfaops_lib as L
from harness.common import Ctx, Names, Toks, call

LEVEL = "proof"
RULE = ("cases = ordered pairs of valid NFAs; bounded-exhaustive small pairs, then pairs built from a shaped "
        "random NFA by language-preserving rewrites (ε-elimination, determinise-and-embed, double reversal, "
        "edge splitting by ε, added unreachable / dead / duplicated states, renaming) — equivalent by construction "
        "— and by one-edge edits (add / drop / retarget one transition, flip one final state) — mostly "
        "inequivalent, often only on one long word; independent random pairs; pairs over different alphabets; a "
        "case is non-trivial when both operands have ≥2 states and both languages are non-empty; distinct = "
        "distinct ordered pairs of definitions")
ASSUMPTIONS = [
    "operands are NFAs that pass validate(); the property speaks about pairs over a common alphabet "
    "(different alphabets: __eq__ returns NotImplemented and == is False — modelled and compared, not part of the property)",
    "networkx UnionFind is modelled by its contract (representative of a class, union of two roots); the "
    "theorem holds for every choice of representative, the driver uses the heavier-root rule",
]
EXPLANATION = ("Theorems C09_* state that the model of NFA.__eq__ returns True exactly when the two languages are "
               "equal, for every union-find representative choice; this run ties the model to the code by "
               "differential execution and evaluates == / != on the real code against an independent decision "
               "procedure for language equality.")


def model_ask(ctx: Ctx, A: NFA, B: NFA):
    sigma = set(A.input_symbols) | set(B.input_symbols)
    sy = Names(sorted(sigma))
    encA, _ = L.enc_nfax(A, sy)
    encB, _ = L.enc_nfax(B, sy)
    line = ctx.driver("drv_nfa_ops").ask(f"NFA_EQ {encA} {encB}")
    t = Toks(line)
    t.expect("impl")
    impl = t.next()
    t.expect("eq")
    eq = t.next()
    t.expect("ne")
    ne = t.next()
    return dict(impl=impl, eq=eq, ne=ne), encA, encB


def real_obs(A: NFA, B: NFA):
    def b(x):
        if x is NotImplemented:
            return "NI"
        return "1" if x is True else "0" if x is False else repr(x)
    r_impl = call(lambda: A.__eq__(B))
    r_eq = call(lambda: A == B)
    r_ne = call(lambda: A != B)
    f = lambda r: b(r[1]) if r[0] == "ok" else "raised:" + r[1]
    return dict(impl=f(r_impl), eq=f(r_eq), ne=f(r_ne))


def check_pair(ctx: Ctx, A: NFA, B: NFA, origin: str, both_orders: bool = True):
    obs = real_obs(A, B)
    mod, encA, encB = model_ask(ctx, A, B)
    same_alpha = set(A.input_symbols) == set(B.input_symbols)
    case = dict(A=repr(A), B=repr(B))
    # --- the property on the real code
    verdict = None
    if same_alpha:
        verdict, w = L.distinguish(L.raw_of(A), L.raw_of(B), A.input_symbols, budget=20000)
        if verdict == "budget":
            ctx.stat("oracle_budget_exceeded")
        else:
            equal = verdict == "equal"
            if not equal:
                # re-confirm the distinguishing word on the real reader
                if A.accepts_input(w) == B.accepts_input(w):
                    ctx.note(f"oracle word {w!r} not confirmed by accepts_input")
                    equal = None
            if equal is not None:
                exp_eq, exp_ne = ("1" if equal else "0"), ("0" if equal else "1")
                wrong = []
                if obs["eq"] != exp_eq:
                    wrong.append(f"A == B is {obs['eq']} but the languages are {'equal' if equal else 'different'}"
                                 + ("" if equal else f" (word {w!r}: A {'accepts' if A.accepts_input(w) else 'rejects'}, "
                                                    f"B {'accepts' if B.accepts_input(w) else 'rejects'})"))
                if obs["ne"] != exp_ne:
                    wrong.append(f"A != B is {obs['ne']}")
                rev = real_obs(B, A)
                if rev["eq"] != obs["eq"] or rev["ne"] != obs["ne"]:
                    wrong.append(f"not symmetric: B == A is {rev['eq']}, A == B is {obs['eq']}")
                det = call(lambda: DFA.from_nfa(A) == DFA.from_nfa(B))
                if det[0] == "ok" and det[1] is not NotImplemented and ("1" if det[1] else "0") != obs["eq"]:
                    wrong.append(f"differs from comparing determinisations ({det[1]})")
                if wrong:
                    ctx.prop_fail("NFA ==: " + "; ".join(wrong), dict(case, distinguishing_word=w, observed=obs), None)
    nontrivial = (len(A.states) >= 2 and len(B.states) >= 2 and same_alpha and verdict in ("equal", "differ")
                  and _nonempty(A) and _nonempty(B))
    ctx.case((encA, encB) if nontrivial else None)
    ctx.stat(origin)
    ctx.stat("alphabet_same" if same_alpha else "alphabet_differs")
    if verdict:
        ctx.stat("languages_" + verdict)
        if verdict == "differ":
            ctx.stat(f"shortest_distinguishing_word_len_{min(len(w), 6)}{'+' if len(w) >= 6 else ''}")
    if any("" in row for row in A.transitions.values()) or any("" in row for row in B.transitions.values()):
        ctx.stat("with_eps")
    if ctx.evaluations % 397 == 1:
        ctx.sample(dict(A=repr(A), B=repr(B), observed=obs, model=mod, oracle=verdict))
    if obs != mod:
        ctx.corr_diff("NFA_EQ", case, obs, mod)
    if both_orders:
        check_pair(ctx, B, A, origin + "_swapped", both_orders=False)


def _nonempty(n: NFA) -> bool:
    r = L.raw_of(n)
    seen = set(r.start())
    work = list(seen)
    while work:
        q = work.pop()
        if q in r.finals:
            return True
        for (p, a), ts in r.edges.items():
            if p == q:
                for t in ts:
                    if t not in seen:
                        seen.add(t)
                        work.append(t)
    return False


# ------------------------------------------------------------------ rewrites
def _parts(n: NFA):
    return (set(n.states), set(n.input_symbols), {k: {a: set(ts) for a, ts in row.items()} for k, row in n.transitions.items()},
            n.initial_state, set(n.final_states))


def _fresh(states, rng):
    pool = [x for x in list(range(-2, len(states) + 3)) + ["n", ("n", 0), frozenset({"n"})] if x not in states]
    return rng.choice(pool)


def rw_split_edge(rng, n: NFA):
    st, sy, tr, init, fin = _parts(n)
    edges = [(q, a, t) for q, row in tr.items() if q in st for a, ts in row.items() for t in ts]
    if not edges:
        return None
    q, a, t = rng.choice(edges)
    m = _fresh(st, rng)
    tr[q][a].discard(t)
    tr[q][a].add(m)
    if rng.random() < 0.5:
        tr[m] = {"": {t}}
    else:   # ε first, then the symbol
        tr[q][a].discard(m)
        tr[q].setdefault("", set()).add(m)
        tr[m] = {a: {t}} if a != "" else {"": {t}}
    st.add(m)
    return NFA(states=st, input_symbols=sy, transitions=tr, initial_state=init, final_states=fin)


def rw_add_unreachable(rng, n: NFA):
    st, sy, tr, init, fin = _parts(n)
    m = _fresh(st, rng)
    st.add(m)
    row = {a: {rng.choice(list(st))} for a in sy if rng.random() < 0.7}
    if rng.random() < 0.3:
        row[""] = {rng.choice(list(st))}
    tr[m] = row
    if rng.random() < 0.5:
        fin.add(m)
    return NFA(states=st, input_symbols=sy, transitions=tr, initial_state=init, final_states=fin)


def rw_add_dead(rng, n: NFA):
    st, sy, tr, init, fin = _parts(n)
    m = _fresh(st, rng)
    st.add(m)
    tr[m] = {a: {m} for a in sy if rng.random() < 0.8}
    q = rng.choice(list(tr.keys() & (st - {m})) or [init])
    tr.setdefault(q, {}).setdefault(rng.choice(sorted(sy) + [""]), set()).add(m)
    return NFA(states=st, input_symbols=sy, transitions=tr, initial_state=init, final_states=fin)


def rw_duplicate_state(rng, n: NFA):
    st, sy, tr, init, fin = _parts(n)
    q = rng.choice(list(st))
    m = _fresh(st, rng)
    st.add(m)
    if q in tr:
        tr[m] = {a: set(ts) for a, ts in tr[q].items()}
    if q in fin:
        fin.add(m)
    for k, row in tr.items():
        for a, ts in row.items():
            if q in ts and rng.random() < 0.6:
                ts.add(m)
    return NFA(states=st, input_symbols=sy, transitions=tr, initial_state=init, final_states=fin)


def rw_rename(rng, n: NFA):
    st, sy, tr, init, fin = _parts(n)
    new = gen.name_pool(rng, len(st))
    if len(new) < len(st):
        return None
    f = dict(zip(st, new))
    tr2 = {f[k]: {a: {f[t] for t in ts} for a, ts in row.items()} for k, row in tr.items() if k in f}
    return NFA(states=set(f.values()), input_symbols=sy, transitions=tr2, initial_state=f[init], final_states={f[q] for q in fin})


def rw_library(rng, n: NFA):
    """Language-preserving library operations (their own checks are C07 / C08)."""
    k = rng.randrange(5)
    if k == 0:
        return n.eliminate_lambda()
    if k == 1:
        return NFA.from_dfa(DFA.from_nfa(n))
    if k == 2:
        return n.reverse().reverse()
    if k == 3:
        return NFA.from_dfa(DFA.from_nfa(n, minify=False, retain_names=True))
    return n.union(n)


REWRITES = [rw_split_edge, rw_add_unreachable, rw_add_dead, rw_duplicate_state, rw_rename, rw_library]


def edit_one_edge(rng, n: NFA):
    st, sy, tr, init, fin = _parts(n)
    k = rng.randrange(5)
    states = list(st)
    if k == 0:   # flip finality
        q = rng.choice(states)
        fin ^= {q}
    elif k == 1:  # add an edge
        q = rng.choice(states)
        tr.setdefault(q, {}).setdefault(rng.choice(sorted(sy) + [""]), set()).add(rng.choice(states))
    elif k == 2:  # drop an edge
        edges = [(q, a, t) for q, row in tr.items() for a, ts in row.items() for t in ts]
        if not edges:
            return None
        q, a, t = rng.choice(edges)
        tr[q][a].discard(t)
    elif k == 3:  # retarget an edge
        edges = [(q, a, t) for q, row in tr.items() for a, ts in row.items() for t in ts]
        if not edges:
            return None
        q, a, t = rng.choice(edges)
        tr[q][a].discard(t)
        tr[q][a].add(rng.choice(states))
    else:  # relabel an edge
        edges = [(q, a, t) for q, row in tr.items() for a, ts in row.items() for t in ts if a != ""]
        if not edges or len(sy) < 2:
            return None
        q, a, t = rng.choice(edges)
        tr[q][a].discard(t)
        tr[q].setdefault(rng.choice([b for b in sorted(sy) if b != a]), set()).add(t)
    if init not in tr:
        tr[init] = {}
    return NFA(states=st, input_symbols=sy, transitions=tr, initial_state=init, final_states=fin)


def deep_nfa(rng, alphabet, n: int) -> NFA:
    """A chain-like NFA whose language changes only on words of length ≈ n when one deep state is edited."""
    sy = list(alphabet)
    st = list(range(n))
    tr = {}
    for i in range(n):
        row = {}
        for a in sy:
            ts = {min(i + 1, n - 1)} if rng.random() < 0.8 else {rng.choice(st)}
            if rng.random() < 0.2:
                ts.add(rng.choice(st))
            row[a] = ts
        if rng.random() < 0.15:
            row[""] = {rng.choice(st)}
        tr[i] = row
    fin = {n - 1} if rng.random() < 0.7 else {q for q in st if rng.random() < 0.3}
    return NFA(states=set(st), input_symbols=set(sy), transitions=tr, initial_state=0, final_states=fin)


def corpus():
    a = NFA(states={0, 1}, input_symbols={"a"}, transitions={0: {"": {1}}, 1: {}}, initial_state=0, final_states={1})
    b = NFA(states={0}, input_symbols={"a"}, transitions={0: {}}, initial_state=0, final_states={0})
    yield a, b   # finality only through an ε-move
    c = NFA(states={0}, input_symbols={"a"}, transitions={0: {}}, initial_state=0, final_states=set())
    yield a, c
    yield b, c
    # different alphabets, same language
    d = NFA(states={0}, input_symbols={"a", "b"}, transitions={0: {}}, initial_state=0, final_states={0})
    yield b, d
    # states without rows in the current set, empty target sets
    e = NFA(states={0, 1, 2}, input_symbols={"a", "b"}, transitions={0: {"a": {1, 2}, "b": set()}, 2: {"b": {0}}},
            initial_state=0, final_states={1})
    f = NFA(states={"p", "q"}, input_symbols={"a", "b"}, transitions={"p": {"a": {"q"}}, "q": {"b": {"p"}}},
            initial_state="p", final_states={"q"})
    yield e, f


def run(ctx: Ctx):
    rng = ctx.rng
    thorough = ctx.thorough()
    for A, B in corpus():
        check_pair(ctx, A, B, "corpus")
    # 1. bounded-exhaustive
    ones = list(gen.all_nfas(1, ("a", "b")))
    for A in ones:
        for B in ones:
            check_pair(ctx, A, B, "exhaustive", both_orders=False)
    ctx.exhaustive("all ordered pairs of 1-state NFAs over {a,b} with ε-loops and empty target sets")
    twos = list(gen.all_nfas(2, ("a",)))
    sub = twos if thorough else twos[::7]
    ones_a = list(gen.all_nfas(1, ("a",)))
    for A in sub:
        for B in ones_a:
            check_pair(ctx, A, B, "exhaustive", both_orders=True)
    ctx.exhaustive(("all" if thorough else "every 7th of the") + " 2-state NFAs over {a} with ε × all 1-state NFAs over {a}, both orders")
    for _ in range(ctx.budget(600, 40000)):
        A = rng.choice(twos)
        B = rng.choice(twos)
        check_pair(ctx, A, B, "small_pairs", both_orders=False)
    # 2. rewrites and edits
    for _ in range(ctx.budget(1500, 30000)):
        alpha = rng.choice(gen.ALPHABETS[:5])
        if rng.random() < 0.25:
            A = deep_nfa(rng, alpha[:2], rng.randint(3, 6))
        else:
            A = gen.rand_nfa(rng, 5, alphabet=alpha)
        B = A
        for _ in range(rng.randint(1, 3)):
            r = rng.choice(REWRITES)
            B2 = call(lambda: r(rng, B))
            if B2[0] == "ok" and B2[1] is not None and len(B2[1].states) <= 12:
                B = B2[1]
                ctx.stat("rewrite_" + r.__name__)
        check_pair(ctx, A, B, "rewritten_equivalent")
        C = edit_one_edge(rng, B if rng.random() < 0.5 else A)
        if C is not None:
            check_pair(ctx, A, C, "one_edge_edit")
    # 3. independent random pairs (same and different alphabets)
    for _ in range(ctx.budget(800, 20000)):
        alpha = rng.choice(gen.ALPHABETS[:5])
        A = gen.rand_nfa(rng, 5, alphabet=alpha)
        if rng.random() < 0.15:
            beta = rng.choice(gen.ALPHABETS[:5])
        else:
            beta = alpha
        B = gen.rand_nfa(rng, 5, alphabet=beta) if rng.random() < 0.8 else L.degenerate_nfa(rng, beta)[1]
        check_pair(ctx, A, B, "random_pair")


def search(ctx: Ctx):
    """Deeper failing-input search: larger operands, longer rewrite chains, more edits."""
    rng = ctx.rng
    for _ in range(ctx.budget(1500, 20000)):
        alpha = rng.choice(gen.ALPHABETS[:5])
        A = deep_nfa(rng, alpha[:2], rng.randint(4, 7)) if rng.random() < 0.4 else gen.rand_nfa(rng, 6, alphabet=alpha)
        B = A
        for _ in range(rng.randint(1, 4)):
            r = rng.choice(REWRITES)
            B2 = call(lambda: r(rng, B))
            if B2[0] == "ok" and B2[1] is not None and len(B2[1].states) <= 12:
                B = B2[1]
        check_pair(ctx, A, B, "search_equivalent")
        C = edit_one_edge(rng, B)
        if C is not None:
            check_pair(ctx, A, C, "search_edit")
        if ctx.n_prop_fails:
            return


def replay(ctx: Ctx, path: str) -> int:
    data = json.load(open(path))
    rp = data.get("replay", data)
    env = {"NFA": NFA, "frozenset": frozenset}
    A = eval(rp["A"], env)
    B = eval(rp["B"], env)
    check_pair(ctx, A, B, "replay")
    if ctx.prop_fails:
        print(f"VIOLATION property=C09 replay={path}")
        print("  " + ctx.prop_fails[0]["what"])
        return 1
    print("replay: property holds on this input now")
    return 0
