"""C14 — successor / predecessor traversal enumerates the language in order, completely.

Correspondence (driver drv_dfa_query, command SUCCS): the words produced by
`successors(start, strict, key, reverse, min_length, max_length)` (first n of them, whether
the generator is exhausted, the exception class) and the single-step wrappers `successor` /
`predecessor`, real code vs. the Lean model of the explicit-stack traversal.

Property oracle (independent of the model): the window set W = accepted words with
min ≤ |w| ≤ max (max given, or the maximal word length of a finite language) enumerated by
brute force through the real accepts_input, filtered by the key-lexicographic comparison with
the start string (`[key(c) for c in w]` compared as Python lists) and sorted — increasing for
successors, decreasing for predecessors; infinite languages must be refused by the
predecessor direction with InfiniteLanguageException.

Domain of the positive theorems: start strings over the (non-empty) alphabet; a max length
whenever the language is infinite (forward direction); injective keys.  Start strings with a
foreign symbol (KeyError, F13) and empty alphabets (IndexError, F14) are INSIDE the literal
statement ("not even readable … handled like any other", "every DFA"): a dedicated probe family
produces them on every run and reports them as property failures under the open finding keys
`C14:start-string-with-foreign-symbol` and `C14:empty-alphabet` (negative theorems
C14_foreign_start_raises / C14_empty_alphabet); the model must agree with the code there too.
Non-injective keys (not an ordering) are run in a separate stream whose results are only counted.

The `key` argument is passed as the code sees it in practice: `None` (the default every ordinary
caller uses; half of the cases whose ordering is the code-point order), an int-valued lambda, a
tuple-valued or a str-valued callable inducing the same ranking.  Part of the generators are
consumed in two pieces with `clear_cache()` / other queries on the same object in between
(partially consumed generators, see also C20).

Round 3 (seeded changes C14_w3m2, C20_w3m3, and the C14 side of C13_w3m1): CHAINS — 3–8 successor-search calls
(successors / predecessors / successor / predecessor) made one after the other on ONE live object.  Part of the
steps start at the word the previous call returned (`w = d.successor(w)` loops, then the same word asked about
again non-strictly, strictly, in the other direction, with another window, through the generator); between
consecutive calls strictness, direction, window, wrapper and the RANKING are changed.  keymode "shared" hands
the SAME callable object to every call of the chain (four ways of writing it: `rank.get`, a closure over the
dict, a closure over a rebound variable, a callable instance) and changes the ranking behind it; the oracle
uses the ranking in force at the moment of the call.  Live objects are built under the default options or
under allow_mutable_automata=True from plain / aliased / copied containers; the oracle and the model see the
frozen twin.  A failing chain is minimised and recorded as a concrete replay.

Round 6 (seeded change C14_w6m2: the traversal rewritten as a recursive generator): DEEP searches — nothing in the
property bounds the length of the start string or of the words of the language, every other generator stays below
9 symbols.  `deep_family` asks all four methods (strict / non-strict, both directions, both rankings, windows in the
thousands) about languages whose words are 1200–3000 symbols long, described by a small spec
(harness/dfa_succ_deep.py) from which the real DFA is built with the library's constructors and the answer is known
in closed form; the same templates at depth 3–5 tie the closed forms to the brute-force oracle on every run.
"""
from __future__ import annotations

import itertools
import json

from automata.fa.dfa import DFA

from harness import gen
from harness import dfa_query_lib as L
from harness import dfa_query_lib3 as L3
from harness import dfa_history_lib as H
from harness import dfa_succ_deep as D6
from harness.common import guarded as case_guard
from harness.common import Ctx, InfraError, Toks, call, enc_dfa, toks

LEVEL = "proof"
RULE = ("cases = (valid DFA, start string or None, strict, key (None / int- / tuple- / str-valued callable), direction, "
        "min_length, max_length, number of words requested, optionally: generator consumed in two pieces around other "
        "calls on the same object); corpus (F2 triggers, mutant killers), probes of the two open findings (foreign symbol "
        "in the start string, empty alphabet), all DFAs with ≤2 states over {a,b} × {None + all start strings of length "
        "≤3} × both directions × windows/strictness/key orders (sampled in the quick tier, complete in the thorough "
        "tier), then shaped random DFAs (≤6 states) whose start and window are aimed at an accepted word in 70 % of the "
        "cases (starts: None, '', accepted words, prefixes, extensions, unreadable, longer than max_length); a case is "
        "non-trivial when the DFA has ≥2 states and the expected output is non-empty; distinct = distinct "
        "(definition, arguments); chains = 3–8 calls on ONE object (answers fed back as the next start, strictness / "
        "direction / window / wrapper / ranking changed between consecutive calls, one shared key callable re-ranked "
        "between calls, object built under the default options or under allow_mutable_automata=True from plain "
        "containers): every ordering of the alphabet in turn and written-out successor loops on 5 corpus DFAs, random "
        "chains on shaped random DFAs, each answer judged by the sorted filter with the ranking of that moment; round 4: "
        "the same chains on an object DERIVED (complement / ~ / copy / to_complete / to_partial / minify / boolean "
        "operations) from a source that was queried before (isempty / isfinite / lengths / cardinality / iteration / "
        "counting / successor searches), judged on the derived object's own definition; round 6 (deep family): 11 languages "
        "given by a spec whose words are 1200–3000 symbols long (depths drawn from the rng: finite languages with one or "
        "several deep words, DFA.of_length with min/max in the thousands over {a} and {a,b} incl. max_length=None, "
        "hand-written chains with side branch / trap state / a cycle of 3 states at the end / a cycle that cannot be left, "
        "x*y*) × 5–12 calls each (85 in all: successor / successors / predecessor / predecessors / successors(reverse=True), "
        "strict and not, code-point and reversed ranking, start None / '' / short / deep accepted / deep readable / deep "
        "unreadable, min_length / max_length windows in the thousands), answers in closed form from the construction "
        "(no model round trip), plus the same 85 templates at depth 3–5 where the closed form is compared with the "
        "brute-force sorted filter")
F13_KEY = "C14:start-string-with-foreign-symbol"
F14_KEY = "C14:empty-alphabet"

ASSUMPTIONS = [
    "positive theorems: start strings use only symbols of a non-empty alphabet; outside that the code fails (foreign symbol → KeyError: open finding F13; empty alphabet → IndexError: open finding F14), reproduced and reported on every run",
    "forward direction on an infinite language is only used with max_length (otherwise the generator need not produce a next word)",
    "the key is injective on the alphabet (a symbol ordering); no state is literally None",
    "a key callable is a pure function DURING a call; between two calls its ranking may change (same callable object): "
    "each call must honour the ranking in force when it is made",
    "allow_mutable_automata=True: the caller does not modify the containers it handed over; answers are judged against "
    "the definition as built (frozen twin)",
]
EXPLANATION = ("Theorems C14_* relate the model's stack machine to the sorted filter of the window set; this "
               "run ties the model to the code by differential execution and evaluates the property on the "
               "real code with a brute-force sorted filter; for words beyond the reach of brute force (1200–3000 "
               "symbols: deep family) the property is evaluated with closed-form answers derived from the construction "
               "of the language, without a model round trip.")

FUEL = 30000
TIMEOUT_S = 10


def guarded(f):
    """Real call with a wall-clock guard (a broken traversal may not terminate)."""
    return L.guarded(f, TIMEOUT_S)


def key_callable(p: dict):
    """The `key=` argument handed to the real code: None, or a callable with int / tuple / str
    values that induces the ranking of p["key"] (a dict symbol → int)."""
    mode = p.get("keymode", "int")
    km = p["key"]
    if mode in ("none", "none_explicit"):
        return None
    if mode == "int":
        return lambda c: km[c]
    rank = {v: i for i, v in enumerate(sorted(set(km.values())))}
    if mode == "tuple":
        return lambda c: (rank[km[c]] // 2, rank[km[c]] % 2)
    if mode == "str":
        return lambda c: "k" + chr(97 + rank[km[c]])
    raise InfraError(f"unknown key mode {mode}")


def codepoint_order(symbols, km: dict) -> bool:
    """Does the key map induce exactly the default ordering (key=None: code points)?"""
    sy = sorted(symbols)
    return len(set(km.values())) == len(km) and sorted(sy, key=lambda c: km[c]) == sy


def pick_keymode(rng, symbols, km: dict) -> str:
    if codepoint_order(symbols, km) and rng.random() < 0.5:
        return rng.choice(["none", "none", "none_explicit"])
    return rng.choice(["int", "int", "int", "tuple", "str"])


def kwargs_of(p: dict) -> dict:
    kw = dict(strict=p["strict"], min_length=p["min"], max_length=p["max"])
    mode = p.get("keymode", "int")
    if mode == "none":
        return kw                       # the keyword is left out altogether (the default)
    kw["key"] = None if mode == "none_explicit" else key_callable(p)
    return kw


def open_successors(c: DFA, p: dict):
    return c.successors(p["start"], reverse=p["reverse"], **kwargs_of(p))


def real_successors(d: DFA, p: dict):
    c = d.copy()
    g = lambda: list(itertools.islice(open_successors(c, p), p["n"]))
    return guarded(g)


BETWEEN = ["clear_cache", "count", "words", "isfinite", "other_generator", "same_generator_again"]


def do_between(c: DFA, p: dict, what: str):
    """Another public call on the same object while a successors generator is suspended."""
    try:
        if what == "clear_cache":
            c.clear_cache()
        elif what == "count":
            c.count_words_of_length(3)
        elif what == "words":
            list(c.words_of_length(2))
        elif what == "isfinite":
            c.isfinite()
        elif what == "other_generator":
            next(c.successors(None, reverse=not p["reverse"], max_length=2), None)
        elif what == "same_generator_again":
            next(open_successors(c, p), None)
    except Exception:  # noqa: BLE001 - e.g. InfiniteLanguageException of the *other* generator
        pass


def real_successors_split(d: DFA, p: dict):
    """The same generator consumed in two pieces (p["split"] = {cut, between}) with other public
    calls on the same object while it is suspended: must deliver what one islice delivers."""
    c = d.copy()
    sp = p["split"]

    def run():
        g = open_successors(c, p)
        part1 = list(itertools.islice(g, min(sp["cut"], p["n"])))
        for b in sp["between"]:
            do_between(c, p, b)
        return part1 + list(itertools.islice(g, max(p["n"] - sp["cut"], 0)))
    return guarded(run)


def real_wrappers(d: DFA, p: dict):
    """successor / predecessor (single step) and, for the reverse direction, predecessors()
    (the wrappers pass the start through unchanged, so None is accepted there too)."""
    c = d.copy()
    out = {}
    if p["reverse"]:
        out["first"] = guarded(lambda: c.predecessor(p["start"], **kwargs_of(p)))
        c2 = d.copy()
        out["predecessors"] = guarded(lambda: list(itertools.islice(c2.predecessors(p["start"], **kwargs_of(p)), p["n"])))
    else:
        out["first"] = guarded(lambda: c.successor(p["start"], **kwargs_of(p)))
    return out


def domain_kind(d: DFA, p: dict, shape: dict) -> str:
    if not d.input_symbols:
        return "empty_alphabet"
    if p["start"] is not None and any(ch not in d.input_symbols for ch in p["start"]):
        return "foreign_symbol"
    if len(set(p["key"].values())) != len(p["key"]):
        return "non_injective_key"
    if not p["reverse"] and not shape["finite"] and p["max"] is None:
        return "forward_infinite_without_max"
    return "in"


def in_domain(d: DFA, p: dict, shape: dict) -> bool:
    return domain_kind(d, p, shape) == "in"


def expected_of(d: DFA, p: dict, shape: dict):
    """What the property dictates: ("err", InfiniteLanguageException) or ("ok", full word list)."""
    if p["reverse"] and not shape["finite"]:
        return ("err", "InfiniteLanguageException")
    return ("ok", L.succ_oracle(d, p["start"], p["strict"], p["key"], p["reverse"], p["min"], p["max"], shape))


def prop_succ(d: DFA, p: dict, shape: dict):
    """Evaluate the property on the real code.  Returns (failures, observations)."""
    exp = expected_of(d, p, shape)
    got = real_successors(d, p)
    wr = real_wrappers(d, p)
    bad = []
    if exp[0] == "err":
        if p["n"] > 0 and got != exp:
            bad.append(f"successors(reverse=True) on an infinite language gave {str(got)[:160]}, expected {exp}")
        if "first" in wr and wr["first"] != exp:
            bad.append(f"predecessor() on an infinite language gave {wr['first']}, expected {exp}")
        if "predecessors" in wr and p["n"] > 0 and wr["predecessors"] != exp:
            bad.append(f"predecessors() on an infinite language gave {str(wr['predecessors'])[:160]}")
        want = exp if p["n"] > 0 else ("ok", [])
    else:
        full = exp[1]
        want = ("ok", full[: p["n"]])
        name = "predecessors-order" if p["reverse"] else "successors"
        if got != want:
            bad.append(f"{name}: first {p['n']} words = {str(got)[:200]}, sorted filter of the window set gives {str(want)[:200]}")
        if "first" in wr:
            w1 = ("ok", full[0] if full else None)
            if wr["first"] != w1:
                bad.append(f"{'predecessor' if p['reverse'] else 'successor'}() = {wr['first']}, expected {w1}")
        if "predecessors" in wr and wr["predecessors"] != want:
            bad.append(f"predecessors(): first {p['n']} words = {str(wr['predecessors'])[:200]}, expected {str(want)[:200]}")
    if p.get("split"):
        gs = real_successors_split(d, p)
        if gs != want:
            bad.append(f"generator consumed in two pieces ({p['split']}) delivered {str(gs)[:200]}, expected {str(want)[:200]}")
    return bad, dict(got=got, wrappers=wr, expected=exp)


def prop_finding(d: DFA, p: dict, shape: dict, kind: str):
    """The two input classes on which the code is known to fail (F13 foreign symbol in the start
    string, F14 empty alphabet).  The property asks for the sorted filter of the window set (or
    InfiniteLanguageException for reverse on an infinite language) like for any other input; an
    exception is a failure.  Returns ([(message, finding_key)], observations)."""
    got = real_successors(d, p)
    wr = real_wrappers(d, p)
    bad = []
    known = {"foreign_symbol": ("KeyError", F13_KEY), "empty_alphabet": ("IndexError", F14_KEY)}[kind]
    if p["reverse"] and not shape["finite"]:
        exp = ("err", "InfiniteLanguageException")
    elif not shape["finite"] and p["max"] is None:
        exp = None      # forward, infinite language, no max length: only "no exception" is required
    elif kind == "empty_alphabet" or codepoint_order(d.input_symbols, p["key"]):
        km = dict(p["key"]) if kind == "empty_alphabet" else {c: ord(c) for c in set(d.input_symbols) | set(p["start"] or "")}
        exp = ("ok", L.succ_oracle(d, p["start"], p["strict"], km, p["reverse"], p["min"], p["max"], shape))
    else:
        exp = None      # a custom key says nothing about the foreign symbol: only "no exception" is required
    def judge(label, r, want):
        if r[0] == "err" and (want is None or want[0] == "ok"):
            fk = known[1] if r[1] == known[0] else None
            bad.append((f"{label} raised {r[1]} (the property asks for the words of the window set "
                        f"{'after' if not p['reverse'] else 'before'} the start string)", fk))
        elif want is not None and r != want:
            bad.append((f"{label} = {str(r)[:160]}, expected {str(want)[:160]}", None))
    if p["n"] > 0 or (exp and exp[0] == "ok"):
        want = None if exp is None else (exp if exp[0] == "err" else ("ok", exp[1][: p["n"]]))
        if p["n"] > 0:
            judge(f"successors(reverse={p['reverse']})", got, want)
            if "predecessors" in wr:
                judge("predecessors()", wr["predecessors"], want)
    if "first" in wr:
        want1 = None if exp is None else (exp if exp[0] == "err" else ("ok", exp[1][0] if exp[1] else None))
        judge("predecessor()" if p["reverse"] else "successor()", wr["first"], want1)
    return bad, dict(got=got, wrappers=wr, expected=exp)


def model_succ(ctx: Ctx, enc: str, sy, p: dict):
    line = ctx.driver(L.DRV).ask(toks("SUCCS", enc, L.enc_succ_args(sy, p["start"], p["strict"], p["reverse"],
                                                                   p["min"], p["max"], p["key"]), p["n"], FUEL))
    t = Toks(line)
    t.expect("words")
    ws = ["".join(sy.back(c) for c in w) for w in L.rd_words(t)]
    t.expect("end")
    end = t.next()
    exn = t.next() if end == "raised" else None
    t.expect("first")
    fk = t.next()
    if fk == "word":
        first = ("ok", "".join(sy.back(c) for c in t.ints()))
    elif fk == "none":
        first = ("ok", None)
    elif fk == "raised":
        first = ("err", t.next())
    else:
        first = ("fuel", None)
    return dict(words=ws, end=end, exn=exn, first=first)


def model_as_observation(m: dict, n: int):
    """What list(islice(gen, n)) observes of the model's run."""
    if m["end"] == "raised":
        return ("err", m["exn"])
    return ("ok", m["words"])


def readable(d: DFA, w: str) -> bool:
    q = d.initial_state
    for ch in w:
        if ch not in d.transitions[q]:
            return False
        q = d.transitions[q][ch]
    return True


def describe(d: DFA, p: dict) -> dict:
    return dict(automaton=repr(d), params=p)


def compare_with_model(ctx: Ctx, d: DFA, enc: str, sy, p: dict, obs: dict) -> None:
    """Correspondence: first n words / exception class / exhaustion flag / single-step result."""
    m = model_succ(ctx, enc, sy, p)
    if m["end"] == "outOfFuel":
        ctx.stat("model:outOfFuel")
        return
    got = obs["got"]
    mo = model_as_observation(m, p["n"])
    if p["n"] == 0:
        mo = ("ok", [])  # a generator that is never advanced raises nothing
    if mo != got:
        ctx.corr_diff("SUCCS", describe(d, p), got, m)
        return
    if got[0] == "ok":
        exhausted = len(got[1]) < p["n"]
        if (m["end"] == "finished") != exhausted:
            ctx.corr_diff("SUCCS end", describe(d, p), dict(exhausted=exhausted), m)
    if "first" in obs["wrappers"] and m["first"][0] != "fuel" and m["first"] != obs["wrappers"]["first"]:
        ctx.corr_diff("SUCCS first", describe(d, p), obs["wrappers"]["first"], m["first"])


@case_guard
def check_case(ctx: Ctx, d: DFA, enc: str, sy, shape: dict, p: dict, origin: str):
    if L.TIMEOUTS >= 6:
        # every call that does not return costs a full time-out and IS a recorded failure: stop producing more
        if not any("cases skipped" in n for n in ctx.notes):
            ctx.note(f"{L.TIMEOUTS} real calls did not return within {TIMEOUT_S}s; the remaining cases skipped")
        ctx.stat("skipped:after_repeated_timeouts")
        return
    kind = domain_kind(d, p, shape)
    if kind in ("foreign_symbol", "empty_alphabet"):
        return finding_case(ctx, d, enc, sy, shape, p, kind)
    if kind != "in":
        return stat_only(ctx, d, enc, sy, shape, p)
    bad, obs = prop_succ(d, p, shape)
    exp = obs["expected"]
    nontrivial = len(d.states) >= 2 and exp[0] == "ok" and len(exp[1]) >= 1
    ctx.case((enc, json.dumps(p, sort_keys=True)) if nontrivial else None)
    ctx.stat(f"origin:{origin}")
    ctx.stat("dir:reverse" if p["reverse"] else "dir:forward")
    ctx.stat(f"key:{p.get('keymode', 'int')}")
    if p.get("split"):
        ctx.stat("consumed:in_two_pieces")
    if p["start"] is None:
        ctx.stat("start:None")
    elif p["start"] == "":
        ctx.stat("start:empty")
    else:
        acc = d.accepts_input(p["start"])
        ctx.stat("start:accepted" if acc else ("start:readable_not_accepted" if readable(d, p["start"]) else "start:unreadable"))
        if p["max"] is not None and len(p["start"]) > p["max"]:
            ctx.stat("start:longer_than_max")
    ctx.stat(f"expect_nonempty:{origin}:{int(exp[0] == 'ok' and len(exp[1]) >= 1)}")
    if exp[0] == "err":
        ctx.stat("expect:InfiniteLanguageException")
    else:
        ctx.stat("expect:empty_output" if not exp[1] else ("expect:prefix" if p["n"] <= len(exp[1]) else "expect:exhausted"))
    for b in bad:
        ctx.prop_fail(f"successors{p}: {b}", dict(describe(d, p), what=b), None)
    if ctx.evaluations % 2999 == 1:
        ctx.sample(dict(describe(d, p), real=obs["got"], expected=exp))
    if bad:
        return
    compare_with_model(ctx, d, enc, sy, p, obs)


def finding_case(ctx: Ctx, d: DFA, enc: str, sy, shape: dict, p: dict, kind: str):
    """F13 / F14 probes: inside the literal domain, the code raises.  Reported as property
    failures under the finding keys; the model must show the same behaviour (negative theorems
    C14_foreign_start_raises, C14_empty_alphabet)."""
    bad, obs = prop_finding(d, p, shape, kind)
    ctx.case((enc, json.dumps(p, sort_keys=True)) if len(d.states) >= 2 else None)
    ctx.stat(f"finding_probe:{kind}")
    ctx.stat(f"finding_probe:{kind}:{'reverse' if p['reverse'] else 'forward'}")
    for msg, fk in bad:
        ctx.stat(f"finding_probe:{kind}:fails" + ("" if fk else ":unexpected_way"))
        ctx.prop_fail(f"successors on {d!r} with {p}: {msg}", dict(describe(d, p), what=msg), fk)
    if not bad:
        ctx.stat(f"finding_probe:{kind}:holds(" + ("infinite language refused first" if p["reverse"] and not shape["finite"]
                                                   else "n=0" if p["n"] == 0 else "no exception") + ")")
    compare_with_model(ctx, d, enc, sy, p, obs)


def stat_only(ctx: Ctx, d: DFA, enc: str, sy, shape: dict, p: dict):
    """Outside the domain (non-injective key = not an ordering; forward direction on an infinite
    language without max_length): only compare exception classes / outputs of model and code, count."""
    if not p["reverse"] and not shape["finite"] and p["max"] is None:
        ctx.stat("outside:forward_infinite_without_max(skipped)")
        return
    got = real_successors(d, p)
    m = model_succ(ctx, enc, sy, p)
    mo = model_as_observation(m, p["n"])
    kind = "non_injective_key"
    if mo == got:
        ctx.stat(f"outside:{kind}:model_agrees:{got[1] if got[0] == 'err' else 'ok'}")
    elif got[0] == "ok" and mo[0] == "ok" and mo[1][: len(got[1])] == got[1]:
        ctx.stat(f"outside:{kind}:model_agrees_on_prefix")
    else:
        ctx.stat(f"outside:{kind}:model_differs")
        ctx.note(f"outside-domain difference ({kind}): {describe(d, p)} real={str(got)[:120]} model={str(m)[:160]}")


# ------------------------------------------------------------------ parameters
def starts_upto(alphabet, k):
    return [None] + list(gen.words_upto(sorted(alphabet), k))


def all_keys(alphabet):
    sy = sorted(alphabet)
    for perm in itertools.permutations(range(len(sy))):
        yield {c: p for c, p in zip(sy, perm)}


def rand_start(rng, d: DFA, bw, shape):
    sy = sorted(d.input_symbols)
    r = rng.random()
    words = [w for ws in bw.values() for w in ws]
    if r < 0.12:
        return None
    if r < 0.2:
        return ""
    if r < 0.5 and words:
        w = rng.choice(words)
        r2 = rng.random()
        if r2 < 0.5:
            return w
        if r2 < 0.75:
            return w[: rng.randint(0, len(w))]
        return w + "".join(rng.choice(sy) for _ in range(rng.randint(1, 2)))
    return gen.rand_word(rng, sy, 6)


def aim_at_word(rng, d: DFA, bw, p: dict) -> bool:
    """Re-draw window and start of `p` so that the expected output is non-empty: pick an accepted
    word t, a window containing |t| and a start on the right side of t (None, '', an accepted
    word, a prefix / an extension, an unreadable or a random string — whatever compares right)."""
    words = [w for ws in bw.values() for w in ws]
    if not words:
        return False
    sy = sorted(d.input_symbols)
    kl = L.key_lex(p["key"])
    t = rng.choice(words)
    p["min"] = rng.choice([0, 0, rng.randint(0, len(t)), len(t)])
    if p["max"] is not None or rng.random() < 0.5:
        p["max"] = len(t) + rng.choice([0, 0, 1, 2])
    right_side = (lambda s: kl(s) > kl(t)) if p["reverse"] else (lambda s: kl(s) < kl(t))
    for _ in range(8):
        s0 = rand_start(rng, d, bw, None)
        if s0 is None or right_side(s0) or (s0 == t and not p["strict"]):
            p["start"] = s0
            return True
    r = rng.random()
    if r < 0.3:
        p["start"], p["strict"] = t, False
    elif p["reverse"]:
        p["start"] = t + "".join(rng.choice(sy) for _ in range(rng.randint(1, 2)))      # an extension is greater
    else:
        p["start"] = t[: rng.randint(0, len(t) - 1)] if t else None                       # a proper prefix is smaller
    return True


def rand_params(rng, d: DFA, bw, shape, hi):
    start = rand_start(rng, d, bw, shape)
    reverse = rng.random() < (0.5 if shape["finite"] else 0.05)
    mn = rng.choice([0, 0, 0, 0, 1, 2, 3])
    if not shape["finite"] and not reverse:
        mx = rng.randint(0, hi)
    else:
        mx = rng.choice([None, None, rng.randint(0, hi)])
    key = L.rand_key(rng, d.input_symbols)
    p = dict(start=start, strict=rng.random() < 0.5, key=key, keymode=pick_keymode(rng, d.input_symbols, key),
             reverse=reverse, min=mn, max=mx, n=0)
    if (shape["finite"] or not reverse) and rng.random() < 0.7:
        if aim_at_word(rng, d, bw, p) and p["max"] is not None:
            p["max"] = min(p["max"], hi)        # the brute-force oracle enumerates up to max
    return p


def set_n(rng, d, p, shape):
    exp = expected_of(d, p, shape)
    total = len(exp[1]) if exp[0] == "ok" else 1
    r = rng.random()
    p["n"] = total + 1 if r < 0.6 else rng.randint(0, total + 1) if r < 0.9 else 1
    if p["n"] >= 1 and rng.random() < 0.25:
        p["split"] = dict(cut=rng.randint(0, min(p["n"], total + 1)),
                          between=[rng.choice(BETWEEN) for _ in range(rng.choice([1, 1, 2]))])
    return p


def hi_for(d: DFA, shape) -> int:
    cap = {0: 2, 1: 7, 2: 5, 3: 4}.get(len(d.input_symbols), 3)
    if shape["finite"] and not shape["empty"]:
        return max(shape["max"], 1)
    return cap


def check_dfa_random(ctx: Ctx, d: DFA, origin: str, cases: int):
    rng = ctx.rng
    enc, st, sy = enc_dfa(d)
    shape = L.language_shape(d)
    hi = hi_for(d, shape)
    if len(d.input_symbols) ** hi > 5000:
        ctx.stat("skipped:too_large_for_oracle")
        return
    bw = L.brute_words(d, hi)
    ctx.stat("lang:empty" if shape["empty"] else ("lang:finite" if shape["finite"] else "lang:infinite"))
    for _ in range(1 if shape["empty"] else cases):
        p = set_n(rng, d, rand_params(rng, d, bw, shape, hi), shape)
        check_case(ctx, d, enc, sy, shape, p, origin)


# ------------------------------------------------------------------ round 3: chains of calls on ONE object
# A *chain* is a list of successor-search calls made one after the other on one live object.  Each step is
# a parameter dict `p` as above plus  call ∈ {successors, predecessors, successor, predecessor}  and
# keymode ∈ {shared, none, none_explicit, int, tuple, str}.  keymode "shared": ONE callable object for the
# whole chain (L3.SharedKey, four ways of writing it) whose ranking is set to p["key"] just before the
# call — the oracle always uses the ranking in force AT THE MOMENT of the call.  Steps marked from_prev
# start at the word the previous call returned (correlated calls: successor → successor(strict=False) →
# predecessor …, window / strictness / direction / ranking / wrapper changed between consecutive calls).
# The live object is built by L3.build_live (default options or allow_mutable_automata=True with plain
# containers); every answer is judged by the brute-force sorted filter evaluated on the frozen twin.
CHAIN_CALLS = ["successors", "predecessors", "successor", "predecessor"]
CHAIN_TIMEOUT_S = 4
MINIMISE_BUDGET_S = 12


def hanging(ctx: Ctx, limit: int = 3) -> bool:
    """A traversal that no longer terminates costs a full time-out per call: after a few of them the family
    stops (the failing inputs found so far are reported)."""
    if L.TIMEOUTS >= limit:
        if not any("did not return" in n for n in ctx.notes):
            ctx.note(f"{L.TIMEOUTS} real calls did not return within their time limit; chain family cut short")
        return True
    return False


class ChainOracle:
    """The sorted filter of the window set, from ONE brute-force enumeration of the twin's language."""

    def __init__(self, d: DFA, shape: dict = None, hi: int = None, bw: dict = None):
        self.d = d
        self.shape = shape or L.language_shape(d)
        self.hi = hi_for(d, self.shape) if hi is None else hi
        self.bw = bw if bw is not None else (L.brute_words(d, self.hi) if self.feasible() else {})

    def feasible(self) -> bool:
        return bool(self.d.input_symbols) and len(self.d.input_symbols) ** self.hi <= 5000

    def full(self, p: dict):
        sh = self.shape
        if p["reverse"] and not sh["finite"]:
            return ("err", "InfiniteLanguageException")
        if sh["empty"]:
            return ("ok", [])
        hi = p["max"] if p["max"] is not None else sh["max"]
        if sh["finite"]:
            hi = sh["max"] if hi is None else min(hi, sh["max"])
        if hi > self.hi:
            if len(self.d.input_symbols) ** hi > 20000:
                raise InfraError(f"chain oracle: window up to {hi} too large on {self.d!r}")
            self.bw = L.brute_words(self.d, hi)
            self.hi = hi
        kl = L.key_lex(p["key"])
        W = [w for k in range(p["min"], hi + 1) for w in self.bw.get(k, [])]
        if p["start"] is not None:
            ks = kl(p["start"])
            if p["reverse"]:
                W = [w for w in W if kl(w) < ks or (not p["strict"] and w == p["start"])]
            else:
                W = [w for w in W if kl(w) > ks or (not p["strict"] and w == p["start"])]
        return ("ok", sorted(W, key=kl, reverse=p["reverse"]))

    def expected(self, p: dict):
        full = self.full(p)
        if p["call"] in ("successors", "predecessors"):
            if full[0] == "err":
                return full if p["n"] > 0 else ("ok", [])     # a generator that is never advanced raises nothing
            return ("ok", full[1][: p["n"]])
        if full[0] == "err":
            return full
        return ("ok", full[1][0] if full[1] else None)

    def first_word(self, p: dict):
        full = self.full(p)
        return full[1][0] if full[0] == "ok" and full[1] else None


def show_chain_step(p: dict) -> str:
    args = [repr(p["start"])]
    if not p["strict"]:
        args.append("strict=False")
    mode = p.get("keymode", "int")
    if mode != "none":
        order = "".join(sorted(p["key"], key=lambda c: p["key"][c]))
        args.append("key=None" if mode == "none_explicit" else f"key=<{mode}: {order}>")
    if p["call"] == "successors" and p["reverse"]:
        args.append("reverse=True")
    if p["min"]:
        args.append(f"min_length={p['min']}")
    if p["max"] is not None:
        args.append(f"max_length={p['max']}")
    txt = f"{p['call']}({', '.join(args)})"
    return txt if p["call"] in ("successor", "predecessor") else f"first {p['n']} of {txt}"


def chain_call_raw(c: DFA, p: dict, shared: L3.SharedKey):
    kw = dict(strict=p["strict"], min_length=p["min"], max_length=p["max"])
    mode = p.get("keymode", "int")
    if mode == "shared":
        kw["key"] = shared.set(p["key"])
    elif mode != "none":
        kw["key"] = None if mode == "none_explicit" else key_callable(p)
    call_ = p["call"]
    if call_ == "successors":
        return list(itertools.islice(c.successors(p["start"], reverse=p["reverse"], **kw), p["n"]))
    if call_ == "predecessors":
        return list(itertools.islice(c.predecessors(p["start"], **kw), p["n"]))
    if call_ == "successor":
        return c.successor(p["start"], **kw)
    return c.predecessor(p["start"], **kw)


def run_chain(d: DFA, mode: str, style: str, chain, orc: ChainOracle = None):
    """Build the live object and ONE shared callable, make the calls, judge every answer; stops at the first
    wrong answer.  Returns (observations, failures [(index, message)])."""
    orc = orc or ChainOracle(d)
    obs, bad = [], []
    with L3.mutable_option(mode):
        keep = []
        live = L3.build_live(d, mode, keep)
        shared = L3.SharedKey(style)
        for i, p in enumerate(chain):
            got = L.guarded(lambda: chain_call_raw(live, p, shared), CHAIN_TIMEOUT_S)
            obs.append(got)
            exp = orc.expected(p)
            if got != exp:
                shown = "no answer within %d s" % CHAIN_TIMEOUT_S if got == ("err", "_Timeout") else f"= {str(got)[:160]}"
                bad.append((i, f"{shown}, the sorted filter of the window set gives {str(exp)[:160]}"))
                break
    return obs, bad


def minimise_chain(d: DFA, mode: str, style: str, chain, index: int, orc: ChainOracle):
    """Shortest sub-chain (greedy, one step at a time, within a time budget) that still ends in a wrong answer."""
    import time
    t0 = time.time()
    cur = [dict(p) for p in chain[: index + 1]]
    fails_at_end = lambda ch: any(i == len(ch) - 1 for i, _ in run_chain(d, mode, style, ch, orc)[1])
    if not fails_at_end(cur):
        return cur
    j = len(cur) - 2
    while j >= 0 and len(cur) > 1 and time.time() - t0 < MINIMISE_BUDGET_S:
        cand = cur[:j] + cur[j + 1:]
        if fails_at_end(cand):
            cur = cand
        j -= 1
    return cur


def chain_step_in_domain(d: DFA, p: dict, shape: dict) -> bool:
    if p["call"] == "successor" and p["reverse"]:
        return False
    if p["call"] in ("predecessor", "predecessors") and not p["reverse"]:
        return False
    if p.get("keymode") in ("none", "none_explicit") and not codepoint_order(d.input_symbols, p["key"]):
        return False
    return in_domain(d, p, shape)


@case_guard
def check_chain(ctx: Ctx, d: DFA, mode: str, style: str, chain, origin: str, orc: ChainOracle = None, model: bool = True):
    if hanging(ctx):
        return
    orc = orc or ChainOracle(d)
    shape = orc.shape
    chain = [p for p in chain if chain_step_in_domain(d, p, shape)]
    if not chain:
        return
    obs, bad = run_chain(d, mode, style, chain, orc)
    enc, st, sy = enc_dfa(d)
    some_output = False
    for p, got in zip(chain, obs):
        ctx.case(None)
        ctx.stat(f"chain_call:{p['call']}")
        ctx.stat(f"chain_key:{p.get('keymode', 'int')}")
        if p.get("from_prev"):
            ctx.stat("chain_step:starts_at_previous_answer")
        if got[0] == "ok" and got[1]:
            some_output = True
    ctx.case(("chain", mode, style, enc, json.dumps(chain, sort_keys=True)) if len(d.states) >= 2 and some_output and len(chain) >= 2 else None)
    ctx.stat(f"chain:{origin}:{mode}")
    ctx.stat(f"chain_keystyle:{style}")
    n_rank = len({json.dumps(p["key"], sort_keys=True) for p in chain if p.get("keymode") == "shared"})
    ctx.stat(f"chain_shared_rankings:{min(n_rank, 3)}{'+' if n_rank >= 3 else ''}")
    if ctx.stats.get(f"chain:{origin}:{mode}", 0) % 120 == 1:
        ctx.sample(dict(automaton=repr(d), mode=mode, keystyle=style, chain=[show_chain_step(p) for p in chain[:6]],
                        answers=[str(o)[:60] for o in obs[:6]]))
    if bad:
        i, msg = bad[0]
        small = chain[: i + 1] if obs[i] == ("err", "_Timeout") else minimise_chain(d, mode, style, chain, i, orc)
        hist = "; ".join(show_chain_step(p) for p in small[:-1])
        what = (f"{show_chain_step(chain[i])} {msg} — on ONE object ({mode} containers, shared key written as {style}) "
                + (f"after [{hist}]" if hist else "as its first call"))
        ctx.prop_fail(what, dict(automaton=repr(d), params=dict(chain=small, keystyle=style, mode=mode), what=what), None)
        return
    if not model:
        return
    for p, got in zip(chain, obs):
        q = dict(p, n=p["n"] if p["call"] in ("successors", "predecessors") else 1)
        m = model_succ(ctx, enc, sy, q)
        if m["end"] == "outOfFuel" or m["first"][0] == "fuel":
            ctx.stat("model:outOfFuel")
            continue
        if p["call"] in ("successors", "predecessors"):
            mo = ("ok", []) if p["n"] == 0 else model_as_observation(m, p["n"])
        else:
            mo = m["first"]
        ctx.stat("chain:answer_compared_with_model")
        if mo != got:
            ctx.corr_diff("CHAIN " + p["call"], dict(automaton=repr(d), step=p), got, mo)


def chain_keymode(rng, d: DFA, key: dict) -> str:
    if codepoint_order(d.input_symbols, key) and rng.random() < 0.45:
        return rng.choice(["none", "none", "none_explicit"])
    return rng.choice(["shared"] * 8 + ["int", "tuple", "str"])


def other_ranking(rng, d: DFA, key: dict) -> dict:
    for _ in range(6):
        k2 = L.rand_key(rng, d.input_symbols)
        if sorted(k2, key=k2.get) != sorted(key, key=key.get):
            return k2
    return dict(key)


def set_chain_call(rng, p: dict, orc: ChainOracle, single=None):
    """Choose the wrapper for the direction of p and the number of words asked of a generator."""
    single = rng.random() < 0.5 if single is None else single
    if p["reverse"]:
        p["call"] = "predecessor" if single else rng.choice(["predecessors", "successors"])
    else:
        p["call"] = "successor" if single else "successors"
    full = orc.full(p)
    total = len(full[1]) if full[0] == "ok" else 1
    p["n"] = total + 1 if rng.random() < 0.6 else rng.randint(0, total + 1)
    return p


def rand_chain(rng, d: DFA, orc: ChainOracle):
    shape, hi = orc.shape, orc.hi
    chain = []
    tries = 0
    want = rng.randint(3, 7)
    while len(chain) < want and tries < 40:
        tries += 1
        if chain and rng.random() < 0.8:
            prev = chain[-1]
            p = {k: v for k, v in prev.items() if k not in ("from_prev", "split")}
            p["key"] = dict(prev["key"])
            ans = orc.first_word(prev)
            if ans is not None and rng.random() < 0.8:
                p["start"] = ans
                p["from_prev"] = True
            single = None
            for var in rng.sample(["strict", "strict", "reverse", "window", "rerank", "rerank", "call", "same"], rng.choice([1, 1, 2])):
                if var == "strict":
                    p["strict"] = not p["strict"]
                elif var == "reverse":
                    p["reverse"] = not p["reverse"]
                elif var == "window":
                    ln = len(p["start"] or "")
                    p["min"] = rng.choice([0, 0, min(ln, hi), rng.randint(0, hi)])
                    p["max"] = rng.choice([min(ln, hi), min(ln + 1, hi), hi, rng.randint(0, hi), None])
                elif var == "rerank":
                    p["key"] = other_ranking(rng, d, p["key"])
                    p["keymode"] = "shared" if prev.get("keymode") in ("shared", "none", "none_explicit") else prev["keymode"]
                elif var == "call":
                    single = prev["call"] not in ("successor", "predecessor")
            if not p["reverse"] and not shape["finite"] and p["max"] is None:
                p["max"] = rng.randint(0, hi)
            if p.get("keymode") in ("none", "none_explicit") and not codepoint_order(d.input_symbols, p["key"]):
                p["keymode"] = "shared"
            if single is None:
                single = prev["call"] in ("successor", "predecessor")
            set_chain_call(rng, p, orc, single)
        else:
            p = rand_params(rng, d, orc.bw, shape, hi)
            p["keymode"] = chain_keymode(rng, d, p["key"])
            if not in_domain(d, p, shape):
                continue
            set_chain_call(rng, p, orc)
        if chain_step_in_domain(d, p, shape):
            chain.append(p)
    return chain


def walk_chain(orc: ChainOracle, start, lo, hi, keymode: str, key: dict, reverse: bool = False):
    """The loop `w = d.successor(w)` written out, each step followed by the questions a caller may ask about
    the word just returned: the same word again non-strictly, strictly, in the other direction, with
    another window, through the generator."""
    fin = orc.shape["finite"]
    one, many = ("predecessor", "predecessors") if reverse else ("successor", "successors")
    base = dict(strict=True, key=dict(key), keymode=keymode, reverse=reverse, min=lo, max=hi, n=1)
    chain = []
    w = start
    for _ in range(4):
        p = dict(base, call=one, start=w, from_prev=bool(chain))
        chain.append(p)
        w = orc.first_word(p)
        if w is None:
            break
        chain.append(dict(base, call=one, start=w, strict=False, from_prev=True))
        chain.append(dict(base, call=one, start=w, from_prev=True))
        chain.append(dict(base, call=one, start=w, strict=False, from_prev=True))
        if fin or reverse:
            chain.append(dict(base, call="successor" if reverse else "predecessor", reverse=not reverse, start=w, strict=False,
                              from_prev=True))
        chain.append(dict(base, call=one, start=w, strict=False, min=0, max=len(w) + 1, from_prev=True))
        chain.append(dict(base, call=many, start=w, strict=False, n=3, from_prev=True))
        chain.append(dict(base, call=one, start=w, strict=False, from_prev=True))
    return chain


def rerank_chain(d: DFA, orc: ChainOracle, hi):
    """ONE callable, every ordering of the alphabet in turn (≤3 symbols: all of them), the same calls under each."""
    sy = sorted(d.input_symbols)
    perms = list(itertools.permutations(range(len(sy))))[:6]
    chain = []
    for perm in perms + perms[:1]:
        key = {c: r for c, r in zip(sy, perm)}
        base = dict(strict=True, key=key, keymode="shared", min=0, max=hi, n=12)
        chain.append(dict(base, call="successors", reverse=False, start=None))
        chain.append(dict(base, call="successor", reverse=False, start=sy[-1], n=1))
        chain.append(dict(base, call="successors", reverse=False, start=sy[0] + sy[-1], strict=False, min=1))
        if orc.shape["finite"]:
            chain.append(dict(base, call="predecessors", reverse=True, start=None))
            chain.append(dict(base, call="predecessor", reverse=True, start=sy[0] + sy[0], n=1))
            chain.append(dict(base, call="successors", reverse=True, start=sy[-1], strict=False))
    return chain


def chain_corpus():
    ab, abc = {"a", "b"}, {"a", "b", "c"}
    yield DFA.from_finite_language(ab, {"", "a", "ab", "b", "ba", "bb"}), None
    yield DFA(states={0, 1, 2, 3, 4}, input_symbols=abc,
              transitions={0: {"a": 1, "b": 2, "c": 3}, 1: {"a": 4, "b": 3, "c": 4}, 2: {"a": 3, "b": 4, "c": 3},
                           3: {"a": 4, "b": 4, "c": 4}, 4: {"a": 4, "b": 4, "c": 4}}, initial_state=0, final_states={0, 2, 3}), None
    yield DFA(states={"i", "a", "b", "c"}, input_symbols=abc,
              transitions={"i": {"a": "a", "b": "b", "c": "c"}, "a": {"b": "b", "c": "c"}, "b": {"a": "a", "c": "c"},
                           "c": {"a": "a", "b": "b"}}, initial_state="i", final_states={"a", "b", "c"}, allow_partial=True), 3
    yield DFA.from_substring({"0", "1"}, "11", contains=False), 4
    yield DFA(states={0, 1, 2}, input_symbols=abc, transitions={0: {"a": 1, "c": 0}, 1: {"b": 2}, 2: {"a": 1, "c": 2}},
              initial_state=0, final_states={2}, allow_partial=True), 4


def chain_family(ctx: Ctx):
    rng = ctx.rng
    for d, hi in chain_corpus():
        orc = ChainOracle(d)
        sy = sorted(d.input_symbols)
        cp = {c: i for i, c in enumerate(sy)}
        rv = {c: -i for i, c in enumerate(sy)}
        if hanging(ctx):
            return
        for style in L3.KEY_STYLES:
            for mode in ("frozen", "plain"):
                check_chain(ctx, d, mode, style, rerank_chain(d, orc, hi), "corpus_rerank", orc)
        for mode in ("frozen", "plain"):
            for keymode, key in (("none", cp), ("none_explicit", cp), ("shared", cp), ("shared", rv), ("int", rv)):
                for lo, h in ((0, hi), (1, 2 if hi is None else hi - 1)):
                    for start in ("", sy[0], sy[-1] + sy[0]):
                        check_chain(ctx, d, mode, "closure", walk_chain(orc, start, lo, h, keymode, key), "corpus_walk", orc)
                    if orc.shape["finite"]:
                        check_chain(ctx, d, mode, "dict_get", walk_chain(orc, sy[-1] * 3, lo, h, keymode, key, reverse=True),
                                    "corpus_walk", orc)
    for _ in range(ctx.budget(420, 9000)):
        if hanging(ctx):
            return
        d, kind = L.shaped_dfa(rng, 6)
        if not d.input_symbols:
            continue
        orc = ChainOracle(d)
        if not orc.feasible() or orc.shape["empty"]:
            ctx.stat("chain_skipped:empty_or_too_large")
            continue
        ctx.stat(f"chain_kind:{kind}")
        mode = rng.choice(["frozen", "frozen", "plain", "aliased", "copy_of_plain"])
        check_chain(ctx, d, mode, rng.choice(L3.KEY_STYLES), rand_chain(rng, d, orc), "random", orc)


# ------------------------------------------------------------------ round 4: chains on objects DERIVED from a queried object
# The source object is asked queries first (the memoised ones — isempty / isfinite / minimum / maximum_word_length /
# cardinality / iteration — and successor searches; answers not judged here: C13 / the chain family own them), THEN a
# new DFA is made from it by a library operation (H.DERIVE), and a chain of successor-search calls is made on the
# DERIVED object, every answer judged by the sorted filter of the window set of the derived object's OWN definition
# (a twin built from its states / transitions / initial / final states).  A derived object that inherits its
# parent's memo tables (finiteness, co-accessible states, word caches) answers for the wrong language.
PRE_KINDS = ["empty", "finite", "min", "max", "card", "len", "iter", "count", "words", "succ", "pred", "succs", "preds"]


def run_derived_chain(src_ref: DFA, other_ref, case: dict):
    """Returns dict(skipped=bool, derive_error=..., obs=[...], bad=[(index, message)], dref=twin)."""
    out = dict(skipped=False, derive_error=None, obs=[], bad=[], dref=None)
    keep = []
    src = src_ref.copy()
    other = other_ref.copy() if other_ref is not None else None
    for s_ in case["pre"]:
        H.exec_other(src, s_, keep)
    d = call(lambda: H.derive(case["derive"], src, other))
    if d[0] == "err":
        out["derive_error"] = d[1]
        return out
    D = d[1]
    dref = H.twin_of(D)
    out["dref"] = dref
    if not dref.input_symbols:
        out["skipped"] = True
        return out
    orc = ChainOracle(dref)
    if not orc.feasible():
        out["skipped"] = True
        return out
    shared = L3.SharedKey(case["keystyle"])
    for i, p in enumerate(case["chain"]):
        if not chain_step_in_domain(dref, p, orc.shape):
            out["obs"].append(None)
            continue
        got = L.guarded(lambda: chain_call_raw(D, p, shared), CHAIN_TIMEOUT_S)
        out["obs"].append(got)
        exp = orc.expected(p)
        if got != exp:
            shown = "no answer within %d s" % CHAIN_TIMEOUT_S if got == ("err", "_Timeout") else f"= {str(got)[:160]}"
            out["bad"].append((i, f"{shown}, the sorted filter of the window set of the derived object gives {str(exp)[:160]}"))
            break
    return out


def minimise_derived_chain(src_ref, other_ref, case: dict, index: int):
    import time
    t0 = time.time()
    cur = dict(case, chain=[dict(p) for p in case["chain"][: index + 1]], pre=list(case["pre"]))

    def still(c):
        b = run_derived_chain(src_ref, other_ref, c)["bad"]
        return bool(b) and b[0][0] == len(c["chain"]) - 1
    if not still(cur):
        return cur
    for name in ("chain", "pre"):
        j = len(cur[name]) - (2 if name == "chain" else 1)
        while j >= 0 and time.time() - t0 < MINIMISE_BUDGET_S:
            cand = dict(cur, **{name: cur[name][:j] + cur[name][j + 1:]})
            if still(cand):
                cur = cand
            j -= 1
    return cur


@case_guard
def check_derived_chain(ctx: Ctx, src_ref: DFA, other_ref, case: dict, origin: str):
    if hanging(ctx):
        return
    out = run_derived_chain(src_ref, other_ref, case)
    ctx.stat(f"derived_chain:{origin}")
    ctx.stat("derived_chain_by:" + case["derive"])
    if out["derive_error"]:
        ctx.stat("derived_chain:derivation_raised")
        ctx.corr_diff("DERIVE", dict(automaton=repr(src_ref), other=repr(other_ref), case=case),
                      f"{case['derive']} raised {out['derive_error']}", "a DFA (C04/C05 own the operation)")
        return
    if out["skipped"]:
        ctx.stat("derived_chain:skipped_empty_alphabet_or_too_large")
        return
    some_output = False
    for p, got in zip(case["chain"], out["obs"]):
        if got is None:
            continue
        ctx.case(None)
        ctx.stat(f"derived_chain_call:{p['call']}")
        if got[0] == "ok" and got[1]:
            some_output = True
    ctx.case(("derived_chain", repr(src_ref), repr(other_ref), json.dumps(case, sort_keys=True))
             if len(out["dref"].states) >= 2 and some_output else None)
    if out["bad"]:
        i, msg = out["bad"][0]
        small = minimise_derived_chain(src_ref, other_ref, case, i)
        b = run_derived_chain(src_ref, other_ref, small)["bad"]
        if not b:
            small, b = case, out["bad"]
        i, msg = b[0]
        pre = "; ".join(("d." + H.show_other(x)) for x in small["pre"])
        hist = "; ".join(show_chain_step(p) for p in small["chain"][:i])
        what = (f"{show_chain_step(small['chain'][i])} asked of D {msg} — history: "
                + (f"queried the source d: {pre}; then " if pre else "")
                + f"D = {case['derive']} (d = the source" + (", other = a second DFA)" if other_ref is not None else ")")
                + (f"; earlier calls on D: {hist}" if hist else ""))
        ctx.prop_fail(what, dict(automaton=repr(src_ref),
                                 params=dict(derived=dict(other=(repr(other_ref) if other_ref is not None else None), case=small)),
                                 what=what), None)


def derived_chain_family(ctx: Ctx, n_random: int):
    rng = ctx.rng
    n_bad = 0
    for _ in range(n_random):
        if hanging(ctx) or n_bad >= 3:
            return
        src = gen.rand_dfa(rng, 5, partial=False) if rng.random() < 0.5 else L.shaped_dfa(rng, 5)[0]
        if not src.input_symbols:
            continue
        name = rng.choice(H.DERIVE_NAMES)
        other = gen.rand_dfa(rng, 3, sorted(src.input_symbols)) if H.DERIVE[name][0] else None
        scratch = call(lambda: H.derive(name, src.copy(), other))
        if scratch[0] == "err":
            ctx.stat("derived_chain:not_generated")
            continue
        dref = H.twin_of(scratch[1])
        orc = ChainOracle(dref)
        if not orc.feasible():
            ctx.stat("derived_chain:skipped_empty_alphabet_or_too_large")
            continue
        chain = rand_chain(rng, dref, orc)
        if not chain:
            continue
        pre = [H.rand_other(rng, src, PRE_KINDS) for _ in range(rng.randint(1, 4))]
        if not any(x["q"] in ("empty", "finite", "min", "max", "card", "len", "iter") for x in pre):
            pre.append(dict(q=rng.choice(["finite", "max", "len"])))
        before = len([f for f in ctx.prop_fails if f["key"] is None])
        check_derived_chain(ctx, src, other, dict(pre=pre, derive=name, keystyle=rng.choice(L3.KEY_STYLES), chain=chain), "random")
        n_bad += len([f for f in ctx.prop_fails if f["key"] is None]) - before


# ------------------------------------------------------------------ round 6: DEEP successor searches (size thresholds)
# The property bounds neither the length of the start string nor the length of the words of the language; every
# other generator of this module stays below 9 symbols (the brute-force oracle enumerates Σ^≤hi).  A traversal that
# is only right while its words are short — a recursive walk (recursion limit ≈ depth 990), a stack copied per
# level, a prefix re-joined per step — passes all of them.  Here the start string and / or the answer is
# 1200–3000 symbols deep: languages given by a small spec (harness/dfa_succ_deep.py: finite languages with a
# 1200–3000-symbol word, DFA.of_length with bounds in the thousands over 1 and 2 symbols, hand-written chains with
# side branch / trap state / a short cycle at the end, x*y*), answers known in CLOSED FORM from the construction
# (no model round trip), each of the four methods, strict and non-strict, both directions, both rankings, windows
# in the thousands.  Every template is also instantiated at a scaled-down size (depth 3–5) where its closed-form
# answer is compared with the brute-force sorted filter through the real accepts_input (ChainOracle): the closed
# forms are tested on every run by the oracle the rest of this module uses.
DEEP_TIMEOUT_S = 10


def deep_templates(rng, small: bool):
    """[(spec, [call, …])] — call = dict(call, start_rle, strict, key, keymode, reverse, min, max, n).  The same
    code produces the deep instances (depth 1200–3000) and their scaled-down twins (depth 3–5)."""
    def depth(hi=3000):
        return rng.randint(3, 5) if small else rng.randint(1200, hi)

    groups = []

    def ranking(syms, rev=False):
        sy = sorted(syms)
        if rev:
            return {c: 10 * (len(sy) - i) for i, c in enumerate(sy)}, rng.choice(["int", "int", "tuple", "str"])
        return {c: i for i, c in enumerate(sy)}, rng.choice(["none", "none", "none_explicit", "int"])

    def group(spec):
        calls = []
        groups.append((spec, calls))

        def add(call_, start, strict=True, rev_key=False, min=0, max=None, n=3):
            key, keymode = ranking(spec["syms"], rev_key)
            reverse = call_ in ("predecessor", "predecessors", "successors_reverse")
            calls.append(dict(call="successors" if call_ == "successors_reverse" else call_, start_rle=start, strict=strict,
                              key=key, keymode=keymode, reverse=reverse, min=min, max=max,
                              n=n if call_.startswith(("successors", "predecessors")) else 1))
        return add

    # ---- x*y*: a shallow automaton, deep words (narrow windows: the window set has k+1 words of each length k)
    D = depth(1800)
    add = group(dict(kind="blocks", syms=["a", "b"], trap=rng.random() < 0.5))
    add("successor", [["a", D]], min=D, max=D + 1)
    add("successor", [["a", D], ["b", 1]], min=D - 1, max=D + 1)
    add("successors", [["a", D - 1]], min=D, max=D, n=3)
    add("successor", [["a", D]], strict=False, min=D, max=D)
    add("successors", [["a", D - 1], ["b", 1]], rev_key=True, min=D, max=D, n=2)
    add("successor", [["b", D]], min=D - 1, max=D)
    add("predecessor", [["a", D]])                                    # infinite language: refused
    add("successors_reverse", [["a", 2]], max=D, n=1)                 # … also with a max length
    # ---- finite languages with one deep word
    h = depth() // 2
    lw = [["ab", h]]
    add = group(dict(kind="finite_language", syms=["a", "b"], words=[[], [["a", 1]], lw]))
    add("successor", [["a", 1]])
    add("predecessors", [["b", 1]], n=4)
    add("predecessor", lw + [["a", 1]])
    add("successors", None, n=4)
    add("predecessor", None)
    add("successor", lw, strict=False)
    add("successor", lw)
    add("predecessor", lw)
    add("successors", [], min=2, n=2)
    add("predecessor", [["b", 1]], max=2 * h - 1)
    add("successor", [["b", 1]], rev_key=True)
    add("successors_reverse", lw + [["b", 2]], strict=False, min=1, n=3)
    D = depth()
    add = group(dict(kind="finite_language", syms=["a", "b"],
                     words=[[["a", D]], [["a", D - 1], ["b", 1]], [["a", D - 2], ["b", 1], ["a", 1]], [["b", 1]], [["b", D]]]))
    add("successors", None, n=6)
    add("predecessors", None, n=6)
    add("successor", [["a", D]])
    add("successor", [["a", D - 1], ["b", 1]])
    add("predecessor", [["b", D]], min=D)
    add("predecessors", [["b", D + 1]], strict=False, n=2)
    add("successor", [["a", D - 1]], rev_key=True)
    add("predecessor", [["a", D - 2], ["b", 1]], rev_key=True, strict=False)
    add("successors", [["a", D - 2], ["b", 2]], min=2, max=D, n=3)       # an unreadable deep start string
    # ---- DFA.of_length, bounds in the thousands
    D = depth()
    add = group(dict(kind="of_length", syms=["a"], lo=D, hi=D))
    add("successor", None)
    add("successor", [])
    add("predecessor", None)
    add("successor", [["a", D]])
    add("successor", [["a", D]], strict=False)
    add("predecessors", [["a", D + 5]], n=2)
    add("successors", [], min=D - 1, max=D + 1, n=3)
    D = depth()
    k = rng.randint(1, D - 1)
    add = group(dict(kind="of_length", syms=["a", "b"], lo=D, hi=D))
    add("successors", [["a", D - 1]], n=3)
    add("predecessor", None)
    add("successor", [["b", D]])
    add("predecessors", [["a", D - 1], ["b", 1], ["a", 1]], n=3)
    add("successor", [["a", k], ["b", D - k]])
    add("predecessor", [["b", k], ["a", D - k]])
    add("successor", [["b", 1]], rev_key=True)
    add("predecessor", [["a", D - k], ["b", k]], strict=False)
    add("successors_reverse", [["b", D + 2]], rev_key=True, min=D, n=2)
    D = depth()
    add = group(dict(kind="of_length", syms=["a"], lo=rng.randint(0, 3), hi=None))       # a chain ending in a self-loop
    add("successors", [["a", 2]], min=D, max=D + 2, n=4)
    add("successor", [["a", D]], max=D + 5)
    add("predecessor", [["a", D]])
    add("successor", [["a", D]], max=D)
    add("successor", [["a", D]], strict=False, max=D)
    D = depth()
    add = group(dict(kind="of_length", syms=["a", "b"], lo=0, hi=None))
    add("successor", [["a", D], ["b", 1]], max=D + 1)
    add("successors", None, min=D, max=D, n=2)
    add("successor", [["b", D + 1]], max=D + 1)
    add("successor", [["b", D]], min=D - 1, max=D)
    add("successor", [["a", D - 3], ["b", 3]], max=D)
    add("successors", [["b", D - 1], ["a", 1]], rev_key=True, min=D - 1, max=D, n=3)
    D = depth()
    add = group(dict(kind="of_length", syms=["a", "b"], lo=D - 2, hi=D))
    add("predecessors", None, n=3)
    add("predecessor", [["a", D - 2]])
    add("predecessor", [["a", D - 2], ["b", 1]], min=D - 1)
    add("predecessor", [["b", 1]], max=D - 1)
    add("successor", [["b", D - 2]], rev_key=True, strict=False)
    # ---- hand-written chains
    n = depth()
    kf = rng.randint(1, n - 1)
    j = rng.randint(1, n - 1)
    ln = rng.randint(1, 4)
    pat = "ab"
    spine = lambda m: [[pat, m // 2]] + ([[pat[0], 1]] if m % 2 else [])
    add = group(dict(kind="chain", syms=["a", "b", "c"], n=n, pat=pat, finals=[kf, n], back=None, branch=[j, "c", ln],
                     trap=rng.random() < 0.5))
    add("successor", None)
    add("successors", None, n=4)
    add("predecessor", None)
    add("predecessors", None, n=4)
    add("successor", spine(kf))
    add("predecessor", spine(n))
    add("successor", spine(n - 1) + [["c", 1]])                          # unreadable, n symbols deep
    add("predecessor", spine(n - 1) + [["c", 1]])
    add("successor", spine(j) + [["c", ln - 1]], strict=False)
    add("successors", [], min=n, n=2)
    add("predecessors", spine(n) + [["c", 2]], rev_key=True, n=4)
    add("successor", spine(2), rev_key=True)
    n = rng.randint(3, 4) if small else depth()
    far, m1, m2 = (3, 4, 4) if small else (300, 10, 7)
    pat = "abc"
    spine3 = lambda m: [[pat, m // 3]] + ([[pat[: m % 3], 1]] if m % 3 else [])
    add = group(dict(kind="chain", syms=["a", "b", "c"], n=n, pat=pat, finals=[n], back=n - 2, branch=None, trap=False))
    add("successor", None, max=n + m1)                                    # a chain ending in a cycle of 3 states
    add("successors", spine3(n), max=n + m2, n=4)
    add("successors", None, min=n + 1, max=n + m1 - 1, n=4)
    add("predecessor", spine3(n))
    add("successor", spine3(n + far), strict=False, max=n + far + 2)
    add("successor", spine3(n + far), max=n + far + 2)
    add("successors", spine3(n - 1) + [["c" if (n - 1) % 3 != 2 else "a", 1]], rev_key=True, max=n + 3, n=2)
    n = depth()
    t = n - rng.randint(1, min(3, n - 2))
    kf = rng.randint(1, t - 1)
    add = group(dict(kind="chain", syms=["a", "b"], n=n, pat="ab", finals=[kf], back=t, branch=None, trap=rng.random() < 0.5))
    spine = lambda m: [["ab", m // 2]] + ([["a", 1]] if m % 2 else [])      # a cycle nobody can leave: the language is finite
    add("predecessor", None)
    add("successor", None)
    add("predecessors", spine(n + 50), n=2)
    add("successor", spine(kf))
    add("successor", spine(kf), strict=False, min=kf)
    return groups


def show_deep_call(p: dict) -> str:
    args = [D6.show_rle(p["start_rle"])]
    if not p["strict"]:
        args.append("strict=False")
    mode = p.get("keymode", "int")
    if mode != "none":
        order = "".join(sorted(p["key"], key=lambda c: p["key"][c]))
        args.append("key=None" if mode == "none_explicit" else f"key=<{mode}: {order}>")
    if p["call"] == "successors" and p["reverse"]:
        args.append("reverse=True")
    if p["min"]:
        args.append(f"min_length={p['min']}")
    if p["max"] is not None:
        args.append(f"max_length={p['max']}")
    txt = f"{p['call']}({', '.join(args)})"
    return txt if p["call"] in ("successor", "predecessor") else f"first {p['n']} of {txt}"


def deep_call(d: DFA, p: dict):
    """One real call (the start string written out), under the wall-clock guard."""
    q = dict(p, start=D6.word(p["start_rle"]))
    return L.guarded(lambda: chain_call_raw(d, q, None), DEEP_TIMEOUT_S)


def deep_judge(lang: "D6.DeepSuccLang", p: dict, got):
    """None, or what is wrong with the observation (closed-form expectation)."""
    exp = D6.expected(lang, dict(p, start=D6.word(p["start_rle"])))
    if got == exp:
        return None
    shown = f"no answer within {DEEP_TIMEOUT_S} s" if got == ("err", "_Timeout") else f"= {D6.short(got)}"
    return f"{shown}, the language dictates {D6.short(exp)}"


def run_deep_case(spec: dict, p: dict):
    """Build the automaton afresh from the spec, make the call, judge it.  Returns (message or None, observation)."""
    lang = D6.DeepSuccLang(spec)
    d = lang.build()
    got = deep_call(d, p)
    return deep_judge(lang, p, got), got


def deep_membership_ok(ctx: Ctx, lang, d: DFA, p: dict, exp) -> bool:
    """Tie the closed form to the object that was built: the words it names are accepted by the real accepts_input
    (an iterative read: no depth limit), near misses are judged alike by both."""
    if exp[0] != "ok":
        return True
    ws = exp[1] if isinstance(exp[1], list) else ([exp[1]] if exp[1] is not None else [])
    for w in ws[:3]:
        probes = [w, w + lang.syms[0], w + lang.syms[-1]] + ([w[:-1], w[:-1] + lang.syms[0], w[:-1] + lang.syms[-1]] if w else [])
        for x in probes:
            if lang.member(x) != d.accepts_input(x):
                ctx.stat("deep:closed_form_membership_differs_from_accepts_input")
                ctx.corr_diff("DEEP membership", dict(automaton=lang.expr(), word=D6.short(x)), d.accepts_input(x), lang.member(x))
                return False
    return True


@case_guard
def check_deep_group(ctx: Ctx, spec: dict, calls, small: bool):
    tag = "deep_twin" if small else "deep"
    lang = D6.DeepSuccLang(spec)
    built = call(lang.build)
    if built[0] == "err":
        ctx.stat(f"{tag}:construction_raised:{built[1]}")
        ctx.corr_diff("DEEP build", dict(automaton=lang.expr()), built[1], "a DFA (C15 owns the constructors)")
        return
    d = built[1]
    orc = None
    if small:
        orc = ChainOracle(d)
        if not orc.feasible():          # ChainOracle enumerates up to 5000 words by itself; the twins may need a few more
            if len(d.input_symbols) ** orc.hi > 20000:
                ctx.stat("deep_twin:too_large_for_brute_force")
                return
            orc.bw = L.brute_words(d, orc.hi)
    ctx.stat(f"{tag}:automata")
    ctx.stat(f"{tag}:spec:{spec['kind']}" + (":unary" if len(spec["syms"]) == 1 else ""))
    ctx.stat(f"{tag}:lang:{'finite' if lang.finite() else 'infinite'}")
    if not small:
        ns = len(d.states)
        ctx.stat("deep:states:" + ("<10" if ns < 10 else "1000-1999" if ns < 2000 else "2000-2999" if ns < 3000 else "≥3000"))
    for p in calls:
        if hanging(ctx, 4):
            return
        start = D6.word(p["start_rle"])
        q = dict(p, start=start)
        exp = D6.expected(lang, q)
        if small:
            # the closed form against the brute-force sorted filter through the real accepts_input
            if not chain_step_in_domain(d, q, orc.shape):
                ctx.stat("deep_twin:template_outside_domain")
                continue
            bf = orc.expected(q)
            ctx.stat("deep_twin:closed_form_compared_with_brute_force")
            if bf != exp:
                ctx.stat("deep_twin:closed_form_differs_from_brute_force")
                ctx.corr_diff("DEEP oracle", dict(automaton=lang.expr(), call=show_deep_call(p)), bf, exp)
                continue
        elif not deep_membership_ok(ctx, lang, d, p, exp):
            continue
        got = deep_call(d, p)
        bad = deep_judge(lang, p, got)
        deepest = max([len(start or "")] + [len(w) for w in (exp[1] if isinstance(exp[1], list) else [exp[1]])
                                             if isinstance(w, str)]) if exp[0] == "ok" else len(start or "")
        ctx.case((tag, json.dumps(spec, sort_keys=True), json.dumps(p, sort_keys=True))
                 if exp[0] == "ok" and exp[1] not in (None, []) else None)
        ctx.stat(f"{tag}:call:{p['call']}" + (":reverse" if p["call"] == "successors" and p["reverse"] else ""))
        if not small:
            ctx.stat("deep:judged_by_closed_form(no_model_round_trip)")
            ctx.stat("deep:" + ("strict" if p["strict"] else "non_strict") + (":reverse" if p["reverse"] else ":forward"))
            ctx.stat(f"deep:key:{p['keymode']}")
            ctx.stat("deep:start:" + ("None" if start is None else "empty" if start == "" else
                                      "≥1000_symbols" if len(start) >= 1000 else "short"))
            if start:
                ctx.stat("deep:start:" + ("accepted" if lang.member(start) else "readable_not_accepted" if readable(d, start)
                                          else "unreadable"))
            ctx.stat("deep:deepest_word_involved:" + ("≥2000" if deepest >= 2000 else "1000-1999" if deepest >= 1000 else "<1000"))
            if p["min"] >= 1000:
                ctx.stat("deep:window:min_length≥1000")
            if p["max"] is not None and p["max"] >= 1000:
                ctx.stat("deep:window:max_length≥1000")
            if exp[0] == "err":
                ctx.stat("deep:expect:InfiniteLanguageException")
            elif exp[1] in (None, []):
                ctx.stat("deep:expect:nothing")
            elif isinstance(exp[1], list):
                ctx.stat("deep:expect:" + ("exhausted" if len(exp[1]) < p["n"] else "prefix"))
            else:
                ctx.stat("deep:expect:a_word")
            if ctx.stats.get("deep:judged_by_closed_form(no_model_round_trip)", 0) % 25 == 1:
                ctx.sample(dict(automaton=lang.expr(), call=show_deep_call(p), real=D6.short(got), expected=D6.short(exp)))
        if bad is None:
            continue
        # re-confirm on an object built afresh from the spec (what the replay does)
        again, got2 = run_deep_case(spec, p)
        if again is None:
            ctx.stat(f"{tag}:failure_not_reproduced_on_a_fresh_object")
            ctx.corr_diff("DEEP not reproduced", dict(automaton=lang.expr(), call=show_deep_call(p)), D6.short(got), D6.short(got2))
            continue
        ctx.stat(f"{tag}:property_failures")
        what = f"{show_deep_call(p)} on {lang.expr()} {again}"
        ctx.prop_fail(what, dict(automaton=lang.expr(), params=dict(deep=dict(spec=spec, call=p)), what=what), None)


def deep_family(ctx: Ctx):
    rng = ctx.rng
    try:
        ctx.stat("deep:closed_form_selftest_comparisons", D6.selftest())
    except AssertionError as e:
        raise InfraError(f"deep family: closed form wrong on a small instance: {e}")
    for small in (True, False):
        for spec, calls in deep_templates(rng, small):
            if hanging(ctx, 4):
                return
            check_deep_group(ctx, spec, calls, small)


# ------------------------------------------------------------------ corpus
def corpus():
    a = {"a"}
    ab = {"a", "b"}
    only_eps = DFA(states={0}, input_symbols=a, transitions={0: {}}, initial_state=0, final_states={0}, allow_partial=True)
    only_eps_c = DFA(states={0, 1}, input_symbols=a, transitions={0: {"a": 1}, 1: {"a": 1}}, initial_state=0, final_states={0})
    ident = {"a": 0}
    # F2: predecessors miss "" / UnboundLocalError
    for d in (only_eps, only_eps_c):
        yield d, dict(start="aaaa", strict=False, key=ident, reverse=True, min=0, max=0, n=3)
        yield d, dict(start="", strict=False, key=ident, reverse=True, min=0, max=None, n=3)
        yield d, dict(start="a", strict=True, key=ident, reverse=True, min=0, max=None, n=3)
    fin = DFA.from_finite_language(ab, {"", "a", "ab", "b", "ba", "bb"})
    kab = {"a": 0, "b": 1}
    kba = {"a": 1, "b": 0}
    for key in (kab, kba):
        for start in (None, "", "a", "ab", "b", "bb", "aa", "abb", "bbb"):
            for strict in (True, False):
                for rev in (False, True):
                    yield fin, dict(start=start, strict=strict, key=key, reverse=rev, min=0, max=None, n=8)
                    yield fin, dict(start=start, strict=strict, key=key, reverse=rev, min=1, max=1, n=8)
    # m30 killer: non-strict successors of "" when "" is accepted
    yield fin, dict(start="", strict=False, key=kab, reverse=False, min=0, max=None, n=2)
    uni = DFA.universal_language(ab)
    yield uni, dict(start="", strict=False, key=kab, reverse=False, min=0, max=2, n=9)
    yield uni, dict(start="ab", strict=True, key=kab, reverse=True, min=0, max=3, n=3)   # infinite: refused
    yield uni, dict(start="abab", strict=True, key=kba, reverse=False, min=1, max=3, n=20)
    yield DFA.empty_language(ab), dict(start=None, strict=True, key=kab, reverse=False, min=0, max=None, n=2)
    yield DFA.empty_language(ab), dict(start="a", strict=False, key=kab, reverse=True, min=0, max=None, n=2)


def window_with_a_word(rng, windows, bw_lengths):
    """A window (min, max) that contains the length of some accepted word, if there is one."""
    good = [(mn, mx) for mn, mx in windows if any(mn <= k and (mx is None or k <= mx) for k in bw_lengths)]
    return rng.choice(good) if good else rng.choice(windows)


def finding_probes(ctx: Ctx):
    """F13 / F14 (open findings): produced on every run — a fixed family plus random ones."""
    rng = ctx.rng
    ab = {"a", "b"}
    fin = DFA.from_finite_language(ab, {"", "a", "ab", "b", "ba", "bb"})
    uni = DFA.universal_language(ab)
    kab = {"a": 0, "b": 1}
    fixed = []
    for d in (fin, uni):
        for start in ("ac", "c", "cab", "a#b"):
            for rev in (False, True):
                for mode in ("none", "int"):
                    fixed.append((d, dict(start=start, strict=rev, key=kab, keymode=mode, reverse=rev, min=0,
                                          max=3 if d is uni else None, n=3)))
    for d, p in fixed:
        enc, st, sy = enc_dfa(d)
        check_case(ctx, d, enc, sy, L.language_shape(d), p, "finding_probe")
    for _ in range(ctx.budget(40, 1200)):
        d, kind = L.shaped_dfa(rng, 4)
        enc, st, sy = enc_dfa(d)
        shape = L.language_shape(d)
        hi = hi_for(d, shape)
        if len(d.input_symbols) ** hi > 3000:
            continue
        bw = L.brute_words(d, hi)
        p = rand_params(rng, d, bw, shape, hi)
        w = list(p["start"] or "") + [gen.foreign_symbol(d.input_symbols)] * rng.choice([1, 1, 2])
        rng.shuffle(w)
        p["start"] = "".join(w)
        p["n"] = rng.choice([0, 1, 2, 5])
        check_case(ctx, d, enc, sy, shape, p, "finding_probe")
    for finals in ({0}, set()):
        empty_alpha = DFA(states={0}, input_symbols=set(), transitions={0: {}}, initial_state=0, final_states=finals)
        enc, st, sy = enc_dfa(empty_alpha)
        for start in (None, ""):
            for rev in (False, True):
                for mode in ("none", "int"):
                    check_case(ctx, empty_alpha, enc, sy, L.language_shape(empty_alpha),
                               dict(start=start, strict=False, key={}, keymode=mode, reverse=rev, min=0, max=None, n=2),
                               "finding_probe")


def run(ctx: Ctx):
    rng = ctx.rng
    for i, (d, p) in enumerate(corpus()):
        enc, st, sy = enc_dfa(d)
        p = dict(p)
        if codepoint_order(d.input_symbols, p["key"]) and i % 2 == 0:
            p["keymode"] = "none"
        check_case(ctx, d, enc, sy, L.language_shape(d), p, "corpus")
    deep_family(ctx)
    chain_family(ctx)
    derived_chain_family(ctx, ctx.budget(160, 3500))
    finding_probes(ctx)
    # ---- bounded-exhaustive
    thorough = ctx.thorough()
    windows = [(mn, mx) for mn in (0, 1, 2, 3) for mx in (None, 0, 1, 2, 3)]
    keys = list(all_keys(("a", "b")))
    for n_states in (1, 2):
        for d in gen.all_dfas(n_states, ("a", "b")):
            enc, st, sy = enc_dfa(d)
            shape = L.language_shape(d)
            lengths = [k for k, h in enumerate(L.length_profile(d, 4)) if h]
            for start in starts_upto(("a", "b"), 3):
                for rev in (False, True):
                    refused = rev and not shape["finite"]    # InfiniteLanguageException whatever the rest
                    dull = refused or shape["empty"]         # … or nothing to yield whatever the rest
                    if dull and not thorough and rng.random() < 0.8:
                        continue

                    def draw():
                        key = rng.choice(keys)
                        mn, mx = window_with_a_word(rng, windows, lengths) if rng.random() < 0.7 else rng.choice(windows)
                        return dict(start=start, strict=rng.random() < 0.5, key=key, reverse=rev, min=mn, max=mx, n=0)

                    if thorough and not refused:
                        combos = [dict(start=start, strict=s_, key=k, reverse=rev, min=mn, max=mx, n=0)
                                  for s_ in (True, False) for k in keys for (mn, mx) in windows]
                    else:
                        combos = []
                        for _ in range(1 if dull else 2):
                            cands = [draw() for _ in range(1 if dull else 4)]
                            if not dull and rng.random() < 0.85:
                                # prefer arguments for which there is something to yield
                                good = [c for c in cands if in_domain(d, c, shape) and expected_of(d, c, shape)[1]]
                                combos.append(good[0] if good else cands[0])
                            else:
                                combos.append(cands[0])
                    for p in combos:
                        p["keymode"] = pick_keymode(rng, ("a", "b"), p["key"])
                        if not in_domain(d, p, shape):
                            continue
                        exp = expected_of(d, p, shape)
                        total = len(exp[1]) if exp[0] == "ok" else 1
                        p["n"] = total + 1 if rng.random() < 0.8 else rng.randint(0, total)
                        if p["n"] >= 2 and rng.random() < 0.1:
                            p["split"] = dict(cut=rng.randint(0, p["n"]), between=[rng.choice(BETWEEN)])
                        check_case(ctx, d, enc, sy, shape, p, "exhaustive")
    ctx.exhaustive("all DFAs (complete and partial, all final sets) with ≤2 states over {a,b} × start ∈ {None} ∪ all "
                   "strings of length ≤3 × both directions × "
                   + ("both strictness values × both key orders × windows min ∈ 0..3, max ∈ {None,0..3} (reverse on an "
                      "infinite language, refused whatever the rest: 1 sampled combination)"
                      if thorough else "2 sampled (strictness, key order, window) combinations, preferring those with a "
                                       "non-empty expected output (empty languages and reverse on an infinite language, "
                                       "where the answer does not depend on the rest: 1 combination for a 20 % sample)"))
    # ---- shaped random
    for _ in range(ctx.budget(1100, 14000)):
        d, kind = L.shaped_dfa(rng, 6)
        ctx.stat(f"kind:{kind}")
        check_dfa_random(ctx, d, "random", 6)
    # ---- outside the domain (a non-injective key is not an ordering): counted only
    for _ in range(ctx.budget(25, 600)):
        d, kind = L.shaped_dfa(rng, 4)
        enc, st, sy = enc_dfa(d)
        shape = L.language_shape(d)
        hi = hi_for(d, shape)
        if len(d.input_symbols) < 2 or len(d.input_symbols) ** hi > 3000:
            continue
        bw = L.brute_words(d, hi)
        p = rand_params(rng, d, bw, shape, hi)
        vals = list(p["key"].values())
        p["key"] = {c: rng.choice(vals[:1] + [0]) for c in p["key"]}
        if p["keymode"] in ("none", "none_explicit"):
            p["keymode"] = "int"
        p["n"] = 5
        p.pop("split", None)
        if domain_kind(d, p, shape) == "non_injective_key":
            stat_only(ctx, d, enc, sy, shape, p)


def replay(ctx: Ctx, path: str) -> int:
    data = json.load(open(path))
    rp = data.get("replay", data)
    p = rp["params"]
    if "deep" in p:
        # the automaton is rebuilt from its spec through the library's constructors, the expectation is the closed form
        bad, got = run_deep_case(p["deep"]["spec"], p["deep"]["call"])
        if bad:
            print(f"VIOLATION property=C14 replay={path}")
            print(f"  {show_deep_call(p['deep']['call'])} on {rp['automaton']} {bad}")
            return 1
        print("replay: property holds on this input now")
        return 0
    d = eval(rp["automaton"], {"DFA": DFA, "frozenset": frozenset})
    if "derived" in p:
        dp = p["derived"]
        other = eval(dp["other"], {"DFA": DFA, "frozenset": frozenset}) if dp.get("other") else None
        out = run_derived_chain(d, other, dp["case"])
        if out["bad"] or out["derive_error"]:
            print(f"VIOLATION property=C14 replay={path}")
            if out["bad"]:
                i, msg = out["bad"][0]
                print(f"  {show_chain_step(dp['case']['chain'][i])} asked of D = {dp['case']['derive']} {msg} — call #{i + 1} "
                      f"of the recorded chain on the derived object")
            else:
                print(f"  {dp['case']['derive']} raised {out['derive_error']}")
            return 1
        print("replay: property holds on this input now")
        return 0
    if "chain" in p:
        obs, bad = run_chain(d, p["mode"], p["keystyle"], p["chain"])
        if bad:
            i, msg = bad[0]
            print(f"VIOLATION property=C14 replay={path}")
            print(f"  {show_chain_step(p['chain'][i])} {msg} — call #{i + 1} of the recorded chain on one object")
            return 1
        print("replay: property holds on this input now")
        return 0
    shape = L.language_shape(d)
    kind = domain_kind(d, p, shape)
    if kind in ("foreign_symbol", "empty_alphabet"):
        bad = [m for m, _ in prop_finding(d, p, shape, kind)[0]]
    else:
        bad, obs = prop_succ(d, p, shape)
    if bad:
        print(f"VIOLATION property=C14 replay={path}")
        print("  " + bad[0])
        return 1
    print("replay: property holds on this input now")
    return 0
