"""C14 — successor / predecessor traversal enumerates the language in order, completely.

Correspondence (driver drv_dfa_query, command SUCCS): the words produced by
`successors(start, strict, key, reverse, min_length, max_length)` (first n of them, whether
the generator is exhausted, the exception class) and the single-step wrappers `successor` /
`predecessor`, real code vs. the Lean model of the explicit-stack traversal.

Property oracle (independent of the model): the window set W = accepted words with
min ≤ |w| ≤ max (max given, or the maximal word length of a finite language) enumerated by
brute force through the real accepts_input, filtered by the key-lexicographic comparison with
the start string (`[key(c) for c in w]` compared as Python lists) and sorted — increasing for
successors, decreasing for predecessors; infinite languages must be refused by the
predecessor direction with InfiniteLanguageException.

Domain (DESIGN.md §7 C14): start strings over the (non-empty) alphabet; a max length whenever
the language is infinite (forward direction); injective keys.  Start strings with a foreign
symbol (KeyError, F13), empty alphabets (IndexError, F14) and non-injective keys are run in
a separate stream whose results are only counted.
"""
from __future__ import annotations

import itertools
import json

from automata.fa.dfa import DFA

from harness import gen
from harness import dfa_query_lib as L
from harness.common import guarded as case_guard
from harness.common import Ctx, Toks, call, enc_dfa, toks

LEVEL = "proof"
RULE = ("cases = (valid DFA, start string or None, strict, key order, direction, min_length, max_length, "
        "number of words requested); corpus (F2 triggers, mutant killers), all DFAs with ≤2 states over "
        "{a,b} × {None + all start strings of length ≤3} × both directions × windows/strictness/key orders "
        "(sampled in the quick tier, complete in the thorough tier), then shaped random DFAs (≤6 states) "
        "with random starts (accepted words, prefixes, unreadable, longer than max_length); a case is "
        "non-trivial when the DFA has ≥2 states and the expected output is non-empty; distinct = distinct "
        "(definition, arguments)")
ASSUMPTIONS = [
    "start strings use only symbols of a non-empty alphabet (foreign symbol → KeyError: F13; empty alphabet → IndexError: F14)",
    "forward direction on an infinite language is only used with max_length (otherwise the generator need not produce a next word)",
    "the key is injective on the alphabet (a symbol ordering); no state is literally None",
]
EXPLANATION = ("Theorems C14_* relate the model's stack machine to the sorted filter of the window set; this "
               "run ties the model to the code by differential execution and evaluates the property on the "
               "real code with a brute-force sorted filter.")

FUEL = 30000
TIMEOUT_S = 10


def guarded(f):
    """Real call with a wall-clock guard (a broken traversal may not terminate)."""
    return L.guarded(f, TIMEOUT_S)


def kwargs_of(p: dict) -> dict:
    return dict(strict=p["strict"], key=L.real_key(p["key"]), min_length=p["min"], max_length=p["max"])


def real_successors(d: DFA, p: dict):
    c = d.copy()
    g = lambda: list(itertools.islice(c.successors(p["start"], reverse=p["reverse"], **kwargs_of(p)), p["n"]))
    return guarded(g)


def real_wrappers(d: DFA, p: dict):
    """successor / predecessor (single step) and, for the reverse direction with a str start,
    predecessors()."""
    c = d.copy()
    out = {}
    if p["reverse"]:
        if p["start"] is not None:
            out["first"] = guarded(lambda: c.predecessor(p["start"], **kwargs_of(p)))
            c2 = d.copy()
            out["predecessors"] = guarded(lambda: list(itertools.islice(c2.predecessors(p["start"], **kwargs_of(p)), p["n"])))
    else:
        out["first"] = guarded(lambda: c.successor(p["start"], **kwargs_of(p)))
    return out


def in_domain(d: DFA, p: dict, shape: dict) -> bool:
    if not d.input_symbols:
        return False
    if p["start"] is not None and any(ch not in d.input_symbols for ch in p["start"]):
        return False
    if len(set(p["key"].values())) != len(p["key"]):
        return False
    if not p["reverse"] and not shape["finite"] and p["max"] is None:
        return False
    return True


def expected_of(d: DFA, p: dict, shape: dict):
    """What the property dictates: ("err", InfiniteLanguageException) or ("ok", full word list)."""
    if p["reverse"] and not shape["finite"]:
        return ("err", "InfiniteLanguageException")
    return ("ok", L.succ_oracle(d, p["start"], p["strict"], p["key"], p["reverse"], p["min"], p["max"], shape))


def prop_succ(d: DFA, p: dict, shape: dict):
    """Evaluate the property on the real code.  Returns (failures, observations)."""
    exp = expected_of(d, p, shape)
    got = real_successors(d, p)
    wr = real_wrappers(d, p)
    bad = []
    if exp[0] == "err":
        if p["n"] > 0 and got != exp:
            bad.append(f"successors(reverse=True) on an infinite language gave {str(got)[:160]}, expected {exp}")
        if "first" in wr and wr["first"] != exp:
            bad.append(f"predecessor() on an infinite language gave {wr['first']}, expected {exp}")
        if "predecessors" in wr and p["n"] > 0 and wr["predecessors"] != exp:
            bad.append(f"predecessors() on an infinite language gave {str(wr['predecessors'])[:160]}")
    else:
        full = exp[1]
        want = ("ok", full[: p["n"]])
        name = "predecessors-order" if p["reverse"] else "successors"
        if got != want:
            bad.append(f"{name}: first {p['n']} words = {str(got)[:200]}, sorted filter of the window set gives {str(want)[:200]}")
        if "first" in wr:
            w1 = ("ok", full[0] if full else None)
            if wr["first"] != w1:
                bad.append(f"{'predecessor' if p['reverse'] else 'successor'}() = {wr['first']}, expected {w1}")
        if "predecessors" in wr and wr["predecessors"] != want:
            bad.append(f"predecessors(): first {p['n']} words = {str(wr['predecessors'])[:200]}, expected {str(want)[:200]}")
    return bad, dict(got=got, wrappers=wr, expected=exp)


def model_succ(ctx: Ctx, enc: str, sy, p: dict):
    line = ctx.driver(L.DRV).ask(toks("SUCCS", enc, L.enc_succ_args(sy, p["start"], p["strict"], p["reverse"],
                                                                   p["min"], p["max"], p["key"]), p["n"], FUEL))
    t = Toks(line)
    t.expect("words")
    ws = ["".join(sy.back(c) for c in w) for w in L.rd_words(t)]
    t.expect("end")
    end = t.next()
    exn = t.next() if end == "raised" else None
    t.expect("first")
    fk = t.next()
    if fk == "word":
        first = ("ok", "".join(sy.back(c) for c in t.ints()))
    elif fk == "none":
        first = ("ok", None)
    elif fk == "raised":
        first = ("err", t.next())
    else:
        first = ("fuel", None)
    return dict(words=ws, end=end, exn=exn, first=first)


def model_as_observation(m: dict, n: int):
    """What list(islice(gen, n)) observes of the model's run."""
    if m["end"] == "raised":
        return ("err", m["exn"])
    return ("ok", m["words"])


def readable(d: DFA, w: str) -> bool:
    q = d.initial_state
    for ch in w:
        if ch not in d.transitions[q]:
            return False
        q = d.transitions[q][ch]
    return True


def describe(d: DFA, p: dict) -> dict:
    return dict(automaton=repr(d), params=p)


@case_guard
def check_case(ctx: Ctx, d: DFA, enc: str, sy, shape: dict, p: dict, origin: str):
    if not in_domain(d, p, shape):
        return stat_only(ctx, d, enc, sy, shape, p)
    bad, obs = prop_succ(d, p, shape)
    exp = obs["expected"]
    nontrivial = len(d.states) >= 2 and exp[0] == "ok" and len(exp[1]) >= 1
    ctx.case((enc, json.dumps(p, sort_keys=True)) if nontrivial else None)
    ctx.stat(f"origin:{origin}")
    ctx.stat("dir:reverse" if p["reverse"] else "dir:forward")
    if p["start"] is None:
        ctx.stat("start:None")
    elif p["start"] == "":
        ctx.stat("start:empty")
    else:
        acc = d.accepts_input(p["start"])
        ctx.stat("start:accepted" if acc else ("start:readable_not_accepted" if readable(d, p["start"]) else "start:unreadable"))
        if p["max"] is not None and len(p["start"]) > p["max"]:
            ctx.stat("start:longer_than_max")
    if exp[0] == "err":
        ctx.stat("expect:InfiniteLanguageException")
    else:
        ctx.stat("expect:empty_output" if not exp[1] else ("expect:prefix" if p["n"] <= len(exp[1]) else "expect:exhausted"))
    for b in bad:
        ctx.prop_fail(f"successors{p}: {b}", dict(describe(d, p), what=b), None)
    if ctx.evaluations % 2999 == 1:
        ctx.sample(dict(describe(d, p), real=obs["got"], expected=exp))
    m = model_succ(ctx, enc, sy, p)
    if m["end"] == "outOfFuel":
        ctx.stat("model:outOfFuel")
        return
    if bad:
        return
    got = obs["got"]
    mo = model_as_observation(m, p["n"])
    if p["n"] == 0:
        mo = ("ok", [])  # a generator that is never advanced raises nothing
    if mo != got:
        ctx.corr_diff("SUCCS", describe(d, p), got, m)
        return
    if got[0] == "ok":
        exhausted = len(got[1]) < p["n"]
        if (m["end"] == "finished") != exhausted:
            ctx.corr_diff("SUCCS end", describe(d, p), dict(exhausted=exhausted), m)
    if "first" in obs["wrappers"] and m["first"][0] != "fuel" and m["first"] != obs["wrappers"]["first"]:
        ctx.corr_diff("SUCCS first", describe(d, p), obs["wrappers"]["first"], m["first"])


def stat_only(ctx: Ctx, d: DFA, enc: str, sy, shape: dict, p: dict):
    """Outside the domain: only compare exception classes / outputs of model and code, count."""
    if not p["reverse"] and not shape["finite"] and p["max"] is None:
        ctx.stat("outside:forward_infinite_without_max(skipped)")
        return
    got = real_successors(d, p)
    m = model_succ(ctx, enc, sy, p)
    mo = model_as_observation(m, p["n"])
    kind = ("empty_alphabet" if not d.input_symbols else
            "foreign_symbol" if p["start"] is not None and any(ch not in d.input_symbols for ch in p["start"]) else
            "non_injective_key")
    if mo == got:
        ctx.stat(f"outside:{kind}:model_agrees:{got[1] if got[0] == 'err' else 'ok'}")
    elif got[0] == "ok" and mo[0] == "ok" and mo[1][: len(got[1])] == got[1]:
        ctx.stat(f"outside:{kind}:model_agrees_on_prefix")
    else:
        ctx.stat(f"outside:{kind}:model_differs")
        ctx.note(f"outside-domain difference ({kind}): {describe(d, p)} real={str(got)[:120]} model={str(m)[:160]}")


# ------------------------------------------------------------------ parameters
def starts_upto(alphabet, k):
    return [None] + list(gen.words_upto(sorted(alphabet), k))


def all_keys(alphabet):
    sy = sorted(alphabet)
    for perm in itertools.permutations(range(len(sy))):
        yield {c: p for c, p in zip(sy, perm)}


def rand_start(rng, d: DFA, bw, shape):
    sy = sorted(d.input_symbols)
    r = rng.random()
    words = [w for ws in bw.values() for w in ws]
    if r < 0.12:
        return None
    if r < 0.2:
        return ""
    if r < 0.5 and words:
        w = rng.choice(words)
        r2 = rng.random()
        if r2 < 0.5:
            return w
        if r2 < 0.75:
            return w[: rng.randint(0, len(w))]
        return w + "".join(rng.choice(sy) for _ in range(rng.randint(1, 2)))
    return gen.rand_word(rng, sy, 6)


def rand_params(rng, d: DFA, bw, shape, hi):
    start = rand_start(rng, d, bw, shape)
    reverse = rng.random() < (0.5 if shape["finite"] else 0.12)
    mn = rng.choice([0, 0, 0, 0, 1, 2, 3])
    if not shape["finite"] and not reverse:
        mx = rng.randint(0, hi)
    else:
        mx = rng.choice([None, None, rng.randint(0, hi)])
    p = dict(start=start, strict=rng.random() < 0.5, key=L.rand_key(rng, d.input_symbols), reverse=reverse,
             min=mn, max=mx, n=0)
    return p


def set_n(rng, d, p, shape):
    exp = expected_of(d, p, shape)
    total = len(exp[1]) if exp[0] == "ok" else 1
    r = rng.random()
    p["n"] = total + 1 if r < 0.6 else rng.randint(0, total + 1) if r < 0.9 else 1
    return p


def hi_for(d: DFA, shape) -> int:
    cap = {0: 2, 1: 7, 2: 5, 3: 4}.get(len(d.input_symbols), 3)
    if shape["finite"] and not shape["empty"]:
        return max(shape["max"], 1)
    return cap


def check_dfa_random(ctx: Ctx, d: DFA, origin: str, cases: int):
    rng = ctx.rng
    enc, st, sy = enc_dfa(d)
    shape = L.language_shape(d)
    hi = hi_for(d, shape)
    if len(d.input_symbols) ** hi > 5000:
        ctx.stat("skipped:too_large_for_oracle")
        return
    bw = L.brute_words(d, hi)
    ctx.stat("lang:empty" if shape["empty"] else ("lang:finite" if shape["finite"] else "lang:infinite"))
    for _ in range(cases):
        p = set_n(rng, d, rand_params(rng, d, bw, shape, hi), shape)
        check_case(ctx, d, enc, sy, shape, p, origin)


# ------------------------------------------------------------------ corpus
def corpus():
    a = {"a"}
    ab = {"a", "b"}
    only_eps = DFA(states={0}, input_symbols=a, transitions={0: {}}, initial_state=0, final_states={0}, allow_partial=True)
    only_eps_c = DFA(states={0, 1}, input_symbols=a, transitions={0: {"a": 1}, 1: {"a": 1}}, initial_state=0, final_states={0})
    ident = {"a": 0}
    # F2: predecessors miss "" / UnboundLocalError
    for d in (only_eps, only_eps_c):
        yield d, dict(start="aaaa", strict=False, key=ident, reverse=True, min=0, max=0, n=3)
        yield d, dict(start="", strict=False, key=ident, reverse=True, min=0, max=None, n=3)
        yield d, dict(start="a", strict=True, key=ident, reverse=True, min=0, max=None, n=3)
    fin = DFA.from_finite_language(ab, {"", "a", "ab", "b", "ba", "bb"})
    kab = {"a": 0, "b": 1}
    kba = {"a": 1, "b": 0}
    for key in (kab, kba):
        for start in (None, "", "a", "ab", "b", "bb", "aa", "abb", "bbb"):
            for strict in (True, False):
                for rev in (False, True):
                    yield fin, dict(start=start, strict=strict, key=key, reverse=rev, min=0, max=None, n=8)
                    yield fin, dict(start=start, strict=strict, key=key, reverse=rev, min=1, max=1, n=8)
    # m30 killer: non-strict successors of "" when "" is accepted
    yield fin, dict(start="", strict=False, key=kab, reverse=False, min=0, max=None, n=2)
    uni = DFA.universal_language(ab)
    yield uni, dict(start="", strict=False, key=kab, reverse=False, min=0, max=2, n=9)
    yield uni, dict(start="ab", strict=True, key=kab, reverse=True, min=0, max=3, n=3)   # infinite: refused
    yield uni, dict(start="abab", strict=True, key=kba, reverse=False, min=1, max=3, n=20)
    yield DFA.empty_language(ab), dict(start=None, strict=True, key=kab, reverse=False, min=0, max=None, n=2)
    yield DFA.empty_language(ab), dict(start="a", strict=False, key=kab, reverse=True, min=0, max=None, n=2)


def run(ctx: Ctx):
    rng = ctx.rng
    for d, p in corpus():
        enc, st, sy = enc_dfa(d)
        check_case(ctx, d, enc, sy, L.language_shape(d), dict(p), "corpus")
    # ---- bounded-exhaustive
    thorough = ctx.thorough()
    windows = [(mn, mx) for mn in (0, 1, 2, 3) for mx in (None, 0, 1, 2, 3)]
    keys = list(all_keys(("a", "b")))
    for n_states in (1, 2):
        for d in gen.all_dfas(n_states, ("a", "b")):
            enc, st, sy = enc_dfa(d)
            shape = L.language_shape(d)
            for start in starts_upto(("a", "b"), 3):
                for rev in (False, True):
                    if thorough:
                        combos = [(s, k, w) for s in (True, False) for k in keys for w in windows]
                    else:
                        combos = [(rng.random() < 0.5, rng.choice(keys), rng.choice(windows)) for _ in range(2)]
                    for strict, key, (mn, mx) in combos:
                        p = dict(start=start, strict=strict, key=key, reverse=rev, min=mn, max=mx, n=0)
                        if not in_domain(d, p, shape):
                            continue
                        exp = expected_of(d, p, shape)
                        total = len(exp[1]) if exp[0] == "ok" else 1
                        p["n"] = total + 1 if rng.random() < 0.8 else rng.randint(0, total)
                        check_case(ctx, d, enc, sy, shape, p, "exhaustive")
    ctx.exhaustive("all DFAs (complete and partial, all final sets) with ≤2 states over {a,b} × start ∈ {None} ∪ all "
                   "strings of length ≤3 × both directions × "
                   + ("both strictness values × both key orders × windows min ∈ 0..3, max ∈ {None,0..3}"
                      if thorough else "2 sampled (strictness, key order, window) combinations"))
    # ---- shaped random
    for _ in range(ctx.budget(500, 14000)):
        d, kind = L.shaped_dfa(rng, 6)
        ctx.stat(f"kind:{kind}")
        check_dfa_random(ctx, d, "random", 6)
    # ---- outside the domain: counted only
    for _ in range(ctx.budget(60, 1500)):
        d, kind = L.shaped_dfa(rng, 4)
        if not d.input_symbols:
            continue
        enc, st, sy = enc_dfa(d)
        shape = L.language_shape(d)
        hi = hi_for(d, shape)
        if len(d.input_symbols) ** hi > 3000:
            continue
        bw = L.brute_words(d, hi)
        p = rand_params(rng, d, bw, shape, hi)
        r = rng.random()
        if r < 0.6:
            w = list(p["start"] or "") + [gen.foreign_symbol(d.input_symbols)]
            rng.shuffle(w)
            p["start"] = "".join(w)
        else:
            vals = list(p["key"].values())
            p["key"] = {c: rng.choice(vals[:1] + [0]) for c in p["key"]}
        p["n"] = 5
        stat_only(ctx, d, enc, sy, shape, p)
    empty_alpha = DFA(states={0}, input_symbols=set(), transitions={0: {}}, initial_state=0, final_states={0})
    enc, st, sy = enc_dfa(empty_alpha)
    for start in (None, ""):
        for rev in (False, True):
            stat_only(ctx, empty_alpha, enc, sy, L.language_shape(empty_alpha),
                      dict(start=start, strict=False, key={}, reverse=rev, min=0, max=None, n=2))


def replay(ctx: Ctx, path: str) -> int:
    data = json.load(open(path))
    rp = data.get("replay", data)
    d = eval(rp["automaton"], {"DFA": DFA, "frozenset": frozenset})
    p = rp["params"]
    bad, obs = prop_succ(d, p, L.language_shape(d))
    if bad:
        print(f"VIOLATION property=C14 replay={path}")
        print("  " + bad[0])
        return 1
    print("replay: property holds on this input now")
    return 0
