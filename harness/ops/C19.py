"""C19 — validation is sound, results are valid, global options never change answers.

Correspondence: VALIDATE_<CLASS> / CONSTRUCT — the first exception class raised by the real
constructor (or "ok") vs. the Lean model of validate() for DFA, NFA, GNFA, DPDA, NPDA, DTM,
NTM, MNTM, on valid definitions, on definitions with rows keyed by non-states, and on
single- and double-rule corruptions of valid definitions.

Property on the real code (oracles written here from the documentation, independent of the
model): (1) a definition that is valid by the documentation is accepted; (2) a single-rule
corruption raises the documented class; (3) every accepted definition can be run on strings
and passed to every public operation without an undocumented error; (4) every automaton
returned by an operation — with automatic validation switched off during the call — passes
validate(); (5) the four combinations of should_validate_automata / allow_mutable_automata
give the same results on valid inputs; (6) rows keyed by non-states never change a result.

"Undocumented error" is judged per operation: harness/misc_common.documented_reason looks the
operation up in a table generated from the docstring "Raises" sections of the code under test
(harness/extract_misc.documented_raises / doc_closure); e.g. DFA.union documents nothing, so any
exception it raises on valid operands over one alphabet is a violation.  Results that differ
only in generated state names are compared by an EXACT language comparison (product BFS,
harness/langoracle.py) plus equal state counts.

Round 4:
(7) `restored_family`: the automata the library RESTORES or COPIES — pickle round trip (every protocol),
    copy.copy, copy.deepcopy, copy(), twins of twins — are as usable as the original: the same battery of
    operations, every answer equal to the original's, every public attribute readable and equal.
(8) `lookalike_options_family`: allow_mutable_automata=True with the definition handed over in dict / set
    subclasses (defaultdict, OrderedDict, __missing__, set subclass): accepted, same answers as the default
    configuration, and after every read / operation the object still passes validate() and copy().

Round 6:
(9) `history_family` (generators in harness/gen_history.py): the verdict on a definition is a function of the
    definition — not of what the process constructed or validated before.  Scenarios executed in ONE process:
    a single-rule corruption and its VALID relatives (the valid original; the same rows / labels / symbols over a
    larger alphabet / state set / stack alphabet / tape alphabet / one more tape; for GNFA also the result of
    GNFA.from_dfa / from_nfa over a larger alphabet) in alternation, both orders, repeated constructions, four ways
    (constructor, validate() by hand, mutable option, copy()), two classes interleaved.  Every verdict must be the
    expected one (reference predicate / operator table — never the library's word); a deviation is re-confirmed in
    fresh interpreters and minimised; replay kind `history` re-executes the recorded steps in a new process.
"""
from __future__ import annotations

import json
from typing import Any, Dict, List, Optional

from automata.base.exceptions import AutomatonException

from harness import enc_misc as E
from harness import gen_misc as G
from harness import misc_common as M
from harness.common import Ctx, guarded

LEVEL = "proof"
RULE = ("cases = (class, definition, expectation): valid-by-documentation definitions of the 8 classes "
        "(shaped random, adversarial name pools, with and without rows keyed by non-states), every single-rule "
        "corruption operator at every position of such a definition (bounded-exhaustive over positions), random "
        "pairs of corruptions; then (class, accepted definition, operation, arguments) for every public operation "
        "under the four option combinations; DEGENERATE accepted definitions of all 8 classes (fixed list of shapes in "
        "harness/gen_degenerate.py: single-state machines, transitions={}, states without rows, empty / full final sets, "
        "lambda-only tables, empty target sets, alphabets {a,b} / {a} / {}) through every unary operation and run, and "
        "for DFA / NFA every binary method on ordered pairs (degenerate × degenerate: a seeded sample in quick, all in "
        "thorough; degenerate × shaped-random in both orders), each call under all four option combinations with the "
        "result re-validated. Round 4: RESTORED / COPIED twins of accepted definitions of all 8 classes (pickle round "
        "trip under every protocol, copy.copy, copy.deepcopy, copy(), second-generation twins; made before or after the "
        "original was used; one option combination per case, all four in rotation): the whole battery of unary operations "
        "in a shuffled order plus a sample of binary operations with the twin on either side (against a second automaton "
        "and against its own original) and every public attribute — each answer equal to the original's (same value or "
        "same exception class), results re-validated; and allow_mutable_automata=True × {validation on, off} × the six "
        "container look-alikes of harness/lookalike.py (defaultdict outer+rows / outer only, OrderedDict, __missing__ "
        "inserting / defaulting, set subclass) × every operation, query and run (words over the alphabet, with a foreign "
        "symbol, and words the automaton accepts): answers equal to the default configuration built from plain "
        "containers, and after every call validate() and copy() of the operand still succeed. Round 6: PROCESS-HISTORY scenarios — for each of the 8 classes a "
        "valid definition, a single-rule corruption of it (operator table at a random position, at most two positions per "
        "rule; the shrunk-universe operators: one USED input / stack / tape symbol or state removed from its set, rows "
        "untouched; multi-character GNFA labels whose only defect is a symbol outside the alphabet) and its VALID relatives "
        "(the original; the corrupted rows over the enlarged alphabet / state set / stack alphabet / tape alphabet, with and "
        "without one more fresh symbol and state; an MNTM over one more tape; the GNFA returned by GNFA.from_dfa / from_nfa "
        "of a DFA / NFA over a larger alphabet) executed in alternation in one process — corrupted first or valid first, "
        "identical definitions repeated, constructor / validate() by hand / mutable option / copy(), a third of the scenarios "
        "interleaved with the next one (often of another class): every verdict equals the verdict the definition gets alone "
        "(expected class from the reference predicate / rule table; deviations re-confirmed in fresh interpreters). Non-trivial: the "
        "definition has ≥2 states and ≥1 transition; distinct = distinct (class, encoded definition, expectation/op) tuples")
ASSUMPTIONS = [
    "definitions are type-correct (the container shapes of the class docstrings); names hashable",
    "empty input alphabets are inside the domain (validate() accepts them); the one operation family that fails on them — "
    "DFA.successor(s) / predecessor(s): IndexError — is the open finding C14:empty-alphabet, reported under that key",
    "input / stack / tape symbols are single characters (review finding X3, a documented domain restriction: the library reads "
    "an input *str* character by character, so a multi-character symbol such as 'ab' — which validate() accepts — is only "
    "usable with list inputs, d.accepts_input(['ab']); words_of_length joins symbols into a str that `in` then reads per "
    "character). Generators draw single-character alphabets only",
    "'documented exception' = named in the Raises section of the method docstring (AST walk over the code under test; wrappers "
    "inherit from the methods they call, minus what they catch) or, for RejectionException on the read_input family and "
    "SymbolMismatchError on binary operations over different alphabets, in the exception class docstring; a docstring "
    "without a Raises section means 'raises nothing'",
    "calls are made on objects the harness keeps a reference to, except in the `temporary` family (open finding "
    "C06:cached-query-on-temporary); MNTM.read_input_as_ntm with '^' / '_' among the tape symbols is the open finding "
    "C17:mark-symbol-in-alphabet-or-input",
    "GNFA labels: re._validate is an oracle bit supplied by the real code (the regex validator is the subject of C11)",
    "list-as-set model: the states container has no duplicates (it is a Python set)",
    "non-terminating PDA/TM runs are cut after 40 steps (or 150 simultaneous configurations); read_input/accepts_input are only called when the bounded stepwise run ended",
    "a twin (restored / copied object) must answer as its original: literally, or — automata and regexes — up to generated "
    "state names with exactly the same language; words_of_length / iteration listings as sets (their order is not "
    "documented); random_word: any word of the requested length in the language (the seed-to-word mapping is not documented)",
    "container look-alikes under the mutable option are subclasses of dict / set with the same content (the documented "
    "parameter types are Mapping / AbstractSet); the reference answers are those of the default configuration on plain containers",
    "process-history family: 'valid' = gen_misc.accepted_by_docs plus, for GNFA labels, a conservative recursive-descent "
    "recogniser of label syntax (alternatives of non-empty concatenations of symbols / groups / `()`, at most one `*` or `?` "
    "per atom) with every symbol in the alphabet; a label it recognises that mentions a symbol outside the alphabet is "
    "documented InvalidRegexError; labels it does not recognise form no expectation. 'Fresh interpreter' = a new process of "
    "the same Python with the same PYTHONPATH / PYTHONHASHSEED executing the recorded steps",
    "results of the four option combinations are compared literally; when set iteration order makes library-generated state names differ: same class, alphabet, number of states and EXACTLY the same language (product BFS over the two definitions, harness/langoracle.py)",
]
EXPLANATION = ("Theorems C19_* state validate = ok ↔ well-formed (declarative), that every raised error is the documented "
               "class of a violated rule (so a single-rule corruption raises exactly that class), and that the constructor "
               "model returns the same definition under all four option combinations; this run ties the validate models to "
               "the real constructors and evaluates soundness / results-valid / option-independence on the real code. The "
               "theorems make validate a FUNCTION of the definition; the process-history family checks that the real verdict "
               "is one too (same verdict whatever the process constructed before).")

DRV = "drv_misc"


def model_validate(ctx: Ctx, cls: str, kw) -> str:
    line = ctx.driver(DRV).ask(f"VALIDATE_{cls} " + E.enc_def(cls, kw))
    return "ok" if line == "ok" else line.split()[1]


def impl_validate(cls: str, kw) -> str:
    r = M.construct(cls, kw)
    return "ok" if r[0] == "ok" else r[1]


def nontrivial(kw) -> bool:
    return len(kw["states"]) >= 2 and any(len(r) > 0 for r in kw["transitions"].values())


def case_of(cls, kw, **more):
    return dict(cls=cls, kwargs=repr(kw), **more)


@guarded
def check_validate(ctx: Ctx, cls: str, kw, origin: str, expect: Optional[str], rule: Optional[str] = None,
                   exact_expect: bool = True):
    """expect: "ok" (valid by the documentation), an exception class name (single-rule
    corruption), a list of class names (double corruption: one of them), or None."""
    impl = impl_validate(cls, kw)
    model = model_validate(ctx, cls, kw)
    enc = E.enc_def(cls, kw)
    ctx.case((cls, enc, str(expect)) if nontrivial(kw) else None)
    ctx.stat(f"validate:{origin}")
    ctx.stat(f"validate:{cls}:{impl}")
    if rule:
        ctx.stat(f"rule:{cls}:{rule}")
    if ctx.evaluations % 1499 == 7:
        ctx.sample(dict(cls=cls, definition=repr(kw)[:400], origin=origin, rule=rule, constructor=impl, model=model))
    failed = False
    if expect == "ok" and impl != "ok":
        failed = True
        ctx.prop_fail(f"{cls}: a definition that is valid by the documentation is rejected with {impl}",
                      case_of(cls, kw, kind="validate", expect="ok", origin=origin), None)
    elif isinstance(expect, str) and expect != "ok" and impl != expect:
        failed = True
        ctx.prop_fail(f"{cls}: corruption '{rule}' of a valid definition gives {impl}, documented: {expect}",
                      case_of(cls, kw, kind="validate", expect=expect, rule=rule, origin=origin), None)
    elif isinstance(expect, list) and impl not in expect:
        failed = True
        ctx.prop_fail(f"{cls}: double corruption {rule} gives {impl}, documented: one of {expect}",
                      case_of(cls, kw, kind="validate", expect=expect, rule=rule, origin=origin), None)
    if impl != model and not failed:
        ctx.corr_diff(f"VALIDATE_{cls}", case_of(cls, kw, origin=origin, rule=rule), impl, model)
    return impl


@guarded
def check_construct_options(ctx: Ctx, cls: str, kw, origin: str):
    """Constructor under the four option combinations vs. the model's `construct`."""
    enc = E.enc_def(cls, kw)
    for sv in (True, False):
        for am in (False, True):
            r = M.construct(cls, G._dc(kw), sv, am)
            impl = "ok" if r[0] == "ok" else r[1]
            line = ctx.driver(DRV).ask(f"CONSTRUCT {cls} {int(sv)} {int(am)} " + enc)
            model = "ok" if line == "ok" else line.split()[1]
            ctx.case(None)
            ctx.stat(f"construct:{origin}:sv={int(sv)},am={int(am)}:{'ok' if impl == 'ok' else 'err'}")
            if impl != model:
                ctx.corr_diff(f"CONSTRUCT {cls} sv={sv} am={am}", case_of(cls, kw, origin=origin), impl, model)
            if r[0] == "ok" and sv is False:
                # validate() called by hand must agree with the constructor's automatic check
                try:
                    r[1].validate()
                    v = "ok"
                except Exception as e:  # noqa: BLE001
                    v = type(e).__name__
                d = impl_validate(cls, G._dc(kw))
                if v != d:
                    ctx.prop_fail(f"{cls}: validate() on an object built with validation off gives {v}, the "
                                  f"validating constructor gives {d}",
                                  case_of(cls, kw, kind="validate_by_hand", origin=origin), None)


# ------------------------------------------------------------------ using accepted definitions
def run_op(fn, *args):
    """("ok", value) | ("err", exception) — validation switched off inside the operation so
    that an ill-formed result is not caught by the library itself."""
    try:
        return ("ok", fn(*args))
    except RecursionError:
        raise
    except Exception as e:  # noqa: BLE001
        return ("err", e)


def outcome_key(r):
    if r[0] == "err":
        return ("err", type(r[1]).__name__)
    return ("ok", M.result_summary(r[1]))


KEY_AS_NTM_MARKS = "C17:mark-symbol-in-alphabet-or-input"
KEY_TEMPORARY = "C06:cached-query-on-temporary"
KEY_EMPTY_ALPHABET = "C14:empty-alphabet"


def finding_for(cls: str, kw, opname: str, exc: BaseException, default: Optional[str],
                word: Optional[str] = None) -> Optional[str]:
    """Finding key of an undocumented exception: the two classes that are known (open findings
    owned by C17 resp. C06/C13, see notes/C19.md) are recognised by their exact shape; anything
    else is reported under the caller's key (None = a new violation)."""
    if (opname == "MNTM.read_input_as_ntm" and type(exc).__name__ == "MalformedExtendedTapeError"
            and ({"^", "_"} & set(kw.get("tape_symbols", ())) or {"^", "_"} & set(word or ""))):
        return KEY_AS_NTM_MARKS
    if (cls == "DFA" and not kw.get("input_symbols") and type(exc).__name__ == "IndexError"
            and opname in ("DFA.successor", "DFA.successors", "DFA.predecessor", "DFA.predecessors")):
        return KEY_EMPTY_ALPHABET  # open finding owned by C14: the word-order queries index sorted_symbols[-1]
    return default


def validate_result(ctx, opname, res, replay):
    """(4): an automaton returned by an operation passes validate()."""
    if res[0] == "ok" and M.is_automaton(res[1]):
        try:
            with M.options(True, False):
                res[1].validate()
        except Exception as e:  # noqa: BLE001
            ctx.prop_fail(f"{opname}: the returned automaton does not pass validate(): {type(e).__name__}: {e}",
                          replay, None)
            return False
        ctx.stat("result_validated")
    return True


@guarded
def use_definition(ctx: Ctx, cls: str, kw, rng, origin: str, twin=None, finding: Optional[str] = None):
    """(3), (4), (6) on one accepted definition.  `twin` is the same definition without its
    rows keyed by non-states: every outcome must be the same up to language."""
    r = M.construct(cls, G._dc(kw))
    if r[0] != "ok":
        return
    obj = r[1]
    tobj = None
    if twin is not None:
        t = M.construct(cls, G._dc(twin))
        tobj = t[1] if t[0] == "ok" else None
    alphabet = kw["input_symbols"]
    for name, fn in M.unary_ops(cls):
        a = M.arg_pack(rng, alphabet)
        replay = case_of(cls, kw, kind="use", op=name, args=a, origin=origin)
        with M.options(False, False):
            res = run_op(fn, obj, a)
        ctx.case((cls, name, E.enc_def(cls, kw), repr(sorted(a.items()))) if nontrivial(kw) else None)
        ctx.stat(f"op:{name}:{'ok' if res[0] == 'ok' else type(res[1]).__name__}")
        if res[0] == "err":
            why = M.documented_reason(name, res[1])
            if why is None:
                ctx.prop_fail(f"{name} on an accepted {cls} definition ({origin}) raises "
                              f"{type(res[1]).__name__}: {str(res[1])[:120]} — documented for this operation: "
                              f"{M.documented_classes(name) or 'no exception'}", replay,
                              finding_for(cls, kw, name, res[1], finding, a.get("w")))
                continue
            ctx.stat(f"documented_by:{why}:{name}:{type(res[1]).__name__}")
        validate_result(ctx, name, res, replay)
        if tobj is not None:
            with M.options(False, False):
                tres = run_op(fn, tobj, a)
            compare_twin(ctx, name, res, tres, alphabet, replay)
    # binary operations: second operand over the same alphabet (sometimes the object itself,
    # sometimes one with rows keyed by non-states)
    if M.binary_ops(cls):
        for name, fn in M.binary_ops(cls):
            kw2 = G.rand_def(rng, cls, junk=rng.random() < 0.4, alphabet=sorted(alphabet))
            if rng.random() < 0.1:
                kw2 = kw
            o2 = M.construct(cls, G._dc(kw2))
            if o2[0] != "ok":
                continue
            a = M.arg_pack(rng, alphabet)
            for (x, y, tag, kx, ky) in ((obj, o2[1], "lhs", kw, kw2), (o2[1], obj, "rhs", kw2, kw)):
                replay = dict(cls=cls, kind="use2", op=name, args=a, lhs=repr(kx), rhs=repr(ky), origin=origin)
                with M.options(False, False):
                    res = run_op(fn, x, y, a)
                ctx.case((cls, name, tag, E.enc_def(cls, kx), E.enc_def(cls, ky)) if nontrivial(kw) else None)
                ctx.stat(f"op:{name}:{'ok' if res[0] == 'ok' else type(res[1]).__name__}")
                if res[0] == "err":
                    same = set(kx["input_symbols"]) == set(ky["input_symbols"])
                    why = M.documented_reason(name, res[1], same_alphabet=same)
                    if why is None:
                        ctx.prop_fail(f"{name} on accepted {cls} definitions ({origin}) raises "
                                      f"{type(res[1]).__name__}: {str(res[1])[:120]} — documented for this "
                                      f"operation: {M.documented_classes(name) or 'no exception'}", replay, finding)
                        continue
                    ctx.stat(f"documented_by:{why}:{name}:{type(res[1]).__name__}")
                validate_result(ctx, name, res, replay)
                if tobj is not None:
                    t2 = M.construct(cls, strip_junk(ky if tag == "lhs" else kx))
                    if t2[0] == "ok":
                        with M.options(False, False):
                            tres = run_op(fn, *((tobj, t2[1], a) if tag == "lhs" else (t2[1], tobj, a)))
                        compare_twin(ctx, name, res, tres, alphabet, replay)


def strip_junk(kw):
    k = G._dc(kw)
    k["transitions"] = {q: r for q, r in k["transitions"].items() if q in k["states"]}
    return k


def compare_twin(ctx, name, res, tres, alphabet, replay):
    """(6) rows keyed by non-states are never used: same outcome as without them."""
    ctx.stat("junk_twin_compared")
    if res[0] != tres[0]:
        ctx.prop_fail(f"{name}: outcome differs when rows keyed by non-states are removed "
                      f"({describe(res)} vs {describe(tres)})", replay, None)
        return
    if res[0] == "err":
        if type(res[1]) is not type(tres[1]):
            ctx.prop_fail(f"{name}: {describe(res)} with rows keyed by non-states, {describe(tres)} without",
                          replay, None)
        return
    a, b = res[1], tres[1]
    if M.is_automaton(a) and hasattr(a, "accepts_input") and type(a).__name__ in ("DFA", "NFA"):
        try:
            same = M.same_language(a, b, alphabet)  # exact (product BFS), not a sample of short words
        except Exception as e:  # noqa: BLE001 - the returned automaton cannot even be run
            ctx.prop_fail(f"{name}: running the returned automaton raises {type(e).__name__}: {str(e)[:80]}",
                          replay, None)
            return
        if not same:
            ctx.prop_fail(f"{name}: the result accepts a different language when rows keyed by non-states are present",
                          replay, None)
    elif isinstance(a, str) and name.endswith("to_regex"):
        if a != b and not M.regex_equiv(a, b, alphabet):
            ctx.prop_fail(f"{name}: regex {a!r} with rows keyed by non-states, {b!r} without — not equivalent",
                          replay, None)
    elif not M.is_automaton(a) and not name.endswith(("iter_transitions", "input_parameters", "__repr__")):
        if G.norm(a) != G.norm(b):
            ctx.prop_fail(f"{name}: {a!r} with rows keyed by non-states, {b!r} without", replay, None)


def describe(r):
    if r[0] == "err":
        return f"raises {type(r[1]).__name__}"
    return "ok " + (type(r[1]).__name__)


@guarded
def options_check(ctx: Ctx, cls: str, kw, rng, origin: str, kw2=None):
    """(5): every operation under the four option combinations, on operands built under the
    same combination from the same definition."""
    alphabet = kw["input_symbols"]
    combos = [(True, False), (False, False), (True, True), (False, True)]
    if M.binary_ops(cls) and kw2 is None:
        kw2 = G.rand_def(rng, cls, alphabet=sorted(alphabet))
    plan = [(n, f, 1, M.arg_pack(rng, alphabet)) for n, f in M.unary_ops(cls)] + \
           [(n, f, 2, M.arg_pack(rng, alphabet)) for n, f in M.binary_ops(cls)]
    base = {}
    for (sv, am) in combos:
        o = M.construct(cls, G._dc(kw), sv, am)
        if o[0] != "ok":
            ctx.prop_fail(f"{cls}: a valid definition is rejected under should_validate={sv}, allow_mutable={am}: {o[1]}",
                          case_of(cls, kw, kind="options_construct", sv=sv, am=am), None)
            return
        o2 = M.construct(cls, G._dc(kw2), sv, am) if kw2 is not None else None
        for (name, fn, ar, a) in plan:
            if name.endswith("clear_cache"):
                continue
            with M.options(sv, am):
                res = run_op(fn, o[1], a) if ar == 1 else run_op(fn, o[1], o2[1], a)
            ctx.case(None)
            ctx.stat(f"options:sv={int(sv)},am={int(am)}")
            key = outcome_key(res)
            if (sv, am) == combos[0]:
                base[name] = (key, res)
                continue
            bkey, bres = base[name]
            if key == bkey:
                continue
            # literal difference: allowed only as a renaming of generated state names
            if same_modulo_names(cls, name, res, bres, alphabet):
                ctx.stat("options:equal_up_to_renaming")
                continue
            ctx.prop_fail(f"{name}: result under should_validate={sv}, allow_mutable={am} differs from the default "
                          f"configuration ({describe(res)} vs {describe(bres)})",
                          dict(cls=cls, kind="options", op=name, args=a, kwargs=repr(kw),
                               rhs=repr(kw2) if ar == 2 else None, sv=sv, am=am), None)


def same_modulo_names(cls, name, res, bres, alphabet) -> bool:
    """Two outcomes of one operation (under two option combinations) that are not literally equal: allowed
    only as a renaming of generated state names."""
    if res[0] == "ok" and bres[0] == "ok":
        if M.is_automaton(res[1]) and M.is_automaton(bres[1]):
            return M.same_up_to_renaming(res[1], bres[1])
        if isinstance(res[1], str) and name.endswith("to_regex"):
            return M.regex_equiv(res[1], bres[1], alphabet)
        if name.endswith(("read_input", "read_input_stepwise")) and cls in ("DFA", "NFA"):
            return G.norm(res[1]) == G.norm(bres[1])
    return False


# ------------------------------------------------------------------ degenerate operands
COMBOS = [(True, False), (False, False), (True, True), (False, True)]


@guarded
def binary_under_options(ctx: Ctx, cls: str, name: str, fn, kx, ky, a, origin: str):
    """One binary operation on two accepted definitions under ALL FOUR option combinations (operands built
    under the combination, operation called under it): (3) no undocumented error, (4) the returned automaton
    passes validate() — whatever the validation switch said during the call —, (5) same outcome as in the
    default configuration."""
    alphabet = kx["input_symbols"]
    same_al = set(kx["input_symbols"]) == set(ky["input_symbols"])
    base = None
    ok = True
    for (sv, am) in COMBOS:
        x, y = M.construct(cls, G._dc(kx), sv, am), M.construct(cls, G._dc(ky), sv, am)
        if x[0] != "ok" or y[0] != "ok":
            return
        replay = dict(cls=cls, kind="binary_options", op=name, args=a, lhs=repr(kx), rhs=repr(ky), sv=sv, am=am,
                      origin=origin)
        with M.options(sv, am):
            res = run_op(fn, x[1], y[1], a)
        ctx.stat(f"options:sv={int(sv)},am={int(am)}")
        if res[0] == "err":
            if M.documented_reason(name, res[1], same_alphabet=same_al) is None:
                ok = False
                ctx.prop_fail(f"{name} on accepted {cls} definitions ({origin}) under should_validate={sv}, "
                              f"allow_mutable={am} raises {type(res[1]).__name__}: {str(res[1])[:120]} — documented "
                              f"for this operation: {M.documented_classes(name) or 'no exception'}", replay, None)
                continue
        elif not validate_result(ctx, name + f" ({origin}; should_validate={sv}, allow_mutable={am})", res, replay):
            ok = False
            continue
        if base is None:
            base = res
            continue
        if outcome_key(res) != outcome_key(base) and not same_modulo_names(cls, name, res, base, alphabet):
            ok = False
            ctx.prop_fail(f"{name} ({origin}): result under should_validate={sv}, allow_mutable={am} differs from "
                          f"the default configuration ({describe(res)} vs {describe(base)})", replay, None)
    ctx.case((cls, name, "binary_options", repr(kx), repr(ky)) if ok and len(kx["states"]) + len(ky["states"]) >= 3 else None)
    ctx.stat(f"op:{name}:{'ok' if base is not None and base[0] == 'ok' else 'err'}")


def degenerate_family(ctx: Ctx, rng):
    """Smallest / emptiest accepted definitions (harness/gen_degenerate.py: single-state machines,
    `transitions={}`, states without rows, empty final sets, empty alphabets, lambda-only tables) of all 8
    classes: validate correspondence; every unary operation and run (use_definition), the four option
    combinations (options_check); for DFA / NFA every binary operation on ordered PAIRS of degenerate operands
    and on (degenerate, shaped-random) pairs in both orders, under all four option combinations."""
    from harness import gen_degenerate as DG
    alphabets = [("a", "b"), ("a",), ()]
    for cls in G.CLASSES:
        style = rng.choice(sorted(DG.NAME_STYLES))
        for al in alphabets:
            if cls not in ("DFA", "NFA", "GNFA") and not al and rng.random() < 0.5:
                continue
            accepted = []
            for tag, kw in DG.degenerate_defs(cls, al, style):
                docs = G.accepted_by_docs(cls, kw)
                impl = check_validate(ctx, cls, kw, "degenerate", "ok" if docs else None)
                ctx.stat(f"degenerate:{cls}:{'accepted' if impl == 'ok' else 'refused'}")
                if impl == "ok":
                    accepted.append((tag, kw))
            # unary operations / runs / option combinations: every accepted shape in thorough, a sample in quick
            sample = accepted if ctx.thorough() else rng.sample(accepted, min(len(accepted), ctx.budget(6, 0)))
            for tag, kw in sample:
                use_definition(ctx, cls, kw, rng, f"degenerate:{tag}")
                if rng.random() < 0.5:
                    options_check(ctx, cls, kw, rng, f"degenerate:{tag}")
            if not M.binary_ops(cls):
                continue
            ops = M.binary_ops(cls)
            pairs = [(x, y) for x in accepted for y in accepted]
            rng.shuffle(pairs)
            n_pairs = len(pairs) if ctx.thorough() else min(len(pairs), ctx.budget(160, 0))
            for (tx, kx), (ty, ky) in pairs[:n_pairs]:
                # each pair: the structural operations always (they build tables by hand), one comparison
                for name, fn in ops:
                    if name.split(".")[1].startswith("__") or name.endswith(("issubset", "issuperset", "isdisjoint")):
                        if rng.random() < 0.85:
                            continue
                    binary_under_options(ctx, cls, name, fn, kx, ky, M.arg_pack(rng, al), f"degenerate:{tx} × {ty}")
            if n_pairs == len(pairs):
                ctx.exhaustive(f"all ordered pairs of the {len(accepted)} accepted degenerate {cls} definitions over "
                               f"{set(al) or '{}'} × every binary method × 4 option combinations")
            if al:
                for tag, kw in rng.sample(accepted, min(len(accepted), ctx.budget(10, 60))):
                    k2 = G.rand_def(rng, cls, alphabet=sorted(al))
                    name, fn = rng.choice(ops)
                    a = M.arg_pack(rng, al)
                    binary_under_options(ctx, cls, name, fn, kw, k2, a, f"degenerate:{tag} × random")
                    binary_under_options(ctx, cls, name, fn, k2, kw, a, f"random × degenerate:{tag}")


# ------------------------------------------------------------------ restored / copied twins
ROLES = ("twin,other", "other,twin", "twin,original", "original,twin")


def twin_makers():
    """Every way the library itself hands back "the same automaton again": a pickle round trip (every
    protocol), copy.copy, copy.deepcopy (all three go through __reduce_ex__ / __getstate__ / __setstate__),
    Automaton.copy(), and second-generation twins (a twin of a twin)."""
    import copy
    import pickle

    def pk(p):
        return lambda o: pickle.loads(pickle.dumps(o, protocol=p))
    out = [(f"pickle round trip (protocol {p})", pk(p)) for p in range(pickle.HIGHEST_PROTOCOL + 1)]
    out += [("copy.copy", copy.copy), ("copy.deepcopy", copy.deepcopy), ("copy()", lambda o: o.copy()),
            ("copy.copy of a pickle round trip", lambda o: copy.copy(pk(None)(o))),
            ("pickle round trip of copy()", lambda o: pk(None)(o.copy())),
            ("copy.deepcopy of copy.copy", lambda o: copy.deepcopy(copy.copy(o)))]
    return out


def public_attributes(obj) -> Dict[str, Any]:
    """Public data attributes stored on the instance: the slots of the whole class hierarchy plus the
    __dict__ entries that are not per-instance caches of methods (cached_method keys them by method name)."""
    names = set()
    for k in type(obj).__mro__:
        sl = k.__dict__.get("__slots__", ())
        names.update([sl] if isinstance(sl, str) else sl)
    names.update(k for k in getattr(obj, "__dict__", {}) if not hasattr(type(obj), k))
    out = {}
    for n in sorted(x for x in names if not x.startswith("_")):
        try:
            v = getattr(obj, n)
        except AttributeError:
            continue  # a slot that was never filled
        if not callable(v):
            out[n] = v
    return out


def twin_plan(rng, cls: str, alphabet, with_binary: bool, n_binary: int = 6):
    """[name, arity, argument pack, role] for every unary operation of the class and a sample of the binary
    ones (the twin as left / right operand, against a second automaton and against its own original)."""
    plan = [[name, 1, M.arg_pack(rng, alphabet), None] for name, _ in M.unary_ops(cls)]
    bops = M.binary_ops(cls) if with_binary else []
    for name, _ in rng.sample(bops, min(len(bops), n_binary)):
        plan.append([name, 2, M.arg_pack(rng, alphabet), rng.choice(ROLES)])
    return plan


def _twin_call(fns, entry, subject, original, other):
    name, ar, a, role = entry
    if ar == 1:
        return run_op(fns[name], subject, a)
    x, y = {"twin,other": (subject, other), "other,twin": (other, subject), "twin,original": (subject, original),
            "original,twin": (original, subject)}[role]
    return run_op(fns[name], x, y, a)


def same_answer(cls, name, res, base, alphabet, reference, base_key=None) -> bool:
    """Two outcomes of one call — on a twin and on its original: same exception class, or the same value
    (literally; automata / regexes up to generated names; listings whose order the documentation does not fix
    as sets; random_word: any word of that length in the language)."""
    if outcome_key(res) == (base_key if base_key is not None else outcome_key(base)):
        return True
    if res[0] != base[0] or res[0] == "err":
        return False
    if same_modulo_names(cls, name, res, base, alphabet):
        return True
    r, b = res[1], base[1]
    if name.endswith(("words_of_length", "__iter__")) and isinstance(r, list) and isinstance(b, list):
        if len(r) != len(b) or sorted(map(len, r)) != sorted(map(len, b)) or len(set(r)) != len(r):
            return False
        return sorted(r) == sorted(b) or all(reference.accepts_input(w) for w in r)  # (truncated listings)
    if name.endswith("random_word") and isinstance(r, str) and isinstance(b, str):
        return len(r) == len(b) and reference.accepts_input(r)
    return False


@guarded
def restored_case(ctx: Ctx, cls: str, kw, kw2, sv: bool, am: bool, rng, origin: str, makers=None, plan=None,
                  used_before: Optional[bool] = None):
    """(3)/(4)/(5) on the automata the library RESTORES or COPIES: an accepted definition, built under one
    option combination; twins obtained by pickle (all protocols), copy.copy, copy.deepcopy, copy() and twins of
    twins — some made before the original answered anything, some after (its caches are filled then) — are put
    through the same battery as the original (every unary operation, query, run and conversion in a shuffled
    order, a sample of the binary operations with the twin on either side), and every public attribute of the
    original is read on the twin: each answer must equal the original's (same value or same exception class),
    and every automaton a twin returns passes validate()."""
    alphabet = kw["input_symbols"]
    o = M.construct(cls, G._dc(kw), sv, am)
    if o[0] != "ok":
        return
    obj, other = o[1], None
    if M.binary_ops(cls):
        if kw2 is None:
            kw2 = G.rand_def(rng, cls, alphabet=sorted(alphabet))
        o2 = M.construct(cls, G._dc(kw2), sv, am)
        other = o2[1] if o2[0] == "ok" else None
    replaying = plan is not None
    if plan is None:
        plan = twin_plan(rng, cls, alphabet, other is not None)
    fns = dict(M.unary_ops(cls) + M.binary_ops(cls))
    chosen = [m for m in twin_makers() if makers is None or m[0] in makers]
    if makers is None and not ctx.thorough():
        # quick tier: two of the pickle protocols per case (all of them over the run), every other maker
        pk = [m for m in chosen if m[0].startswith("pickle round trip (protocol")]
        keep = set(h for h, _ in rng.sample(pk, 2))
        chosen = [m for m in chosen if m not in pk or m[0] in keep]
    if used_before is None:
        early = {how for how, _ in chosen if rng.random() < 0.5}
    else:
        early = set() if used_before else {how for how, _ in chosen}
    twins = {}
    with M.options(sv, am):
        for how, mk in chosen:
            if how in early:
                twins[how] = run_op(mk, obj)
        base = [_twin_call(fns, e, obj, obj, other) for e in plan]
        bkeys = [outcome_key(b) for b in base]
        attrs = public_attributes(obj)
        for how, mk in chosen:
            if how not in twins:
                twins[how] = run_op(mk, obj)
    where = f"should_validate={sv}, allow_mutable={am}"
    for how, _ in chosen:
        t = twins[how]
        rp0 = dict(cls=cls, kind="restored", kwargs=repr(kw), rhs=repr(kw2) if other is not None else None, sv=sv,
                   am=am, how=how, used_before=how not in early, origin=origin)
        ctx.case((cls, "restored", how, sv, am, E.enc_def(cls, kw)) if nontrivial(kw) else None)
        ctx.stat(f"restored:{how}")
        ctx.stat(f"restored:{cls}:sv={int(sv)},am={int(am)}")
        if t[0] == "err":
            ctx.prop_fail(f"{how} of an accepted {cls} ({where}) raises {type(t[1]).__name__}: {str(t[1])[:120]}",
                          dict(rp0, trace=[]), None)
            continue
        twin = t[1]
        if type(twin) is not type(obj):
            ctx.prop_fail(f"{how} of an accepted {cls} ({where}) gives a {type(twin).__name__}", dict(rp0, trace=[]), None)
            continue
        bad = False
        for n, v in attrs.items():
            try:
                tv = getattr(twin, n)
            except Exception as e:  # noqa: BLE001
                bad = True
                ctx.prop_fail(f"reading .{n} of the {cls} given by {how} ({where}) raises {type(e).__name__}: "
                              f"{str(e)[:100]} — the original answers {v!r:.80}", dict(rp0, trace=[], attr=n), None)
                break
            if G.norm(tv) != G.norm(v):
                bad = True
                ctx.prop_fail(f".{n} of the {cls} given by {how} ({where}) is {tv!r:.80}, the original's is {v!r:.80}",
                              dict(rp0, trace=[], attr=n), None)
                break
        if bad:
            continue
        order = list(range(len(plan)))
        if not replaying:
            rng.shuffle(order)
        trace = []
        for i in order:
            e = plan[i]
            name = e[0]
            trace.append(e)
            with M.options(sv, am):
                res = _twin_call(fns, e, twin, obj, other)
            ctx.stat("restored:calls")
            rp = dict(rp0, trace=list(trace))
            if not same_answer(cls, name, res, base[i], alphabet, obj, bkeys[i]):
                what = name + (f" [{e[3]}]" if e[3] else "")
                det = (f"raises {type(res[1]).__name__}: {str(res[1])[:100]}" if res[0] == "err"
                       else f"answers {res[1]!r:.80}")
                bdet = (f"raises {type(base[i][1]).__name__}" if base[i][0] == "err" else f"answers {base[i][1]!r:.80}")
                ctx.prop_fail(f"{what} on the {cls} given by {how} ({where}; twin made "
                              f"{'after' if how not in early else 'before'} the original was used) {det} — on the "
                              f"original it {bdet}", rp, None)
                break
            if not validate_result(ctx, f"{name} on the {cls} given by {how} ({where})", res, rp):
                break


def restored_family(ctx: Ctx, rng, count: int):
    """Accepted definitions of all 8 classes (shaped random, rows keyed by non-states, degenerate shapes),
    the four option combinations in rotation."""
    from harness import gen_degenerate as DG
    for i in range(count):
        for j, cls in enumerate(G.CLASSES):
            sv, am = COMBOS[(i + j) % 4]
            kw = G.rand_def(rng, cls, junk=cls in G.JUNK_CLASSES and rng.random() < 0.3)
            restored_case(ctx, cls, kw, None, sv, am, rng, "valid")
    for cls in G.CLASSES:
        al = rng.choice([("a", "b"), ("a",)])
        accepted = [(tag, kw) for tag, kw in DG.degenerate_defs(cls, al, rng.choice(sorted(DG.NAME_STYLES)))
                    if impl_validate(cls, kw) == "ok"]
        for tag, kw in rng.sample(accepted, min(len(accepted), ctx.budget(2, 12))):
            sv, am = rng.choice(COMBOS)
            restored_case(ctx, cls, kw, None, sv, am, rng, f"degenerate:{tag}")


# ------------------------------------------------------------------ mutable option + container look-alikes
def accepted_words(cls: str, obj, alphabet, upto: int = 3, want: int = 2) -> List[str]:
    """Words (shortest first) on which the bounded stepwise run of `obj` ends without an exception — input
    SELECTION only (runs that reach a final state), no verdict is taken from it."""
    out = []
    if cls == "GNFA":
        return out
    for w in M.words_upto(alphabet, upto):
        try:
            _, exn, finished = M.bounded(lambda: obj.read_input_stepwise(w))
        except RecursionError:
            raise
        if finished and exn is None:
            out.append(w)
            if len(out) >= want:
                break
    return out


def lookalike_plan(rng, cls: str, kw, ref, with_binary: bool, n_binary: int = 4):
    """[name, arity, argument pack]: every unary operation, query, run and conversion (words over the
    alphabet; sometimes with a symbol outside it), the runs once more on words the automaton ACCEPTS (the
    reads that end in a final state — a state without a row), a sample of the binary operations."""
    al = sorted(kw["input_symbols"])
    foreign = G.foreign_symbol(kw)
    plan = []
    for name, _ in M.unary_ops(cls):
        a = M.arg_pack(rng, al)
        if rng.random() < 0.2 and a["w"]:
            i = rng.randrange(len(a["w"]))
            a["w"] = a["w"][:i] + foreign + a["w"][i + 1:]
        plan.append([name, 1, a])
    reads = [n for n, _ in M.unary_ops(cls) if "read_input" in n or n.endswith(("accepts_input", "__contains__"))]
    for w in accepted_words(cls, ref, al):
        for name in reads:
            plan.append([name, 1, dict(M.arg_pack(rng, al), w=w)])
    bops = M.binary_ops(cls) if with_binary else []
    for name, _ in rng.sample(bops, min(len(bops), n_binary)):
        plan.append([name, 2, M.arg_pack(rng, al)])
    return plan


@guarded
def lookalike_options_case(ctx: Ctx, cls: str, kw, kw2, flavour: str, sv: bool, rng, origin: str, plan=None):
    """(3)/(5) under allow_mutable_automata=True when the definition is handed over in dict / set
    SUBCLASSES and look-alikes (collections.defaultdict outer+rows / outer only, OrderedDict, dict subclasses
    whose __missing__ inserts / answers a default, a set subclass — harness/lookalike.py): the valid
    definition is accepted; every operation, query and run answers as the DEFAULT configuration built from
    plain containers does (same value or same exception class); and after every call the object is still a
    valid automaton — validate() passes and copy() works (a read that silently adds a row to a defaultdict
    table leaves the answers right and the machine corrupted)."""
    from harness import lookalike as LA
    alphabet = kw["input_symbols"]
    d = M.construct(cls, G._dc(kw), True, False)
    if d[0] != "ok":
        return
    ref, ref2 = d[1], None
    if M.binary_ops(cls):
        if kw2 is None:
            kw2 = G.rand_def(rng, cls, alphabet=sorted(alphabet))
        d2 = M.construct(cls, G._dc(kw2), True, False)
        ref2 = d2[1] if d2[0] == "ok" else None
    rp0 = dict(cls=cls, kind="lookalike_options", kwargs=repr(kw), rhs=repr(kw2) if ref2 is not None else None,
               flavour=flavour, sv=sv, origin=origin)
    where = f"should_validate={sv}, allow_mutable=True, definition handed over as {flavour}"
    ctx.case((cls, "lookalike_options", flavour, sv, E.enc_def(cls, kw)) if nontrivial(kw) else None)
    ctx.stat(f"lookalike_options:{flavour}:{cls}")
    with M.options(sv, True):
        try:
            x = G.get_class(cls)(**LA.flavoured(cls, kw, flavour))
            y = G.get_class(cls)(**LA.flavoured(cls, kw2, flavour)) if ref2 is not None else None
        except RecursionError:
            raise
        except Exception as e:  # noqa: BLE001
            ctx.prop_fail(f"{cls}: a valid definition is rejected ({where}): {type(e).__name__}: {str(e)[:100]}",
                          dict(rp0, trace=[]), None)
            return
    replaying = plan is not None
    if plan is None:
        plan = lookalike_plan(rng, cls, kw, ref, ref2 is not None)
        rng.shuffle(plan)
    fns = dict(M.unary_ops(cls) + M.binary_ops(cls))
    trace = []
    for e in plan:
        name, ar, a = e[0], e[1], e[2]
        if name.endswith("clear_cache"):
            continue
        trace.append(e)
        rp = dict(rp0, trace=list(trace))
        with M.options(True, False):
            base = run_op(fns[name], ref, a) if ar == 1 else run_op(fns[name], ref, ref2, a)
        with M.options(sv, True):
            res = run_op(fns[name], x, a) if ar == 1 else run_op(fns[name], x, y, a)
        ctx.stat("lookalike_options:calls")
        if not same_answer(cls, name, res, base, alphabet, ref):
            det = (f"raises {type(res[1]).__name__}: {str(res[1])[:100]}" if res[0] == "err" else f"answers {res[1]!r:.80}")
            bdet = (f"raises {type(base[1]).__name__}" if base[0] == "err" else f"answers {base[1]!r:.80}")
            ctx.prop_fail(f"{name}({a.get('w')!r}) on an accepted {cls} ({where}) {det} — in the default "
                          f"configuration it {bdet}", rp, None)
            return
        if not validate_result(ctx, f"{name} ({where})", res, rp):
            return
        # the operand(s) are still valid automata that can be copied
        for who, obj in (("operand", x), ("second operand", y if ar == 2 else None)):
            if obj is None:
                continue
            with M.options(True, True):
                v = run_op(lambda o=obj: o.validate())
                c = run_op(lambda o=obj: o.copy())
            for what, r in (("validate()", v), ("copy()", c)):
                if r[0] == "err":
                    ctx.prop_fail(f"after {name}({a.get('w')!r}) (answer as in the default configuration) the {who}, an "
                                  f"accepted {cls} ({where}), is no longer a valid automaton: {what} raises "
                                  f"{type(r[1]).__name__}: {str(r[1])[:100]}", rp, None)
                    return


def lookalike_options_family(ctx: Ctx, rng, count: int):
    from harness import lookalike as LA
    for i in range(count):
        for cls in G.CLASSES:
            kw = G.rand_def(rng, cls)
            if cls == "MNTM" and rng.random() < 0.5:
                kw = G.rand_tm_def(rng, "MNTM", list_results=True)
            kw2 = G.rand_def(rng, cls, alphabet=sorted(kw["input_symbols"])) if M.binary_ops(cls) else None
            for j, flavour in enumerate(LA.FLAVOURS):
                lookalike_options_case(ctx, cls, kw, kw2, flavour, bool((i + j) % 2), rng, "lookalike")


# ------------------------------------------------------------------ process history
HISTORY_CONFIRM_CAP = 2


def _history_warmups(cls: str, kw, k1, rng):
    """[(tag, class of the definition, definition, ways)] — VALID definitions related to the corrupted k1:
    the valid original (same rows except at the corrupted position), k1 over the larger universe that makes
    everything its rows mention legal, the same with one more fresh symbol and state, an MNTM over one more
    tape.  Every one is valid by the reference predicate (H.valid_by_docs), not by the library's word."""
    from harness import gen_history as H
    out = []
    if H.valid_by_docs(cls, kw):
        out.append(("valid-original", cls, kw, H.WAYS_VALID))
    seen = {repr(kw)}
    for tag, extra in (("enlarged-universe", False), ("enlarged-universe+fresh", True)):
        k = H.enlarge(cls, k1, extra)
        if k is not None and repr(k) not in seen and H.valid_by_docs(cls, k):
            seen.add(repr(k))
            out.append((tag, cls, k, H.WAYS_VALID))
    if cls == "MNTM" and H.valid_by_docs(cls, kw) and rng.random() < 0.5:
        out.append(("one-more-tape", cls, H.more_tapes(kw), H.WAYS_VALID))
    return out


def _history_scenario(cls: str, k1, exc: str, rule: str, warmups, rng):
    """Steps: the corrupted definition and its valid relatives in alternation — corrupted before anything
    else or only after a valid relative (both orders are drawn), every relative at least twice (repeated
    construction of the identical definition, a second way: constructor / validate() by hand on an object
    built with validation off / mutable option / copy()), the corrupted one after every relative."""
    from harness import gen_history as H
    steps = []

    def bad():
        steps.append(H.make_step(cls, rng.choice(H.WAYS_ANY), k1, exc, "corrupted", rule))

    if rng.random() < 0.5:
        bad()
    for tag, wcls, wkw, ways in warmups:
        steps.append(H.make_step(wcls, "ctor" if ("ctor" in ways and rng.random() < 0.6) else rng.choice(ways), wkw, "ok", tag))
        if rng.random() < 0.7:
            steps.append(H.make_step(wcls, rng.choice(ways), wkw, "ok", tag))
        bad()
    if rng.random() < 0.3:
        bad()
    return steps


def _interleave(rng, a, b):
    """A random merge of two step lists that keeps the order inside each."""
    out, i, j = [], 0, 0
    while i < len(a) or j < len(b):
        if j >= len(b) or (i < len(a) and rng.random() < 0.5):
            out.append(a[i])
            i += 1
        else:
            out.append(b[j])
            j += 1
    return out


def _history_minimise(before, last, reproduces, budget: int):
    """Delta debugging (ddmin, bounded number of fresh interpreters) of the steps that come BEFORE the deviating
    step: a shorter list after which the deviation still shows in a fresh interpreter."""
    cur, n = list(before), 2
    while len(cur) >= 2 and budget > 0:
        size = -(-len(cur) // n)
        parts = [cur[i:i + size] for i in range(0, len(cur), size)]
        cands = parts + ([[x for j, p in enumerate(parts) if j != i for x in p] for i in range(len(parts))]
                         if len(parts) > 2 else [])
        for cand in cands:
            if budget <= 0:
                break
            budget -= 1
            if cand and len(cand) < len(cur) and reproduces(cand + [last]):
                cur, n = cand, 2
                break
        else:
            if n >= len(cur):
                break
            n = min(len(cur), n * 2)
            continue
    return cur


@guarded
def history_case(ctx: Ctx, steps, origin: str, state: Dict[str, Any]) -> bool:
    """Execute the steps in order in THIS process (real constructors / validate() / copy() / GNFA.from_dfa /
    GNFA.from_nfa); the verdict of every step must be the expected one — `ok` for a definition that is valid by
    the documentation, the documented class for a single-rule corruption — whatever was constructed before it.
    A deviation is re-confirmed in a NEW interpreter that executes exactly the recorded steps (this is what the
    replay does; when the steps of this scenario do not suffice, the steps this family executed earlier in the
    process are added and the list is minimised), and the deviating definition is judged alone in another one."""
    from harness import gen_history as H
    models: Dict[Any, str] = {}
    log = state.setdefault("log", [])
    for i, s in enumerate(steps):
        got = H.run_step(s)
        log.append(s)
        ctx.stat("history:steps")
        ctx.stat(f"history:way:{s['how']}")
        ctx.stat(f"history:role:{s['role']}")
        ctx.stat(f"history:verdict:{s['cls']}:{got}")
        # correspondence: the model's verdict on this definition (a function of the definition alone)
        if s["how"] in ("ctor", "validate", "ctor_mutable", "copy"):
            mk = (s["cls"], s["kwargs"])
            if mk not in models:
                models[mk] = model_validate(ctx, s["cls"], eval(s["kwargs"], _env()))
            if got == s["expect"] and models[mk] != got:
                ctx.corr_diff(f"VALIDATE_{s['cls']}", dict(cls=s["cls"], kwargs=s["kwargs"], origin=origin), got, models[mk])
        if got == s["expect"]:
            continue
        # --- deviation: re-confirm in fresh interpreters
        state["deviations"] = state.get("deviations", 0) + 1
        ctx.stat("history:deviations")

        def reproduces(seq):
            v = H.fresh_verdicts(seq)
            return v is not None and v[-1] != s["expect"]

        alone = H.fresh_verdicts([s])
        alone_v = alone[0] if alone else "?"
        what_def = ("a definition that is valid by the documentation" if s["expect"] == "ok"
                    else f"corruption '{s['rule']}' of a valid definition (documented: {s['expect']})")
        before = None
        if alone_v != s["expect"]:
            before = []  # not a matter of history at all
        elif reproduces(steps[: i + 1]):
            before = _history_minimise(steps[:i], s, reproduces, 4)
        else:
            # the history that matters is older than this scenario: the steps this family executed before
            older = log[:-1]
            related = [x for x in older if x["cls"] == s["cls"] and x["expect"] == "ok"]
            if related and reproduces(related + [s]):
                before = _history_minimise(related, s, reproduces, 8)
            elif reproduces(older + [s]):
                before = _history_minimise(older, s, reproduces, 10)
        if before is not None:
            seq = before + [s]
            v = H.fresh_verdicts(seq)
            bad = v[-1] if v else got
            hist = ", ".join(f"{p['cls']}[{p['role']}; {p['how']}]" for p in before[-6:]) or "nothing"
            rp = dict(cls=s["cls"], kind="history", steps=seq, origin=origin)
            state["reported"] = state.get("reported", 0) + 1
            if before:
                ctx.prop_fail(f"{s['cls']}: the verdict depends on the process history — {what_def} gives {bad} when "
                              f"{len(before)} construction(s) / validation(s) of VALID definitions or of itself came before "
                              f"it in the same process ({hist}), but {alone_v} when it is the first thing a fresh "
                              f"interpreter does (way: {s['how']})", rp, None)
            else:
                ctx.prop_fail(f"{s['cls']}: {what_def} gives {alone_v} (way: {s['how']}; alone in a fresh interpreter)",
                              rp, None)
        else:
            again = H.run_step(s)
            state.setdefault("deferred", []).append(
                (f"{s['cls']}: {what_def} gave {got} in the harness process (again now: {again}); the definition alone in a "
                 f"fresh interpreter gives {alone_v}, and so do the steps this family executed before it — the verdict "
                 "depends on earlier constructions of the harness process",
                 dict(cls=s["cls"], kind="history", steps=steps[: i + 1], origin=origin)))
        return False
    return True


def history_family(ctx: Ctx, rng, count: int):
    """PROCESS HISTORY (round 6).  The property speaks about definitions: the verdict on a definition does not
    depend on what the process constructed or validated before.  For every class: valid definition -> single-rule
    corruption (operator table of gen_misc.corruptions at a random position, the `shrunk universe` operators and
    the multi-character label operators of harness/gen_history.py) -> its valid relatives over a larger alphabet /
    state set / stack alphabet / tape alphabet / tape count -> one scenario that alternates them in one process
    (both orders, repetitions, four ways of constructing / validating); GNFA also through the library's own
    GNFA.from_dfa / GNFA.from_nfa over a larger alphabet; scenarios of two different classes interleaved."""
    from harness import gen_history as H
    state: Dict[str, Any] = {}
    pending = None
    history_corpus(ctx, state)

    def submit(cls, steps, rule, origin, key):
        nonlocal pending
        ctx.stat("history:scenarios")
        ctx.stat(f"history:{cls}:{rule}")
        ctx.case(key)
        # half of the scenarios wait for the next one (of whatever class) and are interleaved with it
        if pending is None and rng.random() < 0.35:
            pending = (steps, origin)
            return
        if pending is not None:
            psteps, porigin = pending
            pending = None
            ctx.stat("history:interleaved_pairs")
            if psteps[0]["cls"] != steps[0]["cls"]:
                ctx.stat("history:interleaved_pairs_of_different_classes")
            steps, origin = _interleave(rng, psteps, steps), f"{porigin} ⋈ {origin}"
        history_case(ctx, steps, origin, state)

    for _ in range(count):
        for cls in G.CLASSES:
            if state.get("deviations", 0) >= HISTORY_CONFIRM_CAP:
                return _history_flush(ctx, state)
            kw = G.rand_def(rng, cls)
            if not H.valid_by_docs(cls, kw):
                ctx.stat("history:base_outside_clear_domain")
                continue
            cors = [(r, e, t()) for (r, e, t) in G.corruptions(cls, kw)]
            cors += list(H.shrink_corruptions(cls, kw))
            if cls == "GNFA":
                cors += list(H.gnfa_label_corruptions(rng, kw))
            # corruptions that have a valid relative over a LARGER universe first, a few of the others
            rich, plain = [], []
            for (rule, exc, k1) in cors:
                ws = _history_warmups(cls, kw, k1, rng)
                (rich if any(t != "valid-original" for t, *_ in ws) else plain).append((rule, exc, k1, ws))
            rng.shuffle(rich)
            rng.shuffle(plain)
            by_rule: Dict[str, int] = {}
            chosen = []
            for c in rich:  # at most two positions per rule, so that every healable rule is drawn
                if by_rule.get(c[0], 0) < 2:
                    by_rule[c[0]] = by_rule.get(c[0], 0) + 1
                    chosen.append(c)
            chosen = chosen[: ctx.budget(8, 40)] + plain[: ctx.budget(2, 10)]
            for (rule, exc, k1, ws) in chosen:
                if not ws:
                    continue
                for t, *_ in ws:
                    ctx.stat(f"history:relative:{t}")
                steps = _history_scenario(cls, k1, exc, rule, ws, rng)
                submit(cls, steps, rule, f"history:{rule}",
                       (cls, "history", rule, repr(k1)) if nontrivial(kw) else None)
        # GNFA through the library's own conversions: DFA / NFA over a larger alphabet -> GNFA.from_dfa /
        # from_nfa -> the returned definition (results-valid clause: it must be accepted again) -> the same
        # definition with one symbol that occurs in a label removed from the alphabet (InvalidRegexError)
        for src in ("DFA", "NFA"):
            if state.get("deviations", 0) >= HISTORY_CONFIRM_CAP:
                return _history_flush(ctx, state)
            al = list(rng.choice([a for a in gen_alphabets() if len(a) >= 2]))
            skw = G.rand_def(rng, src, alphabet=al)
            how = "GNFA.from_dfa" if src == "DFA" else "GNFA.from_nfa"
            r = M.construct(src, G._dc(skw))
            if r[0] != "ok":
                continue
            with M.options(True, False):
                g = run_op(getattr(G.get_class("GNFA"), how.split(".")[1]), r[1])
            if g[0] != "ok":
                continue  # (the conversions themselves are judged by use_definition)
            gk = G.kwargs_of(g[1])
            status = H.gnfa_labels_status(gk)
            ctx.stat(f"history:conversion_labels:{status}")
            if status != "ok" or not G.accepted_by_docs("GNFA", gk):
                continue
            shr = list(H.shrink_corruptions("GNFA", gk))
            multi = [c for c in shr if any(lab and len(lab) > 1 and not H.label_symbols(lab) <= set(c[2]["input_symbols"])
                                           for row in c[2]["transitions"].values() for lab in row.values())]
            ctx.stat("history:conversion_multichar_label" if multi else "history:conversion_single_char_labels_only")
            pool = multi or shr
            if not pool:
                continue
            rule, exc, k1 = rng.choice(pool)
            ws = [(how, src, skw, (how,)), ("conversion-result", "GNFA", gk, H.WAYS_VALID)]
            if rng.random() < 0.5:
                ws.reverse()
            steps = _history_scenario("GNFA", k1, exc, rule, ws, rng)
            submit("GNFA", steps, f"{rule}:after-{how}", f"history:{how}", ("GNFA", "history", how, repr(k1)))
    if pending is not None:
        history_case(ctx, pending[0], pending[1], state)
    _history_flush(ctx, state)


def history_corpus(ctx: Ctx, state):
    """Fixed scenarios (multi-character GNFA labels shared between a GNFA over {a,b,c} — hand-written and as
    returned by GNFA.from_dfa — and its corruption over {a,b}; a DFA / NFA pair sharing rows; a DPDA whose stack
    alphabet shrinks; an MNTM before and after a tape is added)."""
    from harness import gen_history as H
    big = dict(states={"s", "f", 0, 1}, input_symbols={"a", "b", "c"},
               transitions={"s": {0: "", 1: None, "f": None}, 0: {0: "a", 1: "b|c", "f": "(a|c)?"},
                            1: {0: "cc*", 1: "c|b", "f": ""}}, initial_state="s", final_state="f")
    dfa = dict(states={0, 1}, input_symbols={"a", "b", "c"},
               transitions={0: {"a": 0, "b": 1, "c": 1}, 1: {"a": 1, "b": 1, "c": 1}}, initial_state=0,
               final_states={1}, allow_partial=False)
    bad = G._dc(big)
    bad["input_symbols"] = {"a", "b"}
    one = dict(states={"s", "f", 0, 1}, input_symbols={"a", "b"},
               transitions={"s": {0: "", 1: None, "f": None}, 0: {0: "a", 1: "b|c", "f": None},
                            1: {0: None, 1: "b", "f": ""}}, initial_state="s", final_state="f")
    st = H.make_step
    steps = [st("GNFA", "ctor", one, "InvalidRegexError", "corrupted", "malformed_label"),
             st("DFA", "GNFA.from_dfa", dfa, "ok", "GNFA.from_dfa"),
             st("GNFA", "ctor", big, "ok", "valid-original"),
             st("GNFA", "ctor", one, "InvalidRegexError", "corrupted", "malformed_label"),
             st("GNFA", "copy", big, "ok", "valid-original"),
             st("GNFA", "validate", bad, "InvalidRegexError", "corrupted", "shrunk_input_alphabet"),
             st("GNFA", "ctor", big, "ok", "valid-original")]
    ctx.case(("history", "corpus", "gnfa-labels"))
    ctx.stat("history:corpus")
    history_case(ctx, steps, "history:corpus:gnfa-labels", state)
    nfa = dict(states={0, 1}, input_symbols={"a", "b", "c"}, transitions={0: {"a": {0}, "c": {1}}, 1: {"b": {1}}},
               initial_state=0, final_states={1})
    nfa_bad = dict(nfa, input_symbols={"a", "b"})
    dfa_bad = dict(G._dc(dfa), input_symbols={"a", "b"})
    steps = [st("NFA", "ctor", nfa, "ok", "valid-original"), st("DFA", "ctor", dfa, "ok", "valid-original"),
             st("NFA", "ctor", nfa_bad, "InvalidSymbolError", "corrupted", "shrunk_input_alphabet"),
             st("DFA", "validate", dfa_bad, "InvalidSymbolError", "corrupted", "shrunk_input_alphabet"),
             st("NFA", "copy", nfa, "ok", "valid-original"), st("DFA", "ctor_mutable", dfa, "ok", "valid-original"),
             st("DFA", "ctor", dfa_bad, "InvalidSymbolError", "corrupted", "shrunk_input_alphabet")]
    ctx.case(("history", "corpus", "fa-rows"))
    ctx.stat("history:corpus")
    history_case(ctx, steps, "history:corpus:fa-rows", state)


def _history_flush(ctx: Ctx, state):
    """Deviations seen in the harness process that no recorded list of steps reproduces in a fresh interpreter
    are reported only when the family has nothing reproducible to show (their replay cannot fail again)."""
    if state.get("deferred") and not state.get("reported"):
        what, rp = state["deferred"][0]
        ctx.prop_fail(what, rp, None)
    state["deferred"] = []


def gen_alphabets():
    from harness import gen
    return gen.ALPHABETS


# ------------------------------------------------------------------ corpus
def corpus(ctx: Ctx, rng):
    # F11 (fixed 5a3675d): MNTM transition list [] validates; the native run must not crash
    kw = dict(states={"q0", "q1"}, input_symbols={"1"}, tape_symbols={"1", "#"}, n_tapes=1,
              transitions={"q0": {("1",): []}}, initial_state="q0", blank_symbol="#", final_states={"q1"})
    check_validate(ctx, "MNTM", kw, "corpus:F11", "ok")
    for _ in range(3):
        use_definition(ctx, "MNTM", kw, rng, "corpus:F11")
    # F12 (fixed 4329147, 3a0414e at the operation level): rows keyed by non-states
    n1 = dict(states={0, 1}, input_symbols={"a"}, transitions={0: {"a": {1}}, 7: {"a": {0}}},
              initial_state=0, final_states={1})
    n2 = dict(states={0, 1, 2}, input_symbols={"a", "b"},
              transitions={0: {"a": {1}, "": {2}}, 2: {"b": {2}}, 3: {"a": {2}, "": {0}}, "junk": {"b": {1}}},
              initial_state=0, final_states={1})
    d1 = dict(states={0, 1}, input_symbols={"a", "b"},
              transitions={0: {"a": 1, "b": 0}, 1: {"a": 1, "b": 1}, 2: {"a": 0, "b": 1}, -1: {"a": 1, "b": 1}},
              initial_state=0, final_states={1}, allow_partial=False)
    for cls, k in (("NFA", n1), ("NFA", n2), ("DFA", d1)):
        check_validate(ctx, cls, k, "corpus:F12", "ok")
        for _ in range(4):
            use_definition(ctx, cls, k, rng, "corpus:F12", twin=strip_junk(k))
    # DFA row named like the implicit trap state (fixed 8094d14): union read the row as the trap's
    J = dict(states={0}, input_symbols={"a"}, transitions={0: {}, -1: {"a": 0}}, initial_state=0,
             final_states={0}, allow_partial=True)
    E2 = dict(states={0}, input_symbols={"a"}, transitions={0: {"a": 0}}, initial_state=0, final_states=set(),
              allow_partial=False)
    check_validate(ctx, "DFA", J, "corpus:trap-id", "ok")
    xj, xe, xc = M.construct("DFA", J)[1], M.construct("DFA", E2)[1], M.construct("DFA", strip_junk(J))[1]
    for name, fn in M.binary_ops("DFA"):
        a = dict(retain=False, minify=True, k=2, w="aa", seed=0, strict=True)
        for (x, y, tx, ty) in ((xj, xe, xc, xe), (xe, xj, xe, xc)):
            ctx.case(("corpus:trap-id", name, x is xj))
            compare_twin(ctx, name, run_op(fn, x, y, a), run_op(fn, tx, ty, a), {"a"},
                         dict(cls="DFA", kind="use2", op=name, args=a, lhs=repr(J if x is xj else E2),
                              rhs=repr(E2 if x is xj else J), origin="corpus:trap-id"))
    # GNFA shape (fixed 084dfed): must now be rejected with these classes
    g_a = dict(states={0}, input_symbols={"a"}, transitions={0: {}}, initial_state=0, final_state=0)
    g_b = dict(states={0, 1, 2}, input_symbols={"a"}, transitions={0: {1: "a", 2: None}}, initial_state=0, final_state=2)
    g_c = dict(states={0, 1, 2}, input_symbols={"a"},
               transitions={0: {1: "a", 2: None}, 1: {1: "a", 2: "", 0: "a"}}, initial_state=0, final_state=2)
    for k, exp, rule in ((g_a, "InvalidStateError", "initial_equals_final"),
                         (g_b, "MissingStateError", "missing_transition_row"),
                         (g_c, "InvalidStateError", "transition_into_initial_state")):
        impl = check_validate(ctx, "GNFA", k, "corpus:gnfa-shape", exp, rule)
        if impl == "ok":  # pre-fix tree: accepted — then it has to be usable
            use_definition(ctx, "GNFA", k, rng, "corpus:gnfa-shape")
    # reserved names (fixed b159ae7, 07f4843, cb4efab): the three definitions whose behaviour
    # motivated the fixes must now be REJECTED with the documented class
    x1 = dict(states={0, None}, input_symbols={"a", "b"}, transitions={0: {"a": 0}, None: {}}, initial_state=0,
              final_states={None}, allow_partial=True)  # accepted 'b' (missing transition) and 'x'
    x1b = dict(states={None, 1}, input_symbols={"a"}, transitions={None: {"a": 1}, 1: {"a": None}}, initial_state=1,
               final_states={1}, allow_partial=False)  # rejected 'aa' while d|d and d.minify() accepted it
    ed = dict(states={0, 1}, input_symbols={"", "a"}, transitions={0: {"a": {1}}, 1: {"": {0}}}, initial_state=0,
              final_states={1})  # an NFA over the alphabet NFA.edit_distance({"", "a"}, …) was built on
    pda = dict(states={0, 1}, input_symbols={"a"}, stack_symbols={"Z", ""},
               transitions={0: {"": {"Z": (0, ""), "": (1, "Z")}}}, initial_state=0, initial_stack_symbol="Z",
               final_states={1}, acceptance_mode="final_state")  # the empty stack made a move: '' accepted
    npda = dict(pda, transitions={0: {"": {"Z": {(0, "")}, "": {(1, "Z")}}}})
    # F33 (fixed f47420f): a ROW keyed by None passed validate(); isfinite / len / successor / the NFA's
    # lambda closures then raised networkx's ValueError "None cannot be a node"
    f33 = dict(states={0, 1}, input_symbols={"a"}, transitions={0: {"a": 1}, 1: {"a": 1}, None: {"a": 0}},
               initial_state=0, final_states={1}, allow_partial=False)
    f33n = dict(states={0, 1}, input_symbols={"a"}, transitions={0: {"a": {1}}, None: {"": {0}, "a": {1}}},
                initial_state=0, final_states={1})
    for cls, k, exp, rule in (("DFA", x1, "InvalidStateError", "reserved_state_name_none"),
                              ("DFA", x1b, "InvalidStateError", "reserved_state_name_none"),
                              ("DFA", f33, "InvalidStateError", "reserved_state_name_none"),
                              ("NFA", f33n, "InvalidStateError", "reserved_state_name_none"),
                              ("NFA", ed, "InvalidSymbolError", "reserved_input_symbol_empty"),
                              ("DPDA", pda, "InvalidSymbolError", "reserved_stack_symbol_empty"),
                              ("NPDA", npda, "InvalidSymbolError", "reserved_stack_symbol_empty")):
        impl = check_validate(ctx, cls, k, "corpus:reserved-names", exp, rule)
        check_construct_options(ctx, cls, k, "corpus:reserved-names")
        if impl == "ok":  # pre-fix tree: accepted — then it has to be usable
            for _ in range(3):
                use_definition(ctx, cls, k, rng, "corpus:reserved-names")
    # … and the library's own constructor that was called with such an alphabet
    ctx.case(("corpus:reserved-names", "NFA.edit_distance"))
    from automata.fa.nfa import NFA
    res = run_op(lambda: NFA.edit_distance({"", "a"}, "a", 1))
    got = "ok" if res[0] == "ok" else type(res[1]).__name__
    ctx.stat(f"corpus:edit_distance_empty_symbol:{got}")
    if got != "InvalidSymbolError":
        ctx.prop_fail(f"NFA.edit_distance over the alphabet {{'', 'a'}} gives {got}, documented: InvalidSymbolError "
                      "(the empty string is not an input symbol)",
                      dict(cls="NFA", kind="edit_distance_empty_symbol"), None)
    # open finding (C17's domain restriction, C19's soundness clause): read_input_as_ntm hard-codes the
    # head mark '^' and the separator '_'; an accepted MNTM whose tape alphabet contains one of them
    # makes it raise MalformedExtendedTapeError (reported under KEY_AS_NTM_MARKS on every run)
    marks = dict(states={"q"}, input_symbols={"a", "b"}, tape_symbols={"a", "b", "x", "y", "_"}, n_tapes=3,
                 transitions={"q": {}}, initial_state="q", blank_symbol="_", final_states=set())
    check_validate(ctx, "MNTM", marks, "corpus:as-ntm-marks", "ok")
    for _ in range(2):
        use_definition(ctx, "MNTM", marks, rng, "corpus:as-ntm-marks")
    # the documentation's own examples are accepted
    g_ok = dict(states={0, 1, 2}, input_symbols={"a"}, transitions={0: {1: "a", 2: None}, 1: {1: "a", 2: ""}},
                initial_state=0, final_state=2)
    check_validate(ctx, "GNFA", g_ok, "corpus:doc", "ok")
    use_definition(ctx, "GNFA", g_ok, rng, "corpus:doc")


# ------------------------------------------------------------------ calls on temporaries
CACHED_QUERIES = ("isempty", "isfinite", "cardinality", "minimum_word_length", "maximum_word_length")


@guarded
def temporaries_probe(ctx: Ctx, rng):
    """Review finding X2 (open, owned by C06 / C13): a `@cached_method` query called directly on
    an object nothing else refers to — `DFA(...).isempty()`, `(~d).isfinite()`, `(a | b).cardinality()`
    — raises `RuntimeError: Bound object has been garbage collected` under cached_method 0.1.0 /
    CPython 3.12 (the bound-method wrapper keeps only a weak reference).  The rest of this check
    keeps strong references; this family makes the call exactly in the failing shape and reports
    the RuntimeError under KEY_TEMPORARY, any other undocumented exception as a new violation."""
    from automata.fa.dfa import DFA
    kw = G.rand_def(rng, "DFA")
    kw2 = G.rand_def(rng, "DFA", alphabet=sorted(kw["input_symbols"]))
    d, d2 = DFA(**G._dc(kw)), DFA(**G._dc(kw2))
    shapes = [("DFA(...)", lambda: DFA(**G._dc(kw))), ("~d", lambda: ~d), ("d | e", lambda: d | d2),
              ("d.copy()", lambda: d.copy()), ("d.minify()", lambda: d.minify())]
    for q in CACHED_QUERIES:
        for tag, mk in shapes:
            ctx.case(("temporary", tag, q, E.enc_def("DFA", kw)) if nontrivial(kw) else None)
            try:
                getattr(mk(), q)()  # no name is ever bound to the operand
                out = "ok"
            except RecursionError:
                raise
            except Exception as e:  # noqa: BLE001
                out = type(e).__name__
                replay = dict(cls="DFA", kind="temporary", kwargs=repr(kw), rhs=repr(kw2), shape=tag, query=q)
                if isinstance(e, RuntimeError) and "garbage collected" in str(e):
                    ctx.prop_fail(f"{tag}.{q}() — a cached query called on a temporary DFA — raises RuntimeError: "
                                  f"{str(e)[:90]}", replay, KEY_TEMPORARY)
                elif not M.is_documented(f"DFA.{q}", e):
                    ctx.prop_fail(f"{tag}.{q}() on a temporary DFA raises {type(e).__name__}: {str(e)[:100]}",
                                  replay, None)
            ctx.stat(f"temporary:{tag}.{q}:{out}")


# ------------------------------------------------------------------ run
def run(ctx: Ctx):
    rng = ctx.rng
    # the table (3)/(4) are judged against, as derived from the code under test in this run
    table = {}
    for cls in G.CLASSES:
        for name, _ in M.unary_ops(cls) + M.binary_ops(cls):
            table[name] = M.documented_classes(name)
    ctx.sample({"documented exception classes per operation (docstring Raises sections; unlisted operations: none)":
                {k: v for k, v in sorted(table.items()) if v}})
    ctx.stat("documented_table:operations", len(table))
    ctx.stat("documented_table:operations_that_may_raise", sum(1 for v in table.values() if v))
    corpus(ctx, rng)
    degenerate_family(ctx, rng)
    for _ in range(ctx.budget(6, 60)):
        temporaries_probe(ctx, rng)
    restored_family(ctx, rng, ctx.budget(12, 120))
    lookalike_options_family(ctx, rng, ctx.budget(8, 100))

    # 1. bounded-exhaustive over (operator, position) on a few definitions per class
    n_seed_defs = ctx.budget(8, 40)
    for cls in G.CLASSES:
        for i in range(n_seed_defs):
            kw = G.rand_def(rng, cls)
            check_validate(ctx, cls, kw, "valid", "ok")
            cors = list(G.corruptions(cls, kw))
            for rule, exc, thunk in cors:
                check_validate(ctx, cls, thunk(), "single_corruption", exc, rule)
            # all pairs for the first definitions (double-rule corruptions, model decides the order)
            if i < ctx.budget(2, 6):
                pairs = [(x, y) for x in range(len(cors)) for y in range(len(cors)) if x != y]
                rng.shuffle(pairs)
                for x, y in pairs[: ctx.budget(150, 1500)]:
                    k2 = double(kw, cls, cors[x], cors[y])
                    if k2 is not None:
                        check_validate(ctx, cls, k2, "double_corruption", None,
                                       rule=f"{cors[x][0]}+{cors[y][0]}")
    ctx.exhaustive("every single-rule corruption operator at every position (state / row / entry) of the sampled valid "
                   "definitions of each of the 8 classes")

    # 2. shaped random: valid (with / without rows keyed by non-states), corrupted, options
    for _ in range(ctx.budget(140, 3000)):
        for cls in G.CLASSES:
            junk = cls in G.JUNK_CLASSES and rng.random() < 0.5
            kw = G.rand_def(rng, cls, junk=junk)
            check_validate(ctx, cls, kw, "valid_junk_rows" if junk else "valid", "ok")
            if not G.accepted_by_docs(cls, strip_junk(kw)):
                ctx.note(f"generator produced a definition the reference predicate rejects: {cls} {kw!r}"[:300])
            cors = list(G.corruptions(cls, kw))
            if cors:
                rule, exc, thunk = rng.choice(cors)
                k1 = thunk()
                check_validate(ctx, cls, k1, "single_corruption", exc, rule)
                if rng.random() < 0.3:
                    check_construct_options(ctx, cls, k1, "corrupted")
                r2 = rng.choice(cors)
                if r2[0] != rule:
                    k2 = double(kw, cls, (rule, exc, thunk), r2)
                    if k2 is not None:
                        check_validate(ctx, cls, k2, "double_corruption", None, rule=f"{rule}+{r2[0]}")
            if rng.random() < 0.25:
                check_construct_options(ctx, cls, kw, "valid")
    # 3. accepted definitions are usable, results valid, junk rows irrelevant
    for _ in range(ctx.budget(45, 1200)):
        for cls in G.CLASSES:
            junk = cls in G.JUNK_CLASSES and rng.random() < 0.6
            kw = G.rand_def(rng, cls, junk=junk)
            use_definition(ctx, cls, kw, rng, "valid_junk_rows" if junk else "valid",
                           twin=strip_junk(kw) if junk else None)
            for tag, k in G.odd_accepted_shapes(cls, kw):
                if impl_validate(cls, k) == "ok":
                    ctx.stat(f"odd_accepted:{tag}")
                    check_validate(ctx, cls, k, "odd_accepted", None)
                    use_definition(ctx, cls, k, rng, f"odd_accepted:{tag}", finding=f"C19:{tag}")
    # 4. the four option combinations
    for _ in range(ctx.budget(16, 400)):
        for cls in G.CLASSES:
            options_check(ctx, cls, G.rand_def(rng, cls), rng, "valid")
    # 5. process history (last: the families above are evaluated exactly as before, and none of them runs in a
    #    process in which this family has already constructed the valid relatives of their corruptions)
    history_family(ctx, rng, ctx.budget(10, 120))


def double(kw, cls, c1, c2):
    """Apply two corruption operators (the second to the result of the first, by replaying
    both edits on one copy).  Returns None when they do not compose."""
    try:
        k1 = c1[2]()
        ops2 = [c for c in G.corruptions(cls, k1) if c[0] == c2[0]]
        if not ops2:
            return None
        return ops2[0][2]()
    except Exception:  # noqa: BLE001 - operators assume a valid base definition
        return None


# ------------------------------------------------------------------ replay / search
def _env():
    return {"frozenset": frozenset, "set": set}


def replay(ctx: Ctx, path: str) -> int:
    data = json.load(open(path))
    rp = data.get("replay", data)
    rng = ctx.rng
    cls = rp["cls"]
    kind = rp.get("kind")
    if kind in ("validate", "validate_by_hand", "options_construct"):
        kw = eval(rp["kwargs"], _env())
        exp = rp.get("expect")
        check_validate(ctx, cls, kw, "replay", exp, rp.get("rule"))
        check_construct_options(ctx, cls, kw, "replay")
    elif kind == "use":
        kw = eval(rp["kwargs"], _env())
        for _ in range(20):
            use_definition(ctx, cls, kw, rng, "replay", twin=strip_junk(kw))
    elif kind == "use2":
        lhs, rhs = eval(rp["lhs"], _env()), eval(rp["rhs"], _env())
        a = rp["args"]
        fn = dict(M.binary_ops(cls))[rp["op"]]
        x, y = M.construct(cls, lhs), M.construct(cls, rhs)
        if x[0] == "ok" and y[0] == "ok":
            with M.options(False, False):
                res = run_op(fn, x[1], y[1], a)
            same = set(lhs["input_symbols"]) == set(rhs["input_symbols"])
            if res[0] == "err" and not M.is_documented(rp["op"], res[1], same_alphabet=same):
                ctx.prop_fail(f"{rp['op']} raises {type(res[1]).__name__}: {res[1]}", rp, None)
            else:
                validate_result(ctx, rp["op"], res, rp)
                tx, ty = M.construct(cls, strip_junk(lhs)), M.construct(cls, strip_junk(rhs))
                with M.options(False, False):
                    tres = run_op(fn, tx[1], ty[1], a)
                compare_twin(ctx, rp["op"], res, tres, lhs["input_symbols"], rp)
    elif kind == "binary_options":
        lhs, rhs = eval(rp["lhs"], _env()), eval(rp["rhs"], _env())
        binary_under_options(ctx, cls, rp["op"], dict(M.binary_ops(cls))[rp["op"]], lhs, rhs, rp["args"], "replay")
    elif kind == "options":
        kw = eval(rp["kwargs"], _env())
        rhs = eval(rp["rhs"], _env()) if rp.get("rhs") else None
        for _ in range(10):
            options_check(ctx, cls, kw, rng, "replay", kw2=rhs)
    elif kind == "temporary":
        from automata.fa.dfa import DFA
        kw, kw2 = eval(rp["kwargs"], _env()), eval(rp["rhs"], _env())
        d, d2 = DFA(**G._dc(kw)), DFA(**G._dc(kw2))
        mk = {"DFA(...)": lambda: DFA(**G._dc(kw)), "~d": lambda: ~d, "d | e": lambda: d | d2,
              "d.copy()": lambda: d.copy(), "d.minify()": lambda: d.minify()}[rp["shape"]]
        try:
            getattr(mk(), rp["query"])()
        except Exception as e:  # noqa: BLE001
            if not M.is_documented(f"DFA.{rp['query']}", e):
                ctx.prop_fail(f"{rp['shape']}.{rp['query']}() on a temporary DFA raises {type(e).__name__}: {e}",
                              rp, None)
    elif kind == "edit_distance_empty_symbol":
        from automata.fa.nfa import NFA
        res = run_op(lambda: NFA.edit_distance({"", "a"}, "a", 1))
        got = "ok" if res[0] == "ok" else type(res[1]).__name__
        if got != "InvalidSymbolError":
            ctx.prop_fail(f"NFA.edit_distance over the alphabet {{'', 'a'}} gives {got}, documented: InvalidSymbolError",
                          rp, None)
    elif kind == "lookalike_options":
        kw = eval(rp["kwargs"], _env())
        kw2 = eval(rp["rhs"], _env()) if rp.get("rhs") else None
        lookalike_options_case(ctx, cls, kw, kw2, rp["flavour"], rp["sv"], rng, "replay",
                               plan=[list(e) for e in rp.get("trace", [])])
        for _ in range(5):
            if ctx.prop_fails:
                break
            lookalike_options_case(ctx, cls, kw, kw2, rp["flavour"], rp["sv"], rng, "replay")
    elif kind == "history":
        # the recorded steps, in order, in this (new) process; every verdict must be the expected one
        hstate: Dict[str, Any] = {}
        history_case(ctx, [dict(e) for e in rp["steps"]], "replay", hstate)
        _history_flush(ctx, hstate)
    elif kind == "restored":
        kw = eval(rp["kwargs"], _env())
        kw2 = eval(rp["rhs"], _env()) if rp.get("rhs") else None
        # the recorded calls in the recorded order on a twin made the recorded way; then fresh batteries
        restored_case(ctx, cls, kw, kw2, rp["sv"], rp["am"], rng, "replay", makers=[rp["how"]],
                      plan=[list(e) for e in rp.get("trace", [])], used_before=rp.get("used_before"))
        for _ in range(5):
            if ctx.prop_fails:
                break
            restored_case(ctx, cls, kw, kw2, rp["sv"], rp["am"], rng, "replay", makers=[rp["how"]])
    if ctx.prop_fails:
        print(f"VIOLATION property=C19 replay={path}")
        print("  " + ctx.prop_fails[0]["what"])
        return 1
    print("replay: property holds on this input now")
    return 0


def search(ctx: Ctx):
    """An obligation or the correspondence is broken and run() found no failing input: spend
    the budget on the soundness side (accepted ⇒ usable) and on corruptions."""
    rng = ctx.rng
    for _ in range(ctx.budget(150, 1500)):
        for cls in G.CLASSES:
            kw = G.rand_def(rng, cls, junk=cls in G.JUNK_CLASSES and rng.random() < 0.5)
            check_validate(ctx, cls, kw, "search:valid", "ok")
            for rule, exc, thunk in G.corruptions(cls, kw):
                k1 = thunk()
                impl = check_validate(ctx, cls, k1, "search:single_corruption", exc, rule)
                if impl == "ok":
                    use_definition(ctx, cls, k1, rng, "search:accepted_corruption")
            if ctx.prop_fails:
                return
