"""C05 — minimisation preserves the language and reaches the minimum state count.

Correspondence: DFA_MINIFY (direct `minify(retain_names)`) and the minify=True paths of
the other operations (through the C04/C07 commands) — the real result vs. the Lean model
of `_minify` (Hopcroft refinement with the implicit trap, arbitrary pop order), compared
in canonical form; with retained names the blocks themselves are compared.
Property oracle (independent of the model): result validates; complete product search
finds no word distinguishing source and result; the number of states equals the
Myhill–Nerode index computed by an independent Moore refinement (complete result) or
the number of live residual classes, at least one (partial result); a partial result
has no dead state unless it is its only state; minimising the result again keeps its
size; retained names are EXACTLY the classes of merged source states (independent Moore
refinement on the source handed to `_minify`).  Round 4 (`do_chain`): chains X1 = op1(A), X2 = op2(X1), X3 = op3(X2)
of minimising calls, each made on the object the previous call returned and judged with the same oracles against THAT
object's definition (a result must not carry anything that changes what the next call on it does).  PART_REFINE: the real `PartitionRefinement`
vs. the model's `Part.refine`, on random histories and on every refine call logged inside
the real `_minify` (partition as a set of sets and returned pairs after every call).
Round 7 (`deep_family`, harness/dfa_min_deep.py): sources with 1100–3000+ states, every minimising operation, judged by
closed form (no model round trip); see the comment above `DEEP_TIMEOUT_S`.
"""
from __future__ import annotations

import json

from automata.fa.dfa import DFA

from harness import gen, langoracle
from harness.common import guarded, Ctx, InfraError, Names, Toks, call, enc_dfa, toks
from harness.dfaops_common import (check_valid, lang_mismatch, parse_canon, py_canon, render_block)
from harness.ops.C04 import reachable_count

LEVEL = "proof"
RULE = ("cases = (DFA, retain_names) for minify(), plus minify=True paths of union/intersection/difference/"
        "symmetric difference/complement/to_partial/from_nfa; all DFAs with ≤2 states over {a,b} (quick) and ≤3 "
        "states over {a,b} incl. partial ones (thorough), then shaped random DFAs ≤7 states: unreachable states, "
        "dead states entered explicitly, dead/non-final initial state, empty/universal languages, duplicated "
        "states, adversarial name pools (-1,-2,… / tuples / frozensets); sequences of 2–4 calls on ONE object (at least one "
        "with minify=True, whose result is checked for language and minimality); the same sequences — preceded by 0–2 "
        "unjudged queries, one step often repeated — on operands built under allow_mutable_automata=True from PLAIN "
        "set/dict containers (option left on or switched off again for the calls), every minify=True result judged "
        "(language, minimality, minimal-again, exact retained names) against a FROZEN TWIN = the definition as built; "
        "chains of 2–3 minimising calls (minify / to_partial / complement / Boolean operations / from_nfa first, both "
        "retain_names values in every position) each made on THE OBJECT the previous call returned (or a copy / a rebuilt "
        "DFA), every call judged — incl. the exact retained names — against the object it was made on (all pairs of calls on 4 "
        "fixed DFAs, then random); "
        "DEEP / LARGE sources (round 7, harness/dfa_min_deep.py): 8 sources with 1100–3000+ states per run built from JSON "
        "specs by the real constructors — DFA.of_length (bounded window, and unbounded: chain ending in a self-loop), "
        "DFA.from_finite_language with a 1500-symbol word, hand-written chains in which every state has an equivalent twin "
        "(followed by 150–400 dead positions, declared partial; or by 1100+ dead positions and a trap, declared complete), 2–3 "
        "copies of a cycle of 1100–1400 states, 30–50 copies of a cycle of 50–60, an NFA with two states per position — "
        "and minify / to_partial / complement / union / intersection / difference / symmetric_difference (minify=True, second "
        "operand large too) / DFA.from_nfa(minify=True) called on them with retain_names both ways (≈ 48 calls, every one of "
        "the eight operations at least once per run); judged by CLOSED FORM (language by a complete linear walk against the "
        "canonical automaton + real accepts_input on words around the thresholds, exact state count = closed-form Nerode "
        "index / live classes, no dead state, minimal-again, exact retained names), no model round trip; each spec also at "
        "≤ 12 states judged by the closed form AND the brute-force oracles; "
        "non-trivial = source has ≥3 reachable "
        "states and minimisation merges or removes at least one of them; distinct = distinct encoded sources")
ASSUMPTIONS = [
    "sources are valid DFAs built through the real constructor; no state is literally None",
    "the result is compared up to renaming of states (block ids / counter values are arbitrary)",
    "mutable-automata option: the caller does not mutate the containers it handed over (the documented contract of the "
    "option); whether the LIBRARY changes them is C18's clause and only counted here — results are judged against the "
    "definition as built",
]
EXPLANATION = ("Theorems C05_* (Props/C05.lean) are about the model of _minify; this run ties the model to the code and "
               "evaluates language preservation and exact minimality on the real results with independent oracles.  "
               "Size: the theorems hold for automata of every size; the correspondence runs stay at ≤ 14 states, and the deep / "
               "large family checks the property itself on sources with 1100–3000+ states against closed-form languages "
               "(no model round trip there — the model's driver would need minutes), so a change that is only wrong beyond a "
               "size threshold (recursion depth, bounded work-list, fixed-size cache or buffer, super-linear copy) is observed "
               "as a wrong result, an exception or a watchdog timeout with a replay.")


# ------------------------------------------------------------------ PartitionRefinement ↔ Part.refine
class RefineLog:
    """Context manager: logs every `PartitionRefinement(items)` / `.refine(S)` the real code performs
    (monkey-patched methods of the real class; the iterable `S` is materialised in its live order).
    After every call the partition is recorded as a set of sets, and the returned id pairs as the
    CONTENTS of the two blocks (ids are `id(set)`)."""

    def __init__(self):
        self.logs = []

    def __enter__(self):
        from automata.base import utils
        self.cls = utils.PartitionRefinement
        self.o_init, self.o_refine = self.cls.__init__, self.cls.refine
        log = self

        def init(obj, items):
            items = list(items)
            log.o_init(obj, items)
            log.logs.append(dict(items=items, calls=[]))

        def refine(obj, S):
            S = list(S)
            out = log.o_refine(obj, S)
            if log.logs:
                log.logs[-1]["calls"].append(dict(
                    S=S, partition={frozenset(b) for b in obj._sets.values()},
                    pairs=[(frozenset(obj._sets[a]), frozenset(obj._sets[b])) for a, b in out]))
            return out
        self.cls.__init__, self.cls.refine = init, refine
        return self

    def __exit__(self, *exc):
        self.cls.__init__, self.cls.refine = self.o_init, self.o_refine
        return False


def model_refine(ctx: Ctx, items, sets):
    """The model's `Part.init items` followed by `refine(S)` for every S (driver PART_REFINE):
    → (initial partition, [(partition after the call, pairs by content)])."""
    nm = Names(items)
    line = ctx.driver("drv_dfa_ops").ask(toks("PART_REFINE", len(items), [nm(x) for x in items], len(sets),
                                              [[len(S), [nm(x) for x in S]] for S in sets]))
    t = Toks(line)
    t.expect("ok")
    init = {frozenset(b) for b in t.many(t.ints)}
    steps = []
    for _ in sets:
        t.expect("STEP")
        part = {frozenset(b) for b in t.many(t.ints)}
        pairs = t.many(lambda: (frozenset(t.ints()), frozenset(t.ints())))
        steps.append((part, pairs))
    return nm, init, steps


@guarded
def compare_refine_log(ctx: Ctx, log: dict, replay: dict, origin: str):
    """One logged PartitionRefinement life (constructor + refine calls) replayed on the model."""
    items, calls = log["items"], log["calls"]
    nm, init, steps = model_refine(ctx, items, [c["S"] for c in calls])
    ctx.stat(origin)
    ctx.stat("refine_calls_compared", len(calls))
    enc = lambda part: {frozenset(nm(x) for x in b) for b in part}  # noqa: E731
    if init != {frozenset(nm(x) for x in set(items))}:
        ctx.corr_diff("PART_REFINE.init", replay, sorted(map(sorted, [[nm(x) for x in set(items)]])), sorted(map(sorted, init)))
        return
    for i, (c, (mpart, mpairs)) in enumerate(zip(calls, steps)):
        ipart = enc(c["partition"])
        ipairs = [(frozenset(nm(x) for x in a), frozenset(nm(x) for x in b)) for a, b in c["pairs"]]
        if ipart != mpart or ipairs != mpairs:
            ctx.corr_diff("PART_REFINE", dict(replay, call_index=i, items=[nm(x) for x in items],
                                              sets=[[nm(x) for x in cc["S"]] for cc in calls[: i + 1]]),
                          dict(partition=sorted(map(sorted, ipart)), pairs=[(sorted(a), sorted(b)) for a, b in ipairs]),
                          dict(partition=sorted(map(sorted, mpart)), pairs=[(sorted(a), sorted(b)) for a, b in mpairs]))
            return


@guarded
def do_part_refine(ctx: Ctx, items, sets, origin: str):
    """Random partition-refinement history on the REAL class vs. the model, plus the specification of
    `refine` checked on the real class (independent of the model): after refine(S) every old block A
    with ∅ ≠ A∩S ≠ A is replaced by A∩S and A∖S, every other block is unchanged, and exactly those
    splits are reported, in the order in which S first hits them."""
    from automata.base.utils import PartitionRefinement
    with RefineLog() as lg:
        P = PartitionRefinement(items)
        before = [{frozenset(b) for b in P._sets.values()}]
        for S in sets:
            P.refine(iter(S))
            before.append({frozenset(b) for b in P._sets.values()})
    log = lg.logs[-1]
    replay = dict(op="part_refine", items=[repr(x) for x in items], sets=[[repr(x) for x in S] for S in sets])
    ctx.case(("part_refine", tuple(items), tuple(tuple(S) for S in sets)) if len(set(items)) >= 3 and sets else None)
    # specification on the real class
    for i, (S, c) in enumerate(zip(sets, log["calls"])):
        old, new, Sset = before[i], c["partition"], set(S)
        want = set()
        want_pairs = []
        order = []
        for x in S:
            A = next(b for b in old if x in b)
            if A not in order:
                order.append(A)
        for A in old:
            if A & Sset and A - Sset:
                want |= {frozenset(A & Sset), frozenset(A - Sset)}
            else:
                want.add(A)
        for A in order:
            if A - Sset:
                want_pairs.append((frozenset(A & Sset), frozenset(A - Sset)))
        if new != want or c["pairs"] != want_pairs:
            ctx.corr_diff("PartitionRefinement.refine-vs-spec", dict(replay, call_index=i),
                          dict(partition=sorted(map(sorted, new, ), key=repr), pairs=repr(c["pairs"])),
                          dict(partition=sorted(map(sorted, want), key=repr), pairs=repr(want_pairs)))
            return
    compare_refine_log(ctx, log, replay, origin)


def run_part_refine(ctx: Ctx, n: int):
    rng = ctx.rng
    for _ in range(n):
        k = rng.randint(0, 9)
        pool = rng.choice([list(range(k)), list(range(-2, k - 2)), [("s", i) for i in range(k)],
                           [frozenset({i}) for i in range(k)], ["q%d" % i for i in range(k)]])
        items = list(pool)
        rng.shuffle(items)
        if items and rng.random() < 0.2:
            items.append(rng.choice(items))  # the constructor takes any iterable
        sets = []
        for _ in range(rng.randint(0, 6)):
            p = rng.choice([0.0, 0.2, 0.5, 0.8, 1.0])
            S = [x for x in pool if rng.random() < p]
            rng.shuffle(S)
            if S and rng.random() < 0.3:
                S.insert(rng.randrange(len(S) + 1), rng.choice(S))  # duplicates in the iterable
            sets.append(S)
        do_part_refine(ctx, items, sets, "part_refine_random")


def dead_states(d: DFA):
    """States of d from which no final state is reachable."""
    live = set(d.final_states)
    changed = True
    while changed:
        changed = False
        for q, row in d.transitions.items():
            if q not in live and any(t in live for t in row.values()):
                live.add(q)
                changed = True
    return set(d.states) - live


def expected_block_names(transitions, kept, finals, alphabet):
    """EXACT retained names, computed independently of the library: the classes of the states `kept`
    (a set) under Myhill–Nerode equivalence in the system where a missing transition or a transition
    to a state outside `kept` leads to an implicit sink; the class of the sink (the dead kept states)
    is dropped iff a sink is needed at all.  Moore refinement, brute force."""
    alphabet = sorted(alphabet)
    SINK = ("<sink>",)
    kept = list(kept)
    keptset = set(kept)

    def step(q, a):
        if q is SINK:
            return SINK
        t = transitions.get(q, {}).get(a, SINK)
        return t if (t is SINK or t in keptset) else SINK
    need_sink = any(step(q, a) is SINK for q in kept for a in alphabet)
    univ = kept + ([SINK] if need_sink else [])
    cls = {q: int(q is not SINK and q in finals) for q in univ}
    while True:
        sig = {q: (cls[q],) + tuple(cls[step(q, a)] for a in alphabet) for q in univ}
        ids = {}
        new = {q: ids.setdefault(sig[q], len(ids)) for q in univ}
        done = len(set(new.values())) == len(set(cls.values()))
        cls = new
        if done:
            break
    groups = {}
    for q in kept:
        groups.setdefault(cls[q], set()).add(q)
    if need_sink:
        groups.pop(cls[SINK], None)
    return {frozenset(g) for g in groups.values()}


def kept_for_minify(A: DFA, force_partial=False):
    reach = _reach(A)
    if A.allow_partial or force_partial:
        return (reach - dead_states(A)) | {A.initial_state}
    return reach


def check_min_props(ctx: Ctx, what: str, src_machines, spec, R: DFA, replay: dict, alphabet, expected_names=None) -> bool:
    bad = check_valid(R)
    if bad:
        ctx.prop_fail(f"{what}: result does not validate ({bad})", replay)
        return False
    w = lang_mismatch(src_machines, R, alphabet, spec)
    if w is not None:
        ctx.prop_fail(f"{what}: minimised result and source disagree on word {w!r}", dict(replay, word=w))
        return False
    n_classes, n_live = langoracle.nerode_index(R, alphabet)
    really_partial = any(len(row) != len(alphabet) for row in R.transitions.values())
    want = max(1, n_live) if really_partial else n_classes
    if len(R.states) != want:
        kind = "partial" if really_partial else "complete"
        ctx.prop_fail(f"{what}: {kind} result has {len(R.states)} states, the minimum is {want} "
                      f"(Nerode index {n_classes}, live classes {n_live})", replay)
        return False
    if really_partial and len(R.states) > 1 and dead_states(R):
        ctx.prop_fail(f"{what}: partial result keeps a dead state", replay)
        return False
    again = call(lambda: R.minify())
    if again[0] == "err" or len(again[1].states) != len(R.states):
        ctx.prop_fail(f"{what}: minimising the minimal result changes its size "
                      f"({len(R.states)} → {again[1] if again[0]=='err' else len(again[1].states)})", replay)
        return False
    if expected_names is not None:
        names = set(R.states)
        if names != expected_names:
            # open known finding F16: when every kept state is dead `_minify` returns
            # `empty_language(...)`, whose single state is named 0 instead of the set of merged states
            f16 = (not expected_names and len(names) == 1 and 0 in names and not R.final_states
                   and langoracle.find_word([R], alphabet, lambda v: v[0]) is None)
            ctx.prop_fail(f"{what}: retained names are not exactly the classes of merged source states: got "
                          f"{sorted(names, key=repr)!r}, the classes are {sorted(expected_names, key=repr)!r}", replay,
                          "C05:retain_names:empty-language-state-0" if f16 else None)
            return bool(f16)
    return True


@guarded
def do_minify(ctx: Ctx, A: DFA, retain: bool, origin: str, replay: dict = None, prefix: str = ""):
    """`A` is the very object the call is made on (for the chained family: the RESULT object of an earlier call,
    with whatever that call left on it); `replay`: how to obtain that object again when repr(A) would not."""
    drv = ctx.driver("drv_dfa_ops")
    encA, stA, sy = enc_dfa(A)
    replay = replay or dict(op="minify", retain_names=retain, A=repr(A))
    with RefineLog() as lg:
        res = call(lambda: A.minify(retain_names=retain))
    # every PartitionRefinement.refine call the real `_minify` made, replayed on the model's Part.refine
    for log in lg.logs:
        compare_refine_log(ctx, log, dict(replay, what="refine calls logged inside _minify"), "minify_refine_log")
    ctx.stat(origin)
    ctx.stat("source_partial" if A.allow_partial else "source_complete")
    if res[0] == "err":
        ctx.case(None)
        ctx.prop_fail(f"{prefix}minify(retain_names={retain}) raised {res[1]} on a valid DFA", replay)
        return None
    R = res[1]
    exp = None
    if retain:
        kept = kept_for_minify(A)
        exp = expected_block_names(A.transitions, kept, set(A.final_states) & kept, A.input_symbols)
    ok = check_min_props(ctx, f"{prefix}minify(retain_names={retain})", [A], lambda x: x, R, replay, A.input_symbols,
                         expected_names=exp)
    rc = reachable_count(A)
    ctx.case(("minify", retain, encA) if ok and rc >= 3 and len(R.states) < rc else None)
    if len(R.states) < rc:
        ctx.stat("merged_or_removed_states")
    if dead_states(A) & set(_reach(A)):
        ctx.stat("source_has_reachable_dead_state")
    if rc < len(A.states):
        ctx.stat("source_has_unreachable_state")
    if any(isinstance(q, int) and q < 0 for q in A.states):
        ctx.stat("source_has_negative_int_names")
    if R.allow_partial:
        ctx.stat("result_partial")
    line = drv.ask(toks("DFA_MINIFY", retain, ctx.rng.randrange(1000), encA))
    mod = parse_canon(Toks(line[3:]))
    imp = py_canon(R, sy, render_block(lambda q: str(stA(q))) if retain else None)
    if ctx.evaluations % 397 == 1:
        ctx.sample(dict(source=repr(A), retain_names=retain, result=repr(R), canonical=imp))
    if imp != mod and ok:
        ctx.corr_diff("DFA_MINIFY", replay, imp, mod)
    return R


def _reach(d: DFA):
    seen = {d.initial_state}
    work = [d.initial_state]
    while work:
        q = work.pop()
        for t in d.transitions[q].values():
            if t not in seen:
                seen.add(t)
                work.append(t)
    return seen


@guarded
def do_minify_via_op(ctx: Ctx, A: DFA, B: DFA, origin: str, N=None):
    """minify=True paths of other operations: language, minimality and — with retain_names=True — the
    EXACT names of their results.  Expected names: classes (independent Moore refinement) of the source
    handed to `_minify`: the pre-pass of the table for to_partial / complement, all states of the
    un-minified retained result for the `_expand_dfa` callers (Boolean operations, from_nfa)."""
    from harness.ops.C04 import OPS
    rng = ctx.rng
    opname = rng.choice(list(OPS) + ["complement", "to_partial"]) if N is None else "from_nfa"
    return via_op_case(ctx, A, B, opname, rng.random() < 0.5, N)


def via_op_case(ctx: Ctx, A: DFA, B: DFA, opname: str, retain: bool, N=None, replay_as: dict = None, prefix: str = ""):
    """One minify=True call `opname` on the object `A` (second operand `B`) judged against the definitions of the
    objects the call was made on.  Returns the result object (None when the call raised)."""
    from harness.ops.C04 import OPS
    ctx.stat("via_" + opname)
    exp = None
    if opname in OPS:
        impl_f, spec, _ = OPS[opname]
        res = call(lambda: impl_f(A, B, retain_names=retain, minify=True))
        srcs, sp = [A, B], spec
        replay = dict(op=opname, via=True, retain_names=retain, A=repr(A), B=repr(B))
        if retain:
            P = impl_f(A, B, retain_names=True, minify=False)
            exp = expected_block_names(P.transitions, set(P.states), set(P.final_states), P.input_symbols)
    elif opname == "complement":
        res = call(lambda: A.complement(retain_names=retain, minify=True))
        srcs, sp = [A], (lambda x: not x)
        replay = dict(op=opname, via=True, retain_names=retain, A=repr(A))
        if retain:
            C = A.to_complete() if A.allow_partial else A
            kept = _reach(C)
            exp = expected_block_names(C.transitions, kept, kept - set(C.final_states), C.input_symbols)
    elif opname == "to_partial":
        res = call(lambda: A.to_partial(retain_names=retain, minify=True))
        srcs, sp = [A], (lambda x: x)
        replay = dict(op=opname, via=True, retain_names=retain, A=repr(A))
        if retain:
            kept = kept_for_minify(A, force_partial=True)
            exp = expected_block_names(A.transitions, kept, set(A.final_states) & kept, A.input_symbols)
    else:
        res = call(lambda: DFA.from_nfa(N, retain_names=retain, minify=True))
        srcs, sp = [N], (lambda x: x)
        replay = dict(op=opname, via=True, retain_names=retain, N=repr(N))
        if retain:
            P = DFA.from_nfa(N, retain_names=True, minify=False)
            exp = expected_block_names(P.transitions, set(P.states), set(P.final_states), P.input_symbols)
    if replay_as is not None:
        replay = replay_as
    if res[0] == "err":
        ctx.case(None)
        ctx.prop_fail(f"{prefix}{opname}(minify=True) raised {res[1]}", replay)
        return None
    R = res[1]
    alphabet = (N if N is not None else A).input_symbols
    ok = check_min_props(ctx, f"{prefix}{opname}(retain_names={retain}, minify=True)", srcs, sp, R, replay, alphabet,
                         expected_names=exp)
    ctx.case(("via", opname, retain, repr(N if N is not None else A), repr(B)) if ok and len(R.states) >= 2 else None)
    return R


# ------------------------------------------------------------------ chains: calls on RESULTS of earlier minimising calls (round 4)
CHAIN_UNARY = ["minify", "to_partial", "complement"]
CHAIN_BINARY = ["union", "inter", "diff", "symm"]
CHAIN_LINKS = ["same", "same", "same", "copy", "rebuilt"]


def _chain_call(X: DFA, B: DFA, opname: str, retain: bool):
    """The call of a chain step, made silently (how the NEXT step's receiver is obtained when the judged call of this
    step is not the one that produced it — never used for a verdict)."""
    from harness.ops.C04 import OPS
    if opname == "minify":
        return X.minify(retain_names=retain)
    if opname == "to_partial":
        return X.to_partial(retain_names=retain)
    if opname == "complement":
        return X.complement(retain_names=retain)
    return OPS[opname][0](X, B, retain_names=retain, minify=True)


@guarded
def do_chain(ctx: Ctx, A: DFA, B: DFA, chain, origin: str, N=None):
    """X1 = op1(A); X2 = op2(X1); X3 = op3(X2): every call of the chain is a minimising call (minify / to_partial /
    complement / Boolean operation with `B`, both retain_names values, in every position) made on THE OBJECT the
    previous call returned (`link` "same"; "copy": on `.copy()` of it; "rebuilt": on a DFA built again from its
    definition) and judged — language, minimum size, no dead state, minimal-again, and with retain_names=True the names
    EXACTLY the classes of the states of the object the call was made on — against that object's definition.
    `chain` = [(opname, retain_names, link), …]; with `N` the first call is DFA.from_nfa(N, …)."""
    X = A
    for i, (opname, retain, link) in enumerate(chain):
        rp = dict(op="chain", A=repr(A), B=repr(B), N=(repr(N) if N is not None else None), chain=[list(c) for c in chain[: i + 1]],
                  failing_call=i)
        ctx.stat(f"chain_step{i + 1}:{opname}:retain={int(retain)}")
        if i > 0:
            ctx.stat(f"chain_link:{link}")
            if link == "copy":
                X = X.copy()
            elif link == "rebuilt":
                X = DFA(states=set(X.states), input_symbols=set(X.input_symbols), transitions={q: dict(r) for q, r in X.transitions.items()},
                        initial_state=X.initial_state, final_states=set(X.final_states), allow_partial=X.allow_partial)
        before = ctx.n_prop_fails
        pre = "" if i == 0 else (f"call #{i + 1} of the chain " + " → ".join(f"{o}(retain_names={r})" for o, r, _ in chain[: i + 1])
                                 + ", made on " + {"same": "the object", "copy": "a copy of the object", "rebuilt": "a DFA rebuilt from the object"}[link]
                                 + f" call #{i} returned: ")
        if i == 0 and N is not None:
            R = via_op_case(ctx, None, None, "from_nfa", retain, N=N, replay_as=rp, prefix=pre)
        elif opname == "minify":
            R = do_minify(ctx, X, retain, origin + "_minify_call", rp, pre)
        else:
            R = via_op_case(ctx, X, B, opname, retain, replay_as=rp, prefix=pre)
        if R is None or ctx.n_prop_fails > before:
            return
        X = R
    ctx.stat(origin)
    ctx.stat(f"chain_length:{len(chain)}")


def draw_chain(rng, length: int = None):
    n = length or rng.choice([2, 2, 2, 3])
    out = []
    for i in range(n):
        op = rng.choice(CHAIN_UNARY + CHAIN_BINARY) if i == 0 else rng.choice(CHAIN_UNARY * 2 + CHAIN_BINARY)
        retain = rng.random() < (0.4 if i == 0 else 0.7)
        out.append((op, retain, "same" if i == 0 else rng.choice(CHAIN_LINKS)))
    return out


def run_chains(ctx: Ctx, n: int):
    rng = ctx.rng
    ab = ("a", "b")
    # bounded-exhaustive: every (first call, retain) × (second call, retain) on the same object, on fixed sources
    srcs = [DFA.from_finite_language(set(ab), {"ab", "b", "ba"}), DFA.from_substring(set(ab), "aa"),
            DFA(states={0, 1, 2, 3, 4}, input_symbols=set(ab), transitions={0: {"a": 1, "b": 2}, 1: {"a": 3, "b": 4}, 2: {"a": 4, "b": 3},
                                                                           3: {"a": 3, "b": 3}, 4: {"a": 4, "b": 4}},
                initial_state=0, final_states={3}),
            DFA(states={0, 1, 2, 3}, input_symbols=set(ab), transitions={0: {"a": 1, "b": 2}, 1: {"a": 3}, 2: {"a": 3}, 3: {"b": 0}},
                initial_state=0, final_states={3}, allow_partial=True)]
    B = DFA.from_prefix(set(ab), "a")
    ops = CHAIN_UNARY + CHAIN_BINARY
    for A in srcs:
        for o1 in ops:
            for r1 in (False, True):
                for o2 in ops:
                    for r2 in (False, True):
                        do_chain(ctx, A, B, [(o1, r1, "same"), (o2, r2, "same")], "chain_exhaustive")
    ctx.exhaustive(f"chains: all {len(ops) ** 2 * 4} pairs (first minimising call, retain_names) × (second minimising call made on the "
                   f"object the first returned, retain_names) over {ops} on {len(srcs)} fixed DFAs over {{a,b}}")
    for _ in range(n):
        al = rng.choice(gen.ALPHABETS)
        A = gen.rand_dfa(rng, 6, al, partial=True if rng.random() < 0.4 else None)
        B = gen.rand_dfa(rng, 3, al)
        if rng.random() < 0.15:
            do_chain(ctx, None, B, draw_chain(rng), "chain_random_from_nfa", N=gen.rand_nfa(rng, 4, alphabet=al))
        else:
            do_chain(ctx, A, B, draw_chain(rng), "chain_random")


def expected_names_for_step(step: str, A: DFA):
    """EXACT retained names of the retain_names=True steps of dfa_sequences.STEPS, computed from the
    definition `A` by the independent Moore refinement (None for the other steps)."""
    if step == "d.minify(retain_names=True)":
        kept = kept_for_minify(A)
        return expected_block_names(A.transitions, kept, set(A.final_states) & kept, A.input_symbols)
    if step == "d.to_partial(retain_names=True)":
        kept = kept_for_minify(A, force_partial=True)
        return expected_block_names(A.transitions, kept, set(A.final_states) & kept, A.input_symbols)
    if step == "d.complement(retain_names=True)":
        al = sorted(A.input_symbols)
        kept = _reach(A)
        if any(a not in A.transitions[q] for q in kept for a in al):
            # the complement is taken of the completed table: the trap joins the non-final (→ final) states;
            # its name is the library's choice, so only the number of names and the classes WITHOUT it are fixed
            return None
        return expected_block_names(A.transitions, kept, kept - set(A.final_states), A.input_symbols)
    return None


def _seq_oracle(ctx: Ctx, judged: DFA):
    def on_dfa(what, srcs, spec, R, replay, minified):
        if not minified:
            return True
        step = replay["steps"][replay["failing_step"]]
        return check_min_props(ctx, what, srcs, spec, R, replay, judged.input_symbols,
                               expected_names=expected_names_for_step(step, judged))
    return on_dfa


@guarded
def do_sequence(ctx: Ctx, d: DFA, b: DFA, steps, origin: str):
    """Calls on ONE object: every minify=True result is evaluated for language AND minimality (and, for the
    retain_names=True steps, the exact names); the other steps are executed (they are what may disturb
    per-object caches) and evaluated by C04."""
    from harness import dfa_sequences
    dfa_sequences.run_sequence(ctx, d, b, steps, origin, _seq_oracle(ctx, d))


def run_sequences(ctx: Ctx, n: int):
    from harness import dfa_sequences
    rng = ctx.rng
    for _ in range(n):
        al = rng.choice(gen.ALPHABETS)
        d = gen.rand_dfa(rng, 5, al, partial=False if rng.random() < 0.5 else None)
        b = gen.rand_dfa(rng, 4, al)
        steps = dfa_sequences.draw_steps(rng)
        if not any(dfa_sequences.STEPS[s][3] for s in steps):
            steps.append(rng.choice([s for s in dfa_sequences.STEP_NAMES if dfa_sequences.STEPS[s][3]]))
        do_sequence(ctx, d, b, steps, "sequence_on_one_object")


@guarded
def do_mutable_sequence(ctx: Ctx, ref_d: DFA, ref_b: DFA, pre, steps, option_during_calls: bool, origin: str):
    """Mutable-automata option: live operands built from plain set/dict containers; every minify=True result is
    judged (language, minimality, minimal-again, exact retained names) against the FROZEN twins."""
    from harness import dfa_sequences
    dfa_sequences.run_mutable_sequence(ctx, ref_d, ref_b, pre, steps, option_during_calls, origin,
                                       _seq_oracle(ctx, ref_d))


def run_mutable_option(ctx: Ctx, n: int):
    """DFAs built under allow_mutable_automata=True from plain containers; minify / to_partial / the
    minify=True paths of the other operations called on them — also twice, also after queries."""
    from harness import dfa_sequences
    rng = ctx.rng
    minifying = [s for s in dfa_sequences.STEP_NAMES if dfa_sequences.STEPS[s][3]]
    for _ in range(n):
        al = rng.choice(gen.ALPHABETS)
        # partial operands with live non-final states (the trimming path) and complete ones, half each
        d = gen.rand_dfa(rng, 6, al, partial=True if rng.random() < 0.5 else None)
        b = gen.rand_dfa(rng, 4, al)
        pre, steps, on = dfa_sequences.draw_mutable_history(rng)
        if not any(dfa_sequences.STEPS[s][3] for s in steps):
            steps.append(rng.choice(minifying))
        do_mutable_sequence(ctx, d, b, pre, steps, on, "mutable_option_sequence")


# ------------------------------------------------------------------ round 7: DEEP / LARGE sources (1100–3000 states)
# Everything above stays at ≤ 14 states.  The property is about every valid DFA, so a `_minify` / pre-pass /
# `PartitionRefinement` / `_expand_dfa` / `_bfs_*` that is only right below a SIZE THRESHOLD (recursion instead of a
# loop: RecursionError near depth 1000; a work-list cut off after N rounds; a cache with 128 slots; a fixed-size buffer;
# a quadratic copy that no longer answers) is invisible to them.  This family builds sources with 1100–3000 states
# from small JSON specs through the real constructors (harness/dfa_min_deep.py): DFA.of_length chains (bounded and
# ending in a self-loop), DFA.from_finite_language with words of 1500 symbols, hand-written chains in which EVERY state
# has an equivalent twin (so merging really happens at depth), optionally followed by a chain of hundreds of dead states
# (declared partial: the pre-pass must drop them; declared complete with a trap: Hopcroft must merge them into ONE
# class), k copies of a cycle of 1100+ states, 40 copies of a cycle of 60, and an NFA with two states per position.
# Every minimising operation the property names is called on them — minify, to_partial, complement(minify=True),
# union / intersection / difference / symmetric_difference(minify=True) with a second large operand,
# DFA.from_nfa(minify=True) — with retain_names both ways.  The language of every result is known in CLOSED FORM from
# the construction parameters (length sets closed under the Boolean operations, a count modulo c, an explicit finite
# set), so the judge needs neither the library's algorithms nor the Lean model (NO model round trip:
# `deep:closed_form_oracle_no_model_round_trip`): result validates; its table accepts exactly the closed-form
# language (linear bisimulation walk against the canonical minimal automaton — complete, not sampled); real
# accepts_input agrees with the membership predicate on words around the thresholds (lengths K-1, K, K+1, 990–1025,
# 2048, K+1000); the number of states is the closed-form Nerode index (complete result) / number of live classes, ≥ 1
# (partial result); a partial result has no dead state; minimising the result again keeps its size and, with
# retain_names, names every state by its singleton; retained names are EXACTLY the closed-form classes (pairs {2p,2p+1};
# the k states at one cycle position; one class holding all dead states and the trap; singletons for sources that are
# already minimal).  The closed forms are tied to the real objects twice: the same walk on every SOURCE as built, and
# `deep_small_twin`: the same specs scaled down to ≤ 12 states, judged by the closed form AND by this module's existing
# brute-force oracles (`do_minify` / `via_op_case`: product search, independent Moore refinement, model round trip) —
# disagreement between the two oracles is an InfraError.  A failing call is re-confirmed on newly built objects (alone,
# else after the calls that preceded it on the same object) before it is reported; every call runs under a watchdog,
# so "no answer within DEEP_TIMEOUT_S" is an observation with a replay like any other.
DEEP_TIMEOUT_S = 20
DEEP_BOOL = {"union": lambda x, y: x or y, "inter": lambda x, y: x and y, "diff": lambda x, y: x and not y,
             "symm": lambda x, y: x != y}
DEEP_METHOD = {"union": "union", "inter": "intersection", "diff": "difference", "symm": "symmetric_difference"}


def deep_show_call(c: dict) -> str:
    op, r = c["op"], c["retain"]
    if op == "minify":
        return f"minify(retain_names={r})"
    if op in ("to_partial", "complement"):
        return f"{op}(retain_names={r}, minify=True)"
    if op == "from_nfa":
        return f"DFA.from_nfa(N, retain_names={r}, minify=True)"
    return f"{DEEP_METHOD[op]}(B, retain_names={r}, minify=True)"


def deep_invoke(src, B, c: dict):
    """The real call, under the watchdog: ("ok", DFA) / ("err", class name) / ("err", "_Timeout")."""
    from harness import dfa_query_lib as QL
    op, r = c["op"], c["retain"]
    if op == "minify":
        f = lambda: src.minify(retain_names=r)  # noqa: E731
    elif op == "to_partial":
        f = lambda: src.to_partial(retain_names=r, minify=True)  # noqa: E731
    elif op == "complement":
        f = lambda: src.complement(retain_names=r, minify=True)  # noqa: E731
    elif op == "from_nfa":
        f = lambda: DFA.from_nfa(src, retain_names=r, minify=True)  # noqa: E731
    else:
        f = lambda: getattr(src, DEEP_METHOD[op])(B, retain_names=r, minify=True)  # noqa: E731
    return QL.guarded(f, DEEP_TIMEOUT_S)


def deep_result_lang(spec: dict, c: dict):
    from harness import dfa_min_deep as MD
    L = MD.lang_of(spec)
    if c["op"] == "complement":
        return L.complement()
    if c["op"] in DEEP_BOOL:
        return L.combine(MD.lang_of(c["B"]), DEEP_BOOL[c["op"]])
    return L


def deep_expected_names(spec: dict, c: dict, src):
    """Closed-form retained names (None: not fixed by the construction — Boolean operations name classes by pairs
    that involve the operands' trap names, complement of a partial source involves to_complete's trap name)."""
    from harness import dfa_min_deep as MD
    if not c["retain"]:
        return None
    op = c["op"]
    names = MD.expected_names(spec, op)
    if names is not None or op in DEEP_BOOL or op == "from_nfa":
        return names
    if spec["kind"] in ("of_length", "finite_language"):
        # constructor-built sources are already minimal when their size is the closed-form index: every class is a singleton
        cls, live = MD.lang_of(spec).index()
        partial = any(len(row) != len(src.input_symbols) for row in src.transitions.values())
        if len(src.states) != (max(1, live) if partial else cls):
            return None
        dead = _deep_dead(src)
        if op == "to_partial" or (op == "minify" and src.allow_partial):
            return {frozenset({q}) for q in src.states if q not in dead or q == src.initial_state}
        if op == "minify" or (op == "complement" and not partial):
            return {frozenset({q}) for q in src.states}
    return None


def _deep_dead(d) -> set:
    rev = {}
    for q, row in d.transitions.items():
        for t in row.values():
            rev.setdefault(t, []).append(q)
    live = set(d.final_states)
    work = list(live)
    while work:
        t = work.pop()
        for q in rev.get(t, ()):
            if q not in live:
                live.add(q)
                work.append(q)
    return set(d.states) - live


def deep_judge_result(spec: dict, c: dict, src, res, rng):
    """None, or what is wrong with the observation `res` of the call `c` on the source built from `spec`."""
    from harness import dfa_min_deep as MD
    from harness import dfa_query_lib as QL
    if res[0] == "err":
        if res[1] == "_Timeout":
            return f"gave no answer within {DEEP_TIMEOUT_S} s"
        return f"raised {res[1]}"
    R = res[1]
    if not isinstance(R, DFA):
        return f"returned {type(R).__name__}, not a DFA"
    bad = check_valid(R)
    if bad:
        return f"result does not validate ({bad})"
    L = deep_result_lang(spec, c)
    w = MD.bisim_counterexample(R, L)
    if w is not None:
        real = call(lambda: R.accepts_input(w))
        return (f"result's language is wrong: on {MD.short(w)} the result answers {real[1]!r} "
                f"(its table: {'accept' if not L.member(w) else 'reject'}), the language dictates {L.member(w)}")
    for w in L.probe(rng):
        real = QL.guarded(lambda: R.accepts_input(w), DEEP_TIMEOUT_S)
        if real != ("ok", L.member(w)):
            return f"result.accepts_input({MD.short(w)}) = {real[1]!r}, the language dictates {L.member(w)}"
    n_cls, n_live = L.index()
    partial = any(len(row) != len(R.input_symbols) for row in R.transitions.values())
    want = max(1, n_live) if partial else n_cls
    if len(R.states) != want:
        return (f"{'partial' if partial else 'complete'} result has {len(R.states)} states, the minimum is {want} "
                f"(closed form: Nerode index {n_cls}, live classes {n_live})")
    if partial and len(R.states) > 1 and MD.dead_state_count(R):
        return "partial result keeps a dead state"
    if partial != bool(R.allow_partial) and partial:
        return "result with missing transitions is not declared partial"
    # idempotence: with the flag of the call — plain: same size; retain_names: same size, every state named by its singleton
    again = QL.guarded(lambda: R.minify(retain_names=c["retain"]), DEEP_TIMEOUT_S)
    if again[0] == "err" or len(again[1].states) != len(R.states):
        return (f"minimising the minimal result ({len(R.states)} states) "
                + (f"raised {again[1]}" if again[0] == "err" else f"gives {len(again[1].states)} states"))
    if c["retain"] and set(again[1].states) != {frozenset({q}) for q in R.states}:
        return "minimising the minimal result with retain_names=True does not name every state by its singleton"
    exp = deep_expected_names(spec, c, src)
    if exp is not None:
        names = set(R.states)
        if names != exp:
            extra, missing = names - exp, exp - names
            return (f"retained names are not exactly the classes of merged source states: {len(names)} names, {len(exp)} classes; "
                    f"unexpected {MD.short(sorted(extra, key=repr)[:3])}, missing {MD.short(sorted(missing, key=repr)[:3])}")
    elif c["retain"] and (n_cls, n_live) != (1, 0):
        # (empty result language: `_minify` returns empty_language(...) whose state is 0 — known finding F16, reported by
        # the small-instance generators; not judged again here)
        names = list(R.states)
        if not all(isinstance(x, frozenset) and x for x in names) or sum(len(x) for x in names) != len(frozenset().union(*names)):
            return "retained names are not pairwise disjoint non-empty sets"
    return None


def deep_run_calls(spec: dict, calls, rng, built=None):
    """All `calls` on ONE source object (and one B per distinct B spec); (index, message) of the first wrong one."""
    from harness import dfa_min_deep as MD
    src = built if built is not None else MD.build(spec)
    Bs = {}
    for i, c in enumerate(calls):
        B = None
        if c.get("B") is not None:
            key = json.dumps(c["B"], sort_keys=True)
            if key not in Bs:
                Bs[key] = MD.build(c["B"])
            B = Bs[key]
        msg = deep_judge_result(spec, c, src, deep_invoke(src, B, c), rng)
        if msg is not None:
            return i, msg
    return None


def deep_what(spec: dict, calls, msg: str) -> str:
    from harness import dfa_min_deep as MD
    c = calls[-1]
    hist = "; ".join(deep_show_call(x) for x in calls[:-1])
    return (f"{deep_show_call(c)} {msg} — source ({MD.n_states(spec)} states): {MD.expr(spec)}"
            + (f"; B ({MD.n_states(c['B'])} states): {MD.expr(c['B'])}" if c.get("B") is not None else "")
            + (f"; called on ONE object after [{hist}]" if hist else ""))


def deep_source_selfcheck(ctx: Ctx, spec: dict, src) -> bool:
    """The closed form vs the object as built: complete walk of a DFA's table, boundary words through accepts_input."""
    from harness import dfa_min_deep as MD
    L = MD.lang_of(spec)
    w = MD.bisim_counterexample(src, L) if isinstance(src, DFA) else None
    if w is None:
        for x in L.probe(ctx.rng):
            ctx.stat("deep:selfcheck_words_through_accepts_input")
            if call(lambda: src.accepts_input(x)) != ("ok", L.member(x)):
                w = x
                break
    if w is not None:
        ctx.stat("deep:selfcheck_disagreement")
        ctx.corr_diff("deep-closed-form", dict(automaton=MD.expr(spec), spec=spec, word=MD.short(w)),
                      dict(accepts_input=call(lambda: src.accepts_input(w))), dict(closed_form_member=L.member(w)))
        return False
    return True


def deep_stop(ctx: Ctx, fails0: int) -> bool:
    from harness import dfa_query_lib as QL
    return QL.TIMEOUTS >= 2 or ctx.n_prop_fails - fails0 >= 3


@guarded
def check_deep(ctx: Ctx, spec: dict, calls, fails0: int):
    from harness import dfa_min_deep as MD
    if deep_stop(ctx, fails0):
        ctx.stat("deep:skipped_after_failures")
        return
    b = call(lambda: MD.build(spec))
    if b[0] == "err":
        # whether the constructors work at such sizes is C15's / C01's statement
        ctx.stat("deep:construction_raised")
        ctx.corr_diff("deep-construction", dict(automaton=MD.expr(spec), spec=spec), f"raised {b[1]}", "an automaton")
        return
    src = b[1]
    ctx.stat(f"deep:source:{spec['kind']}")
    ctx.stat(f"deep:states:{len(src.states) // 500 * 500}+")
    ctx.stat("deep:closed_form_oracle_no_model_round_trip")
    if not deep_source_selfcheck(ctx, spec, src):
        return
    L = MD.lang_of(spec)
    if ctx.stats.get(f"deep:source:{spec['kind']}", 0) == 1:
        ctx.sample(dict(deep_source=MD.expr(spec), states=len(src.states), language=L.describe(),
                        closed_form_index=dict(zip(("classes", "live"), L.index())), calls=[deep_show_call(c) for c in calls]))
    Bs = {}
    for i, c in enumerate(calls):
        B = None
        if c.get("B") is not None:
            key = json.dumps(c["B"], sort_keys=True)
            if key not in Bs:
                Bs[key] = MD.build(c["B"])
                if not deep_source_selfcheck(ctx, c["B"], Bs[key]):
                    return
            B = Bs[key]
        ctx.stat(f"deep_op:{c['op']}:retain={int(c['retain'])}")
        res = deep_invoke(src, B, c)
        msg = deep_judge_result(spec, c, src, res, ctx.rng)
        cls, live = deep_result_lang(spec, c).index()
        merged = res[0] == "ok" and isinstance(res[1], DFA) and len(res[1].states) < len(src.states)
        if merged:
            ctx.stat("deep:merged_or_removed_states")
        ctx.case(("deep", json.dumps(spec, sort_keys=True), json.dumps(c, sort_keys=True)) if msg is None and cls >= 3 else None)
        if msg is None:
            continue
        # re-confirm on newly built objects: the call alone, else after the calls that preceded it on this object
        small = None
        for cand in ([c], list(calls[: i + 1])):
            r2 = deep_run_calls(spec, cand, ctx.rng)
            if r2 is not None and r2[0] == len(cand) - 1:
                small, msg = cand, r2[1]
                break
        if small is None:
            ctx.stat("deep:failure_not_reproduced")
            ctx.corr_diff("deep-not-reproduced", dict(automaton=MD.expr(spec), spec=spec, calls=list(calls[: i + 1])), msg,
                          "the same verdict on a rebuilt object")
            continue
        what = deep_what(spec, small, msg)
        ctx.prop_fail(what, dict(op="deep", automaton=MD.expr(spec), spec=spec, calls=small, what=what))
        if deep_stop(ctx, fails0):
            return


@guarded
def deep_small_twin(ctx: Ctx, spec: dict, calls):
    """The same shape at ≤ 12 states: every call judged by the closed form AND by the module's brute-force oracles
    (do_minify / via_op_case).  The two must agree — on an answer the brute-force oracles accept the closed form
    must not complain (InfraError: the closed form is wrong), and what they reject is reported by them."""
    from harness import dfa_min_deep as MD
    rng = ctx.rng
    tw = MD.shrink(spec, rng)
    src = MD.build(tw)
    ctx.stat("deep:small_twin")
    if not deep_source_selfcheck(ctx, tw, src):
        raise InfraError(f"C05 deep family: closed form and built object disagree on the small twin {MD.expr(tw)}")
    if isinstance(src, DFA):
        got = langoracle.nerode_index(src, src.input_symbols)
        if got != MD.lang_of(tw).index():
            raise InfraError(f"C05 deep family: closed-form index {MD.lang_of(tw).index()} ≠ brute-force Moore refinement {got} "
                             f"on {MD.expr(tw)}")
    seen = set()
    for c in calls:
        c = dict(c)
        if c.get("B") is not None:
            c["B"] = MD.shrink(c["B"], rng)
        key = (c["op"], c["retain"])
        if key in seen:
            continue
        seen.add(key)
        B = MD.build(c["B"]) if c.get("B") is not None else None
        before = ctx.n_prop_fails
        if c["op"] == "minify":
            do_minify(ctx, src, c["retain"], "deep_small_twin")
        elif c["op"] == "from_nfa":
            via_op_case(ctx, None, None, "from_nfa", c["retain"], N=src)
        else:
            via_op_case(ctx, src, B, c["op"], c["retain"])
        ctx.stat("deep:small_twin_calls_judged_by_both_oracles")
        res = deep_invoke(src, B, c)
        msg = deep_judge_result(tw, c, src, res, rng)
        if res[0] == "ok" and isinstance(res[1], DFA):
            got = langoracle.nerode_index(res[1], res[1].input_symbols)
            if ctx.n_prop_fails == before and got != deep_result_lang(tw, c).index():
                raise InfraError(f"C05 deep family: closed-form index {deep_result_lang(tw, c).index()} of the result language ≠ "
                                 f"brute force {got}: {deep_show_call(c)} on {MD.expr(tw)}")
        if msg is not None:
            if ctx.n_prop_fails == before:
                raise InfraError(f"C05 deep family: the closed-form judge complains ({msg}) about an answer the brute-force "
                                 f"oracles accept: {deep_show_call(c)} on {MD.expr(tw)}")
            return


def deep_plan(rng, thorough: bool):
    """[(spec, calls)] — sizes where the real code is linear (measured on the unchanged tree: every call ≤ 0.1 s at 3000 states)."""
    def calls(ops, B=None):
        out = []
        for op, r in ops:
            c = dict(op=op, retain=r)
            if op in DEEP_BOOL:
                c["B"] = B
            out.append(c)
        return out
    both = lambda op: [(op, False), (op, True)]  # noqa: E731
    unary = both("minify") + both("to_partial") + both("complement")
    plan = []
    # D1: of_length, bounded window: a complete chain of 1100–1500 states + dead state; Boolean operations with a second chain
    hi = rng.randint(1100, 1500)
    lo = hi - rng.choice([0, 1, 7, 40])
    hi2 = rng.randint(1100, hi + 200)
    B1 = dict(kind="of_length", lo=max(0, hi2 - rng.randint(0, 300)), hi=hi2)
    bools = [(op, rng.random() < 0.5) for op in DEEP_BOOL]
    plan.append((dict(kind="of_length", lo=lo, hi=hi), calls(unary + bools, B1)))
    # D2: of_length without upper bound: a chain of 2000–3000 states ending in a final self-loop (no dead class at all)
    plan.append((dict(kind="of_length", lo=rng.randint(2000, 3000), hi=None),
                 calls(both("minify") + [("to_partial", rng.random() < 0.5), ("complement", rng.random() < 0.5)])))
    # D3: from_finite_language with a 1500-symbol word and a one-letter word (partial, minimal: nothing may be merged)
    unit = rng.choice(["ab", "a", "aab", "ba"])
    reps = 1500 // len(unit)
    plan.append((dict(kind="finite_language", words=[[unit, reps, ""], ["b", 1, ""]]), calls(unary)))
    # D4: PARTIAL chain, every state doubled, sparse final positions, followed by a chain of 150–400 dead positions
    n = rng.randint(1100, 1400)
    fin = sorted({n} | {rng.randrange(n + 1) for _ in range(rng.randint(0, 6))})
    B4 = dict(kind="doubled", n=rng.randint(1100, 1400), finals=None, dead=0, complete=False)
    B4["finals"] = sorted({B4["n"]} | {rng.randrange(B4["n"] + 1) for _ in range(3)} | {p for p in fin[:2] if p <= B4["n"]})
    plan.append((dict(kind="doubled", n=n, finals=fin, dead=rng.randint(150, 400), complete=False),
                 calls(unary + [(op, rng.random() < 0.5) for op in DEEP_BOOL], B4)))
    # D5: COMPLETE chain, every state doubled, then 1100–1500 dead positions and a trap: all of them ONE class
    n = rng.randint(200, 400)
    fin = sorted({n} | {rng.randrange(n + 1) for _ in range(rng.randint(0, 4))})
    plan.append((dict(kind="doubled", n=n, finals=fin, dead=rng.randint(1100, 1500 - n // 2), complete=True),
                 calls(unary + [(rng.choice(list(DEEP_BOOL)), True)], B1)))
    # D6: 2–3 copies of a cycle of 1100–1400 states; 40 copies of a cycle of 60
    plan.append((dict(kind="cycles", k=rng.randint(2, 3), c=rng.randint(1100, 1400) if not thorough else rng.randint(1100, 3000)),
                 calls(unary)))
    plan.append((dict(kind="cycles", k=rng.randint(30, 50), c=rng.randint(50, 60)), calls(both("minify") + [("complement", True)])))
    # D7: NFA with two states per position: DFA.from_nfa(minify=True)
    n = rng.randint(1100, 1400)
    plan.append((dict(kind="nfa_doubled", n=n, finals=sorted({n, rng.randrange(n)})), calls(both("from_nfa"))))
    if thorough:
        for _ in range(6):
            n = rng.randint(1100, 2900)
            fin = sorted({n} | {rng.randrange(n + 1) for _ in range(rng.randint(0, 8))})
            plan.append((dict(kind="doubled", n=n, finals=fin, dead=rng.choice([0, 5, 1200]), complete=rng.random() < 0.5),
                         calls(unary + [(op, rng.random() < 0.5) for op in DEEP_BOOL],
                               dict(kind="of_length", lo=rng.randint(0, n), hi=rng.choice([None, n + rng.randint(0, 50)])))))
    return plan


def deep_family(ctx: Ctx):
    import time
    from harness import dfa_query_lib as QL
    QL.TIMEOUTS = 0
    t0 = time.time()
    fails0 = ctx.n_prop_fails
    plan = deep_plan(ctx.rng, ctx.thorough())
    for spec, calls in plan:
        deep_small_twin(ctx, spec, calls)
    for spec, calls in plan:
        check_deep(ctx, spec, calls, fails0)
    ctx.stat("deep:family_wall_seconds_x10", int(10 * (time.time() - t0)))
    ops = {k.split(":")[1] for k in ctx.stats if k.startswith("deep_op:")}
    missing = {"minify", "to_partial", "complement", "union", "inter", "diff", "symm", "from_nfa"} - ops
    if missing and ctx.n_prop_fails == fails0 and not ctx.stats.get("deep:skipped_after_failures"):
        ctx.corr_diff("deep-coverage", dict(missing=sorted(missing)), "operations not exercised on a deep instance", "all eight")


def run(ctx: Ctx):
    rng = ctx.rng
    deep_family(ctx)
    run_part_refine(ctx, ctx.budget(600, 20000))
    run_sequences(ctx, ctx.budget(500, 10000))
    run_mutable_option(ctx, ctx.budget(600, 12000))
    run_chains(ctx, ctx.budget(500, 10000))
    # 0. corpus: triggers of repaired defects (F1, F19, F16 neighbourhood)
    for A in corpus():
        for retain in (False, True):
            do_minify(ctx, A, retain, "corpus")
    # 1. bounded-exhaustive
    sizes = (1, 2, 3) if ctx.thorough() else (1, 2)
    for n in sizes:
        for A in gen.all_dfas(n, ("a", "b")):
            if n == 3 and rng.random() < 0.5:
                do_minify(ctx, A, rng.random() < 0.5, "exhaustive")
            else:
                do_minify(ctx, A, False, "exhaustive")
                if n < 3:
                    do_minify(ctx, A, True, "exhaustive")
    ctx.exhaustive(f"all DFAs with ≤{sizes[-1]} states over {{a,b}} (complete and partial, every final set)"
                   + (" — 3-state ones with one retain_names value each" if ctx.thorough() else ""))
    # 2. shaped random
    for _ in range(ctx.budget(2500, 60000)):
        A = gen.rand_dfa(rng, 7)
        do_minify(ctx, A, rng.random() < 0.5, "random")
    for _ in range(ctx.budget(800, 20000)):
        al = rng.choice(gen.ALPHABETS)
        do_minify_via_op(ctx, gen.rand_dfa(rng, 4, al), gen.rand_dfa(rng, 4, al), "random_via_op")
    for _ in range(ctx.budget(400, 10000)):
        do_minify_via_op(ctx, None, None, "random_via_from_nfa", N=gen.rand_nfa(rng, 5))


def search(ctx: Ctx):
    """Deeper failing-input search: larger sweep biased to partial sources with explicit
    transitions into dead states, unreachable parts and trap-like names."""
    rng = ctx.rng
    for _ in range(ctx.budget(15000, 80000)):
        if ctx.n_prop_fails:
            return
        k = rng.random()
        if k < 0.6:
            names = None
            if rng.random() < 0.5:
                pool = [-1, -2, -3, 0, 1, 2, 3, "x"]
                rng.shuffle(pool)
                names = pool[:rng.randint(2, 7)]
            do_minify(ctx, gen.rand_dfa(rng, 7, partial=True if rng.random() < 0.7 else None, names=names),
                      rng.random() < 0.5, "search")
        else:
            al = rng.choice(gen.ALPHABETS)
            do_minify_via_op(ctx, gen.rand_dfa(rng, 5, al), gen.rand_dfa(rng, 4, al), "search")
            run_sequences(ctx, 1)
            run_mutable_option(ctx, 1)


def corpus():
    out = []
    # F1: explicit transition into a dead state of a partial DFA
    out.append(DFA(states={0, 1, 2, 3}, input_symbols={"a", "b"},
                   transitions={0: {"a": 3, "b": 2}, 1: {"a": 1}, 2: {"a": 3, "b": 0}, 3: {"a": 1, "b": 2}},
                   initial_state=0, final_states={2}, allow_partial=True))
    # F19: pruned states named like the implicit trap
    x = "x"
    out.append(DFA(states={x, 0, 2, -1, -2}, input_symbols={"a", "b"},
                   transitions={x: {"b": 0}, 2: {"a": -2, "b": 2}, 0: {"a": 2, "b": 0}, -2: {"a": x, "b": x},
                                -1: {"a": 2, "b": 0}},
                   initial_state=x, final_states={x}, allow_partial=True))
    # all-dead partial DFA
    out.append(DFA(states={0, 1}, input_symbols={"a"}, transitions={0: {"a": 1}, 1: {}}, initial_state=0,
                   final_states=set(), allow_partial=True))
    return out


def replay(ctx: Ctx, path: str) -> int:
    data = json.load(open(path))
    rp = data.get("replay", data)
    env = {"DFA": DFA, "frozenset": frozenset}
    if rp.get("op") == "part_refine":
        print("replay: PART_REFINE cases are correspondence-only (model vs. PartitionRefinement); re-run by seed")
        return 0
    if rp.get("op") == "deep":
        import random
        r = deep_run_calls(rp["spec"], rp["calls"], random.Random(0))
        if r is not None and r[0] == len(rp["calls"]) - 1:
            print(f"VIOLATION property=C05 replay={path}")
            print("  " + deep_what(rp["spec"], rp["calls"], r[1]))
            return 1
        print("replay: property holds on this input now")
        return 0
    if rp.get("op") == "chain":
        from automata.fa.nfa import NFA
        N = eval(rp["N"], dict(env, NFA=NFA)) if rp.get("N") else None
        do_chain(ctx, eval(rp["A"], env) if N is None else None, eval(rp["B"], env), [tuple(c) for c in rp["chain"]], "replay", N=N)
    elif rp.get("op") == "sequence" and rp.get("mutable"):
        do_mutable_sequence(ctx, eval(rp["A"], env), eval(rp["B"], env), rp.get("pre", []), rp["steps"],
                            rp.get("option_during_calls", True), "replay")
    elif rp.get("op") == "sequence":
        do_sequence(ctx, eval(rp["A"], env), eval(rp["B"], env), rp["steps"], "replay")
    elif rp.get("via"):
        print("replay: via-operation cases are replayed through C04's replay of the same operands")
        from harness.ops.C04 import OPS
        if rp["op"] == "from_nfa":
            from automata.fa.nfa import NFA
            N = eval(rp["N"], dict(env, NFA=NFA))
            exp = None
            if rp["retain_names"]:
                P = DFA.from_nfa(N, retain_names=True, minify=False)
                exp = expected_block_names(P.transitions, set(P.states), set(P.final_states), P.input_symbols)
            check_min_props(ctx, "from_nfa", [N], lambda x: x, DFA.from_nfa(N, retain_names=rp["retain_names"], minify=True),
                            rp, N.input_symbols, expected_names=exp)
            A = None
        else:
            A = eval(rp["A"], env)
        if A is None:
            pass
        elif rp["op"] in OPS:
            R = OPS[rp["op"]][0](A, eval(rp["B"], env), retain_names=rp["retain_names"], minify=True)
            check_min_props(ctx, rp["op"], [A, eval(rp["B"], env)], OPS[rp["op"]][1], R, rp, A.input_symbols)
        elif rp["op"] == "complement":
            check_min_props(ctx, "complement", [A], lambda x: not x, A.complement(retain_names=rp["retain_names"], minify=True), rp, A.input_symbols)
        else:
            check_min_props(ctx, "to_partial", [A], lambda x: x, A.to_partial(retain_names=rp["retain_names"], minify=True), rp, A.input_symbols)
    else:
        do_minify(ctx, eval(rp["A"], env), rp["retain_names"], "replay")
    if ctx.prop_fails:
        print(f"VIOLATION property=C05 replay={path}")
        print("  " + ctx.prop_fails[0]["what"])
        return 1
    print("replay: property holds on this input now")
    return 0
