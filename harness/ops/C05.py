"""C05 — minimisation preserves the language and reaches the minimum state count.

Correspondence: DFA_MINIFY (direct `minify(retain_names)`) and the minify=True paths of
the other operations (through the C04/C07 commands) — the real result vs. the Lean model
of `_minify` (Hopcroft refinement with the implicit trap, arbitrary pop order), compared
in canonical form; with retained names the blocks themselves are compared.
Property oracle (independent of the model): result validates; complete product search
finds no word distinguishing source and result; the number of states equals the
Myhill–Nerode index computed by an independent Moore refinement (complete result) or
the number of live residual classes, at least one (partial result); a partial result
has no dead state unless it is its only state; minimising the result again keeps its
size; retained names are disjoint frozensets of source states.
"""
from __future__ import annotations

import json

from automata.fa.dfa import DFA

from harness import gen, langoracle
from harness.common import guarded, Ctx, Names, Toks, call, enc_dfa, toks
from harness.dfaops_common import (check_valid, lang_mismatch, parse_canon, py_canon, render_block)
from harness.ops.C04 import reachable_count

LEVEL = "proof"
RULE = ("cases = (DFA, retain_names) for minify(), plus minify=True paths of union/intersection/difference/"
        "symmetric difference/complement/to_partial/from_nfa; all DFAs with ≤2 states over {a,b} (quick) and ≤3 "
        "states over {a,b} incl. partial ones (thorough), then shaped random DFAs ≤7 states: unreachable states, "
        "dead states entered explicitly, dead/non-final initial state, empty/universal languages, duplicated "
        "states, adversarial name pools (-1,-2,… / tuples / frozensets); sequences of 2–4 calls on ONE object (at least one "
        "with minify=True, whose result is checked for language and minimality); non-trivial = source has ≥3 reachable "
        "states and minimisation merges or removes at least one of them; distinct = distinct encoded sources")
ASSUMPTIONS = [
    "sources are valid DFAs built through the real constructor; no state is literally None",
    "the result is compared up to renaming of states (block ids / counter values are arbitrary)",
]
EXPLANATION = ("Theorems C05_* (Props/C05.lean) are about the model of _minify; this run ties the model to the code and "
               "evaluates language preservation and exact minimality on the real results with independent oracles.")


def dead_states(d: DFA):
    """States of d from which no final state is reachable."""
    live = set(d.final_states)
    changed = True
    while changed:
        changed = False
        for q, row in d.transitions.items():
            if q not in live and any(t in live for t in row.values()):
                live.add(q)
                changed = True
    return set(d.states) - live


def check_min_props(ctx: Ctx, what: str, src_machines, spec, R: DFA, replay: dict, alphabet, retain_src=None) -> bool:
    bad = check_valid(R)
    if bad:
        ctx.prop_fail(f"{what}: result does not validate ({bad})", replay)
        return False
    w = lang_mismatch(src_machines, R, alphabet, spec)
    if w is not None:
        ctx.prop_fail(f"{what}: minimised result and source disagree on word {w!r}", dict(replay, word=w))
        return False
    n_classes, n_live = langoracle.nerode_index(R, alphabet)
    really_partial = any(len(row) != len(alphabet) for row in R.transitions.values())
    want = max(1, n_live) if really_partial else n_classes
    if len(R.states) != want:
        kind = "partial" if really_partial else "complete"
        ctx.prop_fail(f"{what}: {kind} result has {len(R.states)} states, the minimum is {want} "
                      f"(Nerode index {n_classes}, live classes {n_live})", replay)
        return False
    if really_partial and len(R.states) > 1 and dead_states(R):
        ctx.prop_fail(f"{what}: partial result keeps a dead state", replay)
        return False
    again = call(lambda: R.minify())
    if again[0] == "err" or len(again[1].states) != len(R.states):
        ctx.prop_fail(f"{what}: minimising the minimal result changes its size "
                      f"({len(R.states)} → {again[1] if again[0]=='err' else len(again[1].states)})", replay)
        return False
    if retain_src is not None:
        names = list(R.states)
        if not all(isinstance(x, frozenset) and x and x <= set(retain_src) for x in names):
            # open known finding F16: when every kept state is dead `_minify` returns
            # `empty_language(...)`, whose single state is named 0 instead of the set of merged states
            f16 = (len(names) == 1 and names[0] == 0 and not isinstance(names[0], frozenset) and not R.final_states
                   and langoracle.find_word([R], alphabet, lambda v: v[0]) is None)
            ctx.prop_fail(f"{what}: retained names are not non-empty sets of source states: {names!r}", replay,
                          "C05:retain_names:empty-language-state-0" if f16 else None)
            return bool(f16)
        seen = set()
        for x in names:
            if seen & x:
                ctx.prop_fail(f"{what}: retained names overlap", replay)
                return False
            seen |= x
    return True


@guarded
def do_minify(ctx: Ctx, A: DFA, retain: bool, origin: str):
    drv = ctx.driver("drv_dfa_ops")
    encA, stA, sy = enc_dfa(A)
    replay = dict(op="minify", retain_names=retain, A=repr(A))
    res = call(lambda: A.minify(retain_names=retain))
    ctx.stat(origin)
    ctx.stat("source_partial" if A.allow_partial else "source_complete")
    if res[0] == "err":
        ctx.case(None)
        ctx.prop_fail(f"minify(retain_names={retain}) raised {res[1]} on a valid DFA", replay)
        return
    R = res[1]
    ok = check_min_props(ctx, f"minify(retain_names={retain})", [A], lambda x: x, R, replay, A.input_symbols,
                         retain_src=A.states if retain else None)
    rc = reachable_count(A)
    ctx.case(("minify", retain, encA) if ok and rc >= 3 and len(R.states) < rc else None)
    if len(R.states) < rc:
        ctx.stat("merged_or_removed_states")
    if dead_states(A) & set(_reach(A)):
        ctx.stat("source_has_reachable_dead_state")
    if rc < len(A.states):
        ctx.stat("source_has_unreachable_state")
    if any(isinstance(q, int) and q < 0 for q in A.states):
        ctx.stat("source_has_negative_int_names")
    if R.allow_partial:
        ctx.stat("result_partial")
    line = drv.ask(toks("DFA_MINIFY", retain, ctx.rng.randrange(1000), encA))
    mod = parse_canon(Toks(line[3:]))
    imp = py_canon(R, sy, render_block(lambda q: str(stA(q))) if retain else None)
    if ctx.evaluations % 397 == 1:
        ctx.sample(dict(source=repr(A), retain_names=retain, result=repr(R), canonical=imp))
    if imp != mod and ok:
        ctx.corr_diff("DFA_MINIFY", replay, imp, mod)


def _reach(d: DFA):
    seen = {d.initial_state}
    work = [d.initial_state]
    while work:
        q = work.pop()
        for t in d.transitions[q].values():
            if t not in seen:
                seen.add(t)
                work.append(t)
    return seen


@guarded
def do_minify_via_op(ctx: Ctx, A: DFA, B: DFA, origin: str):
    """minify=True paths of other operations: minimality of their results."""
    from harness.ops.C04 import OPS
    rng = ctx.rng
    opname = rng.choice(list(OPS) + ["complement", "to_partial"])
    retain = rng.random() < 0.5
    ctx.stat("via_" + opname)
    if opname in OPS:
        impl_f, spec, _ = OPS[opname]
        res = call(lambda: impl_f(A, B, retain_names=retain, minify=True))
        srcs, sp = [A, B], spec
        replay = dict(op=opname, via=True, retain_names=retain, A=repr(A), B=repr(B))
    elif opname == "complement":
        res = call(lambda: A.complement(retain_names=retain, minify=True))
        srcs, sp = [A], (lambda x: not x)
        replay = dict(op=opname, via=True, retain_names=retain, A=repr(A))
    else:
        res = call(lambda: A.to_partial(retain_names=retain, minify=True))
        srcs, sp = [A], (lambda x: x)
        replay = dict(op=opname, via=True, retain_names=retain, A=repr(A))
    if res[0] == "err":
        ctx.case(None)
        ctx.prop_fail(f"{opname}(minify=True) raised {res[1]}", replay)
        return
    R = res[1]
    ok = check_min_props(ctx, f"{opname}(retain_names={retain}, minify=True)", srcs, sp, R, replay, A.input_symbols)
    ctx.case(("via", opname, retain, repr(A), repr(B)) if ok and len(R.states) >= 2 else None)


@guarded
def do_sequence(ctx: Ctx, d: DFA, b: DFA, steps, origin: str):
    """Calls on ONE object: every minify=True result is evaluated for language AND minimality; the other
    steps are executed (they are what may disturb per-object caches) and evaluated by C04."""
    from harness import dfa_sequences

    def on_dfa(what, srcs, spec, R, replay, minified):
        if not minified:
            return True
        return check_min_props(ctx, what, srcs, spec, R, replay, d.input_symbols)
    dfa_sequences.run_sequence(ctx, d, b, steps, origin, on_dfa)


def run_sequences(ctx: Ctx, n: int):
    from harness import dfa_sequences
    rng = ctx.rng
    for _ in range(n):
        al = rng.choice(gen.ALPHABETS)
        d = gen.rand_dfa(rng, 5, al, partial=False if rng.random() < 0.5 else None)
        b = gen.rand_dfa(rng, 4, al)
        steps = dfa_sequences.draw_steps(rng)
        if not any(dfa_sequences.STEPS[s][3] for s in steps):
            steps.append(rng.choice([s for s in dfa_sequences.STEP_NAMES if dfa_sequences.STEPS[s][3]]))
        do_sequence(ctx, d, b, steps, "sequence_on_one_object")


def run(ctx: Ctx):
    rng = ctx.rng
    run_sequences(ctx, ctx.budget(500, 10000))
    # 0. corpus: triggers of repaired defects (F1, F19, F16 neighbourhood)
    for A in corpus():
        for retain in (False, True):
            do_minify(ctx, A, retain, "corpus")
    # 1. bounded-exhaustive
    sizes = (1, 2, 3) if ctx.thorough() else (1, 2)
    for n in sizes:
        for A in gen.all_dfas(n, ("a", "b")):
            if n == 3 and rng.random() < 0.5:
                do_minify(ctx, A, rng.random() < 0.5, "exhaustive")
            else:
                do_minify(ctx, A, False, "exhaustive")
                if n < 3:
                    do_minify(ctx, A, True, "exhaustive")
    ctx.exhaustive(f"all DFAs with ≤{sizes[-1]} states over {{a,b}} (complete and partial, every final set)"
                   + (" — 3-state ones with one retain_names value each" if ctx.thorough() else ""))
    # 2. shaped random
    for _ in range(ctx.budget(2500, 60000)):
        A = gen.rand_dfa(rng, 7)
        do_minify(ctx, A, rng.random() < 0.5, "random")
    for _ in range(ctx.budget(800, 20000)):
        al = rng.choice(gen.ALPHABETS)
        do_minify_via_op(ctx, gen.rand_dfa(rng, 4, al), gen.rand_dfa(rng, 4, al), "random_via_op")


def search(ctx: Ctx):
    """Deeper failing-input search: larger sweep biased to partial sources with explicit
    transitions into dead states, unreachable parts and trap-like names."""
    rng = ctx.rng
    for _ in range(ctx.budget(15000, 80000)):
        if ctx.n_prop_fails:
            return
        k = rng.random()
        if k < 0.6:
            names = None
            if rng.random() < 0.5:
                pool = [-1, -2, -3, 0, 1, 2, 3, "x"]
                rng.shuffle(pool)
                names = pool[:rng.randint(2, 7)]
            do_minify(ctx, gen.rand_dfa(rng, 7, partial=True if rng.random() < 0.7 else None, names=names),
                      rng.random() < 0.5, "search")
        else:
            al = rng.choice(gen.ALPHABETS)
            do_minify_via_op(ctx, gen.rand_dfa(rng, 5, al), gen.rand_dfa(rng, 4, al), "search")
            run_sequences(ctx, 1)


def corpus():
    out = []
    # F1: explicit transition into a dead state of a partial DFA
    out.append(DFA(states={0, 1, 2, 3}, input_symbols={"a", "b"},
                   transitions={0: {"a": 3, "b": 2}, 1: {"a": 1}, 2: {"a": 3, "b": 0}, 3: {"a": 1, "b": 2}},
                   initial_state=0, final_states={2}, allow_partial=True))
    # F19: pruned states named like the implicit trap
    x = "x"
    out.append(DFA(states={x, 0, 2, -1, -2}, input_symbols={"a", "b"},
                   transitions={x: {"b": 0}, 2: {"a": -2, "b": 2}, 0: {"a": 2, "b": 0}, -2: {"a": x, "b": x},
                                -1: {"a": 2, "b": 0}},
                   initial_state=x, final_states={x}, allow_partial=True))
    # all-dead partial DFA
    out.append(DFA(states={0, 1}, input_symbols={"a"}, transitions={0: {"a": 1}, 1: {}}, initial_state=0,
                   final_states=set(), allow_partial=True))
    return out


def replay(ctx: Ctx, path: str) -> int:
    data = json.load(open(path))
    rp = data.get("replay", data)
    env = {"DFA": DFA, "frozenset": frozenset}
    if rp.get("op") == "sequence":
        do_sequence(ctx, eval(rp["A"], env), eval(rp["B"], env), rp["steps"], "replay")
    elif rp.get("via"):
        print("replay: via-operation cases are replayed through C04's replay of the same operands")
        A = eval(rp["A"], env)
        from harness.ops.C04 import OPS
        if rp["op"] in OPS:
            R = OPS[rp["op"]][0](A, eval(rp["B"], env), retain_names=rp["retain_names"], minify=True)
            check_min_props(ctx, rp["op"], [A, eval(rp["B"], env)], OPS[rp["op"]][1], R, rp, A.input_symbols)
        elif rp["op"] == "complement":
            check_min_props(ctx, "complement", [A], lambda x: not x, A.complement(retain_names=rp["retain_names"], minify=True), rp, A.input_symbols)
        else:
            check_min_props(ctx, "to_partial", [A], lambda x: x, A.to_partial(retain_names=rp["retain_names"], minify=True), rp, A.input_symbols)
    else:
        do_minify(ctx, eval(rp["A"], env), rp["retain_names"], "replay")
    if ctx.prop_fails:
        print(f"VIOLATION property=C05 replay={path}")
        print("  " + ctx.prop_fails[0]["what"])
        return 1
    print("replay: property holds on this input now")
    return 0
