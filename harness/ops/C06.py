"""C06 — DFA language comparisons, emptiness and finiteness decisions are exact.

Correspondence: DFA_CMP (== != <= < >= > issubset issuperset isdisjoint) and
DFA_EMPTYFIN (isempty, isfinite, maximum_word_length) — real code vs. the Lean model of
the Hopcroft–Karp union–find loop, `_find_state` over the lazy product and the trimmed
digraph.  Property oracle (independent of both): complete product search over pairs of
states for a word in the symmetric difference / in A∖B / in A∩B; emptiness by
reachability of a final state; finiteness by cycle detection on the useful states.
Round 7: deep / large operand pairs (1100–3000 states) judged by closed form — see `deep_large_family` and
harness/dfa_cmp_deep.py.
"""
from __future__ import annotations

import json
import os
import sys

from automata.fa.dfa import DFA

from harness import gen, langoracle
from harness import dfa_history_lib as H
from harness import dfa_cmp_deep as DC
from harness.common import guarded, Ctx, Toks, call, enc_dfa, sym_names, toks
from harness.ops.C04 import reachable_count

LEVEL = "proof"
RULE = ("cases = ordered pairs of valid DFAs over one alphabet (and single DFAs for isempty/isfinite); seeded slice "
        "(quick) / all (thorough) pairs of DFAs with ≤2 states over {a,b}; shaped random pairs ≤6 states incl. "
        "language-equal pairs (renamed / minimised / completed / padded with unreachable and dead states), pairs "
        "differing on exactly one deep state's finality, strict sub-languages (intersection / union with a third "
        "DFA), partial×complete mixes; non-trivial = both have ≥2 reachable states and both languages are non-empty; "
        "distinct = distinct encoded pairs; deep_pair family: of_length(k) vs of_length(k+1), {w} vs {w'} with |w| = 12..20 "
        "differing in the last symbol, unary cycles (languages that differ only on one long word); empty-alphabet "
        "DFAs; pairs sharing one transition table and final set but started in different states; derived-after-query "
        "(query A, then B = A.complement(minify=False) / to_complete / copy / …, then query and compare B); "
        "mutable-automata option with plain set/dict containers, queries first, then all comparisons judged on the "
        "definition as built; every cached query (isempty / isfinite / maximum_word_length) is called a second time on the same object "
        "and once more after another operation; probe family: the same queries called on a temporary (an object no "
        "variable refers to) — open finding C06:cached-query-on-temporary; round 4: anchor streams = ONE long-lived DFA "
        "against a stream of 30–60 temporaries that are built, compared and dropped (all nine comparisons, the long-lived "
        "object on the left and on the right; temporaries = random DFAs, variants of the anchor, empty / universal "
        "language; replay = the whole stream); histories = 2–4 rounds of (1–3 queries of the OTHER query families — "
        "count_words_of_length / words_of_length / iteration prefix / successor(s) / predecessor(s) / minimum / "
        "maximum_word_length / cardinality / len / random_word / clear_cache, lengths around n and 2n — then isempty / "
        "isfinite / the nine comparisons) on the same two objects, plus every DFA with ≤2 states over {a,b} and every "
        "unary DFA with ≤3 states × one counting / sampling / enumeration query of length k ≤ 2n+1 before isempty / "
        "isfinite (every 4th combination in the quick tier); every C06 answer judged on the definition, failing "
        "histories minimised into concrete replays; round 7: deep_large family = 17 PAIR templates, every one in every "
        "run, of automata with 1100–3000 states built by the library's constructors (of_length exact n vs n+1, ≤ n vs "
        "≤ n+1, ≥ n vs ≥ n+1; from_finite_language {a^n} vs of_length(n, n), {(ab)^m} vs {(ab)^(m-1)aa}, vs one more "
        "word; hand-written partial chains with one final state toggled at the far end / the last edge relabelled / no "
        "final state at all; chains ending in a cycle with a final state toggled on the cycle, dead cycle vs live "
        "cycle, a lasso vs the same language with the cycle unrolled twice (equal, and with one final state toggled); "
        "count_mod m vs 2m with m = 1100–1300 (equal / strict subset); a counter mod m = 1100–3000 with the final state "
        "m-1 toggled; two counters with coprime moduli 90–140 whose only common words start at depth m1·m2-1 — the one "
        "inherently quadratic shape), partners differing only AT DEPTH or not at all; per pair: all nine comparisons "
        "in BOTH operand orders + isempty / isfinite of both operands = 22 answers, each under a watchdog, judged by the "
        "CLOSED FORM of the two languages (ultimately periodic length slices, integer arithmetic; no model round trip "
        "for the large pairs); the closed form is tied to the built objects by accepts_input on boundary words and by "
        "small twins (same templates, 3–9 states) on which it must coincide with the product-search / reachability / "
        "cycle oracles and which also go through the model; sizes drawn from the seed; a wrong answer is re-asked "
        "alone on newly built objects and recorded as a replay of the two specs + the query")
ASSUMPTIONS = ["operands are valid DFAs over the same alphabet (different alphabets are outside the property)",
               "deep_large family: the closed form (harness/dfa_cmp_deep.py) describes the language the constructor is "
               "documented to build; it is tied to the object actually built by accepts_input on boundary words of both "
               "operands (a disagreement is reported as a correspondence difference, the pair is then not judged) — that "
               "the constructors build the right automaton at these sizes is C15's statement; a real call that does not "
               "answer within 8 s counts as a wrong answer (no C06 decision needs more than 0.15 s at these sizes on the "
               "unchanged tree)",
               "histories: the queries asked between the C06 queries are read-only queries of the public DFA API with "
               "arguments in their own domains (lengths ≥ 0, start strings over the alphabet, forward successor search with a "
               "max_length); their answers are not judged here (C13 / C14 own them) — only what they leave behind matters",
               "input symbols are single characters (a multi-character symbol validates, but Python strings are read "
               "character by character, so the graph-based isempty/isfinite and the string language then talk about "
               "different things — documented domain restriction, reviewer item X3)",
               "object lifetime is outside the Lean model: the model's isempty/isfinite are total functions of the "
               "definition; the RuntimeError of a cached query on a garbage-collected temporary (third-party "
               "cached_method keeps only a weak reference) is exercised by the probe family and reported under the open "
               "finding C06:cached-query-on-temporary; no Lean witness is possible for it"]
EXPLANATION = ("Theorems C06_* (Props/C06.lean) are about the model, for operands of any size; this run ties the model to "
               "the code on small operands and evaluates every answer of the real code against an independent complete "
               "product search.  The proofs have no size bound but the correspondence is sampled, so the real code is also "
               "asked at sizes where an implementation — unlike the model — can start to fail: pairs of DFAs with "
               "1100–3000 states (beyond Python's frame limit, beyond small cache / buffer / work bounds) whose languages "
               "differ only at the far end, all nine comparisons in both operand orders and isempty / isfinite, judged by "
               "a closed form computed from the construction parameters (neither the library nor the model is asked).")

NAMES = ["==", "!=", "<=", "<", ">=", ">", "issubset", "issuperset", "isdisjoint"]
FINDING_TEMP = "C06:cached-query-on-temporary"


def truth(A: DFA, B: DFA):
    al = A.input_symbols
    eq = langoracle.find_word([A, B], al, lambda v: v[0] != v[1]) is None
    le = langoracle.find_word([A, B], al, lambda v: v[0] and not v[1]) is None
    ge = langoracle.find_word([A, B], al, lambda v: v[1] and not v[0]) is None
    dj = langoracle.find_word([A, B], al, lambda v: v[0] and v[1]) is None
    return [eq, not eq, le, le and not eq, ge, ge and not eq, le, ge, dj]


def witness(A, B, name):
    al = A.input_symbols
    if name in ("==", "!=", "<", ">"):
        return langoracle.find_word([A, B], al, lambda v: v[0] != v[1])
    if name in ("<=", "issubset"):
        return langoracle.find_word([A, B], al, lambda v: v[0] and not v[1])
    if name in (">=", "issuperset"):
        return langoracle.find_word([A, B], al, lambda v: v[1] and not v[0])
    return langoracle.find_word([A, B], al, lambda v: v[0] and v[1])


def is_empty(d: DFA) -> bool:
    return langoracle.find_word([d], d.input_symbols, lambda v: v[0]) is None


def is_finite(d: DFA) -> bool:
    # useful states = reachable and co-reachable; finite iff no cycle among them
    reach = {d.initial_state}
    work = [d.initial_state]
    while work:
        q = work.pop()
        for t in d.transitions[q].values():
            if t not in reach:
                reach.add(t)
                work.append(t)
    live = set(d.final_states)
    changed = True
    while changed:
        changed = False
        for q, row in d.transitions.items():
            if q not in live and any(t in live for t in row.values()):
                live.add(q)
                changed = True
    useful = reach & live
    color = {}

    def dfs(q):
        color[q] = 1
        for t in d.transitions[q].values():
            if t in useful:
                c = color.get(t, 0)
                if c == 1 or (c == 0 and dfs(t)):
                    return True
        color[q] = 2
        return False
    return not any(color.get(q, 0) == 0 and dfs(q) for q in useful)


@guarded
def do_cmp(ctx: Ctx, A: DFA, B: DFA, origin: str, refA=None, refB=None, history=None):
    """refA / refB: the operands' definitions AS BUILT (frozen reference objects) when A / B are live objects
    that earlier calls may have disturbed (mutable-automata option, shared caches): the real comparisons are
    asked of A and B, the oracle and the model see the references."""
    drv = ctx.driver("drv_dfa_ops")
    impl = [call(f) for f in (lambda: A == B, lambda: A != B, lambda: A <= B, lambda: A < B, lambda: A >= B,
                              lambda: A > B, lambda: A.issubset(B), lambda: A.issuperset(B), lambda: A.isdisjoint(B))]
    # NB: never `refA or A` — bool(DFA) is len(DFA), which raises for an infinite language
    A = A if refA is None else refA
    B = B if refB is None else refB
    replay = dict(op="cmp", A=repr(A), B=repr(B))
    if history:
        replay["history"] = history
    encA, stA, sy = enc_dfa(A)
    encB, stB, _ = enc_dfa(B, sy=sy)
    want = truth(A, B)
    ctx.stat(origin)
    ok = True
    for name, got, w in zip(NAMES, impl, want):
        if got != ("ok", w):
            ok = False
            wit = witness(A, B, name)
            ctx.prop_fail((f"after [{history}]: " if history else "")
                          + f"A {name} B answered {got[1] if got[0]=='ok' else 'raised '+got[1]} but the languages say {w}"
                          + (f" (witness word {wit!r}: A accepts {A.accepts_input(wit)}, B accepts {B.accepts_input(wit)})" if wit is not None else ""),
                          dict(replay, comparison=name, witness=wit))
    nt = reachable_count(A) >= 2 and reachable_count(B) >= 2 and not is_empty(A) and not is_empty(B)
    ctx.case(("cmp", encA, encB) if nt else None)
    ctx.stat("equal_languages" if want[0] else ("strict_subset" if want[3] or want[5] else ("disjoint" if want[8] else "overlapping")))
    if A.allow_partial != B.allow_partial:
        ctx.stat("partial_x_complete")
    line = drv.ask(toks("DFA_CMP", encA, encB))
    if ctx.evaluations % 397 == 1:
        ctx.sample(dict(A=repr(A), B=repr(B), answers=dict(zip(NAMES, [g[1] for g in impl])), model=line))
    if line.startswith("ok "):
        mod = [("ok", bool(int(x))) for x in line.split()[1:]]
    else:
        mod = line
    if mod != impl and ok:
        ctx.corr_diff("DFA_CMP", replay, impl, mod)
    # `==` through the pick-parametric Hopcroft–Karp loop (networkx policy with both tie-breaks, the two
    # constant policies, the fixed-direction eqv): all five must be the code's answer (C06_eq_iff_pick)
    pk = drv.ask(toks("DFA_EQ_PICK", encA, encB)).split()
    want_pk = [("1" if impl[0][1] else "0") if impl[0][0] == "ok" else "?"] * 5
    if ok and pk != want_pk:
        ctx.corr_diff("DFA_EQ_PICK", replay, want_pk, pk)


@guarded
def do_emptyfin(ctx: Ctx, A: DFA, origin: str, model_max_states: int = 7, ref=None, history=None):
    drv = ctx.driver("drv_dfa_ops")
    O = A if ref is None else ref  # the definition as built: what the oracle and the model see
    encA, stA, sy = enc_dfa(O)
    replay = dict(op="emptyfin", A=repr(O))
    if history:
        replay["history"] = history
    e, f = call(lambda: A.isempty()), call(lambda: A.isfinite())
    we, wf = is_empty(O), is_finite(O)
    ctx.stat(origin)
    ctx.stat("empty" if we else ("finite" if wf else "infinite"))
    ok = True
    if e != ("ok", we):
        ok = False
        ctx.prop_fail((f"after [{history}]: " if history else "")
                      + f"isempty answered {e} but the language is {'empty' if we else 'non-empty'}", replay)
    if f != ("ok", wf):
        ok = False
        ctx.prop_fail((f"after [{history}]: " if history else "")
                      + f"isfinite answered {f} but the language is {'finite' if wf else 'infinite'}", replay)
    ctx.case(("emptyfin", encA) if reachable_count(O) >= 2 and not we else None)
    mwl = call(lambda: A.maximum_word_length())
    if len(O.states) <= model_max_states:
        line = drv.ask(toks("DFA_EMPTYFIN", encA)).split()
        mod = (bool(int(line[0])), bool(int(line[1])))
        if ok and mod != (we, wf):
            ctx.corr_diff("DFA_EMPTYFIN", replay, (we, wf), mod)
        # maximum_word_length as a by-product (C13 owns it): compare when the model answers
        m_mwl = (line[2], line[3] if len(line) > 3 else "")
        want = ("err", "EmptyLanguageException") if mwl[0] == "err" else ("ok", "N" if mwl[1] is None else str(mwl[1]))
        if ok and m_mwl != want:
            ctx.corr_diff("DFA_EMPTYFIN.max_word_length", replay, want, m_mwl)
    else:
        # the model's `longestPath` is a specification-style contract (walkLevel is re-computed per level):
        # exponential to *execute* on long chains / cycles; deep DFAs are checked against the oracle only
        ctx.stat("emptyfin_oracle_only_large")
    # the three queries are @cached_method: a second call on the same object, and a call after other
    # operations on it (which must not disturb the cache), must give the same — exact — answers
    e2, f2, mwl2 = call(lambda: A.isempty()), call(lambda: A.isfinite()), call(lambda: A.maximum_word_length())
    call(lambda: A.minify())
    call(lambda: A == A)
    call(lambda: A.accepts_input(""))
    e3, f3, mwl3 = call(lambda: A.isempty()), call(lambda: A.isfinite()), call(lambda: A.maximum_word_length())
    ctx.stat("cached_query_repeated")
    if (e2, f2, mwl2) != (e, f, mwl) or (e3, f3, mwl3) != (e, f, mwl):
        ctx.prop_fail(f"repeated isempty/isfinite/maximum_word_length on one object changed their answers: first "
                      f"{(e, f, mwl)}, second {(e2, f2, mwl2)}, after minify/==/accepts_input {(e3, f3, mwl3)} "
                      f"(language is {'empty' if we else 'non-empty'}, {'finite' if wf else 'infinite'})",
                      dict(replay, repeated=True))


# ------------------------------------------------------------------ probe: queries on temporaries
def probe_temporaries(ctx: Ctx):
    """isempty()/isfinite() asked of an object that no variable refers to.  In-domain: the DFA is a
    valid one and the property says what the answer must be; the expected value is computed by the
    independent oracles on a BOUND copy of the same value."""
    rng = ctx.rng

    def one(text, thunk, bound, query, replay):
        want = is_empty(bound) if query == "isempty" else is_finite(bound)
        got = call(thunk)
        ctx.case(None)
        ctx.stat("probe_temporary")
        if got == ("ok", want):
            ctx.stat("probe_temporary_answered")
            return
        if got == ("err", "RuntimeError"):
            # confirm that it is the lifetime, not the value: the same query on the bound copy is right
            again = call((lambda: bound.isempty()) if query == "isempty" else (lambda: bound.isfinite()))
            if again == ("ok", want):
                ctx.stat("probe_temporary_runtimeerror")
                ctx.prop_fail(f"{text} raised RuntimeError (cached query on a temporary whose only reference is the "
                              f"expression: cached_method keeps a weak reference); the language is "
                              f"{'empty' if query == 'isempty' and want else ('non-empty' if query == 'isempty' else ('finite' if want else 'infinite'))}, "
                              f"the same call on a named copy answers {want}",
                              dict(replay, op="temporary", text=text, query=query), FINDING_TEMP)
                return
        ctx.prop_fail(f"{text} answered {got} but the oracle says {want}",
                      dict(replay, op="temporary", text=text, query=query), None)

    # fixed corpus (the replays of the finding)
    one("DFA.universal_language({'a'}).isempty()", lambda: DFA.universal_language({"a"}).isempty(),
        DFA.universal_language({"a"}), "isempty", dict(expr="DFA.universal_language({'a'})"))
    one("DFA.empty_language({'a'}).isfinite()", lambda: DFA.empty_language({"a"}).isfinite(),
        DFA.empty_language({"a"}), "isfinite", dict(expr="DFA.empty_language({'a'})"))
    a, b = DFA.universal_language({"a"}), DFA.empty_language({"a"})
    one("(a|b).isfinite() with a = DFA.universal_language({'a'}), b = DFA.empty_language({'a'})",
        lambda: (a | b).isfinite(), a | b, "isfinite",
        dict(expr="A | B", A=repr(a), B=repr(b)))
    one("(a|b).isempty() with a = DFA.universal_language({'a'}), b = DFA.empty_language({'a'})",
        lambda: (a | b).isempty(), a | b, "isempty", dict(expr="A | B", A=repr(a), B=repr(b)))
    one("(~a).isempty() with a = DFA.universal_language({'a'})", lambda: (~a).isempty(), ~a, "isempty",
        dict(expr="~A", A=repr(a)))
    # random operands, every operator / constructor shape
    shapes = [("A | B", lambda A, B: A | B), ("A & B", lambda A, B: A & B), ("A - B", lambda A, B: A - B),
              ("A ^ B", lambda A, B: A ^ B), ("~A", lambda A, B: ~A), ("A.minify()", lambda A, B: A.minify()),
              ("A.to_complete()", lambda A, B: A.to_complete()), ("A.copy()", lambda A, B: A.copy()),
              ("A.union(B, minify=False)", lambda A, B: A.union(B, minify=False))]
    for _ in range(ctx.budget(40, 400)):
        al = rng.choice(gen.ALPHABETS)
        A, B = gen.rand_dfa(rng, 5, al), gen.rand_dfa(rng, 5, al)
        text, f = rng.choice(shapes)
        query = rng.choice(["isempty", "isfinite"])
        bound = f(A, B)
        if query == "isempty":
            one(f"({text}).isempty()", lambda: f(A, B).isempty(), bound, query, dict(expr=text, A=repr(A), B=repr(B)))
        else:
            one(f"({text}).isfinite()", lambda: f(A, B).isfinite(), bound, query, dict(expr=text, A=repr(A), B=repr(B)))


# ------------------------------------------------------------------ deep pairs
def deep_pairs(rng):
    """Pairs of DFAs whose languages differ only on long words (deep refinement / long union–find chains)."""
    out = []
    al = rng.choice([("a", "b"), ("a",), ("a", "b", "c"), ("0", "1")])
    k = rng.randint(8, 20)
    kind = rng.randrange(6)
    if kind == 0:
        A = DFA.of_length(set(al), min_length=k, max_length=k)
        B = DFA.of_length(set(al), min_length=k + 1, max_length=k + 1)
        out.append(("deep_of_length_k_vs_k+1", A, B))
        out.append(("deep_of_length_k_vs_atmost_k", A, DFA.of_length(set(al), min_length=0, max_length=k)))
    elif kind == 1:
        n = rng.randint(12, 20)
        w = "".join(rng.choice(al) for _ in range(n))
        if len(al) >= 2:
            w2 = w[:-1] + rng.choice([c for c in al if c != w[-1]])
        else:
            w2 = w + al[0]
        A, B = DFA.from_finite_language(set(al), {w}), DFA.from_finite_language(set(al), {w2})
        out.append(("deep_single_word_last_symbol", A, B))
        out.append(("deep_single_word_vs_both", A, DFA.from_finite_language(set(al), {w, w2})))
        out.append(("deep_single_word_equal", A, DFA.from_finite_language(set(al), {w}).to_complete()))
    elif kind == 2:
        # unary cycles: a^n with n ≡ r (mod m) — differ only far out when m is large
        m1, m2 = rng.randint(1, 12), rng.randint(1, 12)

        def cyc(m, finals, partial=False):
            return DFA(states=set(range(m)), input_symbols={"a"},
                       transitions={i: {"a": (i + 1) % m} for i in range(m)}, initial_state=0,
                       final_states=set(finals), allow_partial=partial)
        r = rng.randrange(m1)
        A = cyc(m1, {r})
        B = cyc(m1 * m2, {i for i in range(m1 * m2) if i % m1 == r})
        out.append(("deep_unary_cycle_equal", A, B))
        C = cyc(m1 * m2, {i for i in range(m1 * m2) if i % m1 == r} ^ {m1 * m2 - 1})
        out.append(("deep_unary_cycle_one_flipped", A, C))
        out.append(("unary_self_loop", cyc(1, {0}), cyc(1, set())))
        out.append(("unary_self_loop", cyc(1, {0}), cyc(m2, set(range(m2)))))
        out.append(("unary_self_loop", cyc(1, {0}, True), cyc(m2, set(range(m2)) - {m2 - 1})))
    elif kind == 3:
        # a chain with a self-loop at the end vs the same chain one longer
        def chain(n, loop):
            t = {i: {"a": i + 1} for i in range(n)}
            t[n] = {"a": n} if loop else {}
            return DFA(states=set(range(n + 1)), input_symbols={"a"}, transitions=t, initial_state=0,
                       final_states={n}, allow_partial=True)
        out.append(("deep_unary_chain", chain(k, True), chain(k + 1, True)))
        out.append(("deep_unary_chain", chain(k, False), chain(k, True)))
        out.append(("deep_unary_chain_equal", chain(k, True), chain(k, True).minify()))
    elif kind == 4:
        n = rng.randint(2, 4)
        sy = set(al)
        A = DFA.nth_from_end(sy, al[0], n)
        B = DFA.nth_from_end(sy, al[0], n + 1)
        out.append(("deep_nth_from_end", A, B))
        out.append(("deep_nth_from_end_equal", A, A.minify(retain_names=True)))
    else:
        m = rng.randint(2, 9)
        sy = set(al)
        A = DFA.count_mod(sy, m, remainders={0})
        B = DFA.count_mod(sy, 2 * m, remainders={0, m})
        out.append(("deep_count_mod_equal", A, B))
        out.append(("deep_count_mod_sub", DFA.count_mod(sy, 2 * m, remainders={0}), A))
    return out


def empty_alphabet_dfas():
    out = []
    for fin in (set(), {0}):
        for partial in (False, True):
            out.append(DFA(states={0}, input_symbols=set(), transitions={0: {}}, initial_state=0,
                           final_states=fin, allow_partial=partial))
    out.append(DFA(states={0, 1}, input_symbols=set(), transitions={0: {}, 1: {}}, initial_state=1,
                   final_states={0}, allow_partial=True))
    out.append(DFA(states={0, 1}, input_symbols=set(), transitions={0: {}, 1: {}}, initial_state=1,
                   final_states={0, 1}, allow_partial=False))
    return out


def variants(rng, A: DFA):
    """Language-equal and nearly-equal variants of A."""
    out = []
    k = rng.random()
    if k < 0.2:
        out.append(("equal_minified", A.minify()))
    elif k < 0.35:
        out.append(("equal_completed", A.to_complete()))
    elif k < 0.5:
        # rename states
        names = gen.name_pool(rng, len(A.states))
        if len(names) == len(A.states):
            m = dict(zip(A.states, names))
            out.append(("equal_renamed", DFA(states=set(m.values()), input_symbols=A.input_symbols,
                                             transitions={m[q]: {a: m[t] for a, t in row.items()} for q, row in A.transitions.items() if q in m},
                                             initial_state=m[A.initial_state], final_states={m[q] for q in A.final_states},
                                             allow_partial=A.allow_partial)))
    elif k < 0.75:
        # flip the finality of one (deep) reachable state: differs on few words
        order = [A.initial_state]
        seen = {A.initial_state}
        for q in order:
            for t in A.transitions[q].values():
                if t not in seen:
                    seen.add(t)
                    order.append(t)
        q = order[-1] if rng.random() < 0.7 else rng.choice(order)
        fin = set(A.final_states) ^ {q}
        out.append(("one_state_flipped", DFA(states=A.states, input_symbols=A.input_symbols, transitions=A.transitions,
                                             initial_state=A.initial_state, final_states=fin, allow_partial=A.allow_partial)))
    else:
        C = gen.rand_dfa(rng, 4, sorted(A.input_symbols))
        out.append(("sub_language", A.intersection(C, minify=rng.random() < 0.5)))
        out.append(("super_language", A.union(C, minify=rng.random() < 0.5)))
    return out


# ------------------------------------------------------------------ round-3 families
def same_table_other_init(rng, A: DFA):
    """B = A's states, transition table and final set, started in another state: the right languages of two
    states of one automaton (equal or not).  A comparison that looks at the tables only is wrong here."""
    others = [q for q in A.states if q != A.initial_state]
    if not others:
        return None
    q = rng.choice(sorted(others, key=repr))
    return DFA(states=A.states, input_symbols=A.input_symbols, transitions=A.transitions, initial_state=q,
               final_states=A.final_states, allow_partial=A.allow_partial)


QUERIES = [("isempty()", lambda d: d.isempty()), ("isfinite()", lambda d: d.isfinite()),
           ("maximum_word_length()", lambda d: d.maximum_word_length()),
           ("minimum_word_length()", lambda d: d.minimum_word_length()), ("len()", lambda d: len(d)),
           ("cardinality()", lambda d: d.cardinality()), ("to_partial()", lambda d: d.to_partial()),
           ("to_partial(minify=False)", lambda d: d.to_partial(minify=False)), ("minify()", lambda d: d.minify()),
           ("accepts_input(\"\")", lambda d: d.accepts_input("")), ("d == d", lambda d: d == d),
           ("d.copy()", lambda d: d.copy())]
DERIVE = [("complement(minify=False)", lambda d: d.complement(minify=False)), ("complement()", lambda d: d.complement()),
          ("complement(retain_names=True, minify=False)", lambda d: d.complement(retain_names=True, minify=False)),
          ("to_complete()", lambda d: d.to_complete()), ("to_partial(minify=False)", lambda d: d.to_partial(minify=False)),
          ("copy()", lambda d: d.copy()), ("minify(retain_names=True)", lambda d: d.minify(retain_names=True)),
          ("union(d, minify=False)", lambda d: d.union(d, minify=False)), ("~d", lambda d: ~d)]


def derived_after_query(ctx: Ctx, n: int):
    """Query A first (the cached queries fill per-object memo tables), THEN derive B from A, then ask B the
    same questions and compare B with A and with a third DFA — every answer judged by the oracles on B's own
    definition.  A derived object that inherits its parent's memo tables answers for the wrong language."""
    rng = ctx.rng
    for _ in range(n):
        al = rng.choice(gen.ALPHABETS)
        A = gen.rand_dfa(rng, 5, al, partial=False if rng.random() < 0.6 else None)
        hist = []
        for name, q in rng.sample(QUERIES, rng.randint(1, 3)):
            call(lambda: q(A))
            hist.append("A." + name if not name.startswith(("len", "d ")) else name)
        dname, f = rng.choice(DERIVE)
        res = call(lambda: f(A))
        if res[0] == "err":
            ctx.prop_fail(f"after [{'; '.join(hist)}]: A.{dname} raised {res[1]}", dict(op="derived", A=repr(A), history=hist))
            continue
        B = res[1]
        h = "; ".join(hist) + f"; B = A.{dname}"
        ctx.stat("derived_" + dname.split("(")[0])
        do_emptyfin(ctx, B, "derived_after_query", history=h)
        do_emptyfin(ctx, A, "derived_after_query", history=h)
        do_cmp(ctx, B, A, "derived_after_query", history=h)
        C = gen.rand_dfa(rng, 4, al)
        if rng.random() < 0.5:
            do_cmp(ctx, C, B, "derived_after_query", history=h)
        else:
            do_cmp(ctx, B, C, "derived_after_query", history=h)


def mutable_option_family(ctx: Ctx, n: int):
    """allow_mutable_automata=True: operands built from PLAIN dict/set containers (which the library then
    stores as they are).  Queries / conversions are called first; afterwards all nine comparisons and
    isempty/isfinite are judged against the definition AS BUILT (a frozen reference object made from the same
    data before the option was switched on).  A library function that mutates a container it was handed
    (e.g. uses final_states as its own work set) makes the later answers wrong."""
    import automata.base.config as global_config
    rng = ctx.rng
    for _ in range(n):
        al = rng.choice(gen.ALPHABETS)
        refs = [gen.rand_dfa(rng, 5, al), gen.rand_dfa(rng, 5, al)]
        global_config.allow_mutable_automata = True
        try:
            live = [DFA(states=set(r.states), input_symbols=set(r.input_symbols),
                        transitions={k: dict(row) for k, row in r.transitions.items()},
                        initial_state=r.initial_state, final_states=set(r.final_states),
                        allow_partial=r.allow_partial) for r in refs]
            hist = []
            for i, d in enumerate(live):
                for name, q in rng.sample(QUERIES, rng.randint(0, 3)):
                    call(lambda: q(d))
                    hist.append(f"{'AB'[i]}.{name}")
            h = "allow_mutable_automata=True, plain set/dict containers; " + "; ".join(hist)
            ctx.stat("mutable_option_family")
            do_cmp(ctx, live[0], live[1], "mutable_option", refA=refs[0], refB=refs[1], history=h)
            do_cmp(ctx, live[1], live[0], "mutable_option", refA=refs[1], refB=refs[0], history=h)
            do_emptyfin(ctx, live[0], "mutable_option", ref=refs[0], history=h)
            for r, d in zip(refs, live):
                if (set(d.states), set(d.final_states), d.initial_state, {k: dict(v) for k, v in d.transitions.items()}) != \
                        (set(r.states), set(r.final_states), r.initial_state, {k: dict(v) for k, v in r.transitions.items()}):
                    ctx.stat("mutable_option_definition_changed")
        finally:
            global_config.allow_mutable_automata = False


def none_row_corpus(ctx: Ctx):
    """Triggers of the repaired defect behind /repo f47420f: a transition row keyed by None (rows keyed by
    non-states pass validation in general).  The definition must be refused now; if a tree accepts it, the
    comparisons / isempty / isfinite are evaluated on it like on any other valid DFA (the unrepaired code
    raised ValueError 'None cannot be a node' in isfinite)."""
    defs = [dict(states={0}, input_symbols={"a"}, transitions={0: {"a": 0}, None: {"a": 0}}, initial_state=0,
                 final_states={0}),
            dict(states={0, 1}, input_symbols={"a", "b"}, transitions={0: {"a": 1}, 1: {}, None: {}}, initial_state=0,
                 final_states={1}, allow_partial=True)]
    for kw in defs:
        ctx.stat("corpus_none_row")
        try:
            d = DFA(**kw)
        except Exception as e:  # noqa: BLE001
            ctx.case(None)
            if type(e).__name__ != "InvalidStateError":
                ctx.prop_fail(f"a DFA definition with a transition row keyed by None raised {type(e).__name__} "
                              f"instead of InvalidStateError", dict(op="none_row", definition=repr(kw)))
            else:
                ctx.stat("corpus_none_row_refused")
            continue
        do_emptyfin(ctx, d, "corpus_none_row_accepted")
        do_cmp(ctx, d, d.copy(), "corpus_none_row_accepted")


# ------------------------------------------------------------------ round-4 families
def _nine(A: DFA, B: DFA):
    """The nine comparisons asked of (A, B); the operands are parameters of this frame only."""
    return [call(f) for f in (lambda: A == B, lambda: A != B, lambda: A <= B, lambda: A < B, lambda: A >= B,
                              lambda: A > B, lambda: A.issubset(B), lambda: A.issuperset(B), lambda: A.isdisjoint(B))]


def _new_fails(ctx: Ctx) -> int:
    """Failures recorded so far that are not hits of an open finding (those are reproduced on every run)."""
    return sum(1 for f in ctx.prop_fails if f["key"] is None)


def _wrong(names_prefix: str, got, want):
    return [(f"{names_prefix[0]} {n} {names_prefix[1]}", g, w) for n, g, w in zip(NAMES, got, want) if g != ("ok", w)]


def stream_temporaries(rng, anchor: DFA, n: int):
    """Reference twins of the temporaries of one stream: random DFAs over the anchor's alphabet, language-equal
    / nearly equal / sub- / super-language variants of the anchor, the empty and the universal language —
    so that consecutive temporaries stand in DIFFERENT relations to the anchor."""
    al = sorted(anchor.input_symbols)
    out = []
    while len(out) < n:
        r = rng.random()
        if r < 0.55:
            out.append(gen.rand_dfa(rng, 4, al))
        elif r < 0.9:
            v = call(lambda: variants(rng, anchor))
            out.extend(t for _, t in (v[1] if v[0] == "ok" else []) if len(t.states) <= 12)
        elif r < 0.95:
            out.append(DFA.empty_language(set(al)))
        else:
            out.append(DFA.universal_language(set(al)))
    return out[:n]


@guarded
def run_anchor_stream(ctx: Ctx, anchor: DFA, twins, passes: int = 1):
    """ONE long-lived DFA compared with a stream of temporaries that are built, compared and dropped (so that
    a later temporary lives at the address of an earlier one): all nine comparisons, the long-lived object on the
    left AND on the right, every answer judged by the product-search oracle on (anchor, reference twin of the
    temporary).  An answer may depend on the two languages only — not on what the long-lived object was compared
    with before.  The oracle work is done first, so that nothing but the comparisons happens between dropping a
    temporary and building the next.  Replay = the anchor and the whole stream up to the failing temporary."""
    specs = [H.spec_of(t) for t in twins]
    wants = [(truth(anchor, t), truth(t, anchor)) for t in twins]
    reprs = [repr(t) for t in twins]
    nt_anchor = reachable_count(anchor) >= 2 and not is_empty(anchor)
    addresses = set()
    for p in range(passes):
        for i, spec in enumerate(specs):
            T = DFA(**spec)
            addresses.add(id(T))
            left, right = _nine(anchor, T), _nine(T, anchor)
            del T
            ctx.case(("stream", repr(anchor), reprs[i]) if nt_anchor and len(twins[i].states) >= 2 else None)
            ctx.stat("anchor_vs_temporary")
            bad = _wrong(("anchor", "T"), left, wants[i][0]) + _wrong(("T", "anchor"), right, wants[i][1])
            if bad:
                text, g, w = bad[0]
                cmp_name = text.split()[1]
                A, B = (anchor, twins[i]) if text.startswith("anchor") else (twins[i], anchor)
                wit = witness(A, B, cmp_name)
                ctx.prop_fail(f"{text} answered {g[1] if g[0] == 'ok' else 'raised ' + g[1]} but the languages say {w}, "
                              f"T = temporary #{i + 1 + p * len(specs)} of a stream of DFAs that were built, compared with ONE long-lived "
                              f"DFA (anchor) and dropped again"
                              + (f" (witness word {wit!r}: {text.split()[0]} accepts {A.accepts_input(wit)}, "
                                 f"{text.split()[2]} accepts {B.accepts_input(wit)})" if wit is not None else "")
                              + (f"; also wrong for this temporary: {', '.join(t for t, _, _ in bad[1:6])}" if bad[1:] else ""),
                              dict(op="anchor_stream", anchor=repr(anchor), temporaries=reprs[: i + 1],
                                   comparison=text, passes=p + 1))
                return
    ctx.stat("anchor_stream")
    if len(addresses) < len(specs) * passes:
        ctx.stat("anchor_stream_with_reused_address")
    # the same pairs with both operands alive: model vs code (and the oracle once more)
    if twins:
        do_cmp(ctx, anchor, twins[-1], "anchor_stream_pair")


def anchor_stream_family(ctx: Ctx, n_streams: int, n_temps: int):
    rng = ctx.rng
    for _ in range(n_streams):
        al = rng.choice(gen.ALPHABETS[:4])
        anchor = gen.rand_dfa(rng, 5, al, min_states=2) if rng.random() < 0.8 else H.lasso_dfa(rng, 5)
        run_anchor_stream(ctx, anchor, stream_temporaries(rng, anchor, n_temps))
        if _new_fails(ctx) >= 3:
            return


# ---- C06 queries asked BETWEEN queries of the other query families, on the same objects
# steps (JSON-able): other-family queries `dict(q=<H.OTHER_KINDS>, ..., on="A"|"B")` (asked, NOT judged here) and the
# C06 queries `dict(q="isempty"|"isfinite", on=...)`, `dict(q="cmp", left="A"|"B")` (all nine comparisons), judged.
def show_hstep(s: dict) -> str:
    if s["q"] == "cmp":
        return "the nine comparisons (A, B)" if s["left"] == "A" else "the nine comparisons (B, A)"
    if s["q"] in ("isempty", "isfinite"):
        return f"{s['on']}.{s['q']}()"
    txt = H.show_other(s)
    if s["q"] == "len":
        return f"len({s['on']})"
    if txt.startswith("first"):
        return txt.replace(" of ", f" of {s['on']}.", 1)
    return f"{s['on']}.{txt}"


def run_history(refA: DFA, refB: DFA, steps, want=None):
    """Build live objects from the two definitions, ask the steps; returns (index, message, comparison) of the
    first wrong C06 answer or None.  The oracles see refA / refB only."""
    want = history_wants(refA, refB) if want is None else want
    live = {"A": DFA(**H.spec_of(refA)), "B": DFA(**H.spec_of(refB))}
    keep = []
    for i, s in enumerate(steps):
        q = s["q"]
        if q == "cmp":
            x, y = s["left"], "B" if s["left"] == "A" else "A"
            got = _nine(live[x], live[y])
            bad = _wrong((x, y), got, want["cmp" + x])
            if bad:
                text, g, w = bad[0]
                rx, ry = (refA, refB) if x == "A" else (refB, refA)
                wit = witness(rx, ry, text.split()[1])
                return i, (f"{text} answered {g[1] if g[0] == 'ok' else 'raised ' + g[1]} but the languages say {w}"
                           + (f" (witness word {wit!r}: {x} accepts {rx.accepts_input(wit)}, {y} accepts "
                              f"{ry.accepts_input(wit)})" if wit is not None else "")), text
        elif q in ("isempty", "isfinite"):
            x = live[s["on"]]
            got = H.L.guarded((lambda: x.isempty()) if q == "isempty" else (lambda: x.isfinite()), H.STEP_TIMEOUT_S)
            w = want[q + s["on"]]
            if got != ("ok", w):
                lang = ("empty" if w else "non-empty") if q == "isempty" else ("finite" if w else "infinite")
                return i, f"{s['on']}.{q}() answered {got} but the language of {s['on']} is {lang}", None
        else:
            H.exec_other(live[s["on"]], s, keep)
    return None


class history_wants(dict):
    """What the two languages dictate for the C06 queries (computed on demand, by the oracles, from the definitions)."""

    def __init__(self, refA: DFA, refB: DFA):
        super().__init__()
        self.refs = {"A": refA, "B": refB}

    def __missing__(self, key):
        r = self.refs
        if key.startswith("cmp"):
            x = key[3:]
            v = truth(r[x], r["B" if x == "A" else "A"])
        elif key.startswith("isempty"):
            v = is_empty(r[key[-1]])
        else:
            v = is_finite(r[key[-1]])
        self[key] = v
        return v


def minimise_history(refA, refB, steps, index, want):
    """Greedy removal of earlier steps while the last step still gets a wrong answer (time-boxed)."""
    import time
    t0 = time.time()
    cur = list(steps[: index + 1])

    def fails_at_end(st):
        r = run_history(refA, refB, st, want)
        return r is not None and r[0] == len(st) - 1
    if not fails_at_end(cur):
        return cur
    j = len(cur) - 2
    while j >= 0 and time.time() - t0 < 8:
        cand = cur[:j] + cur[j + 1:]
        if fails_at_end(cand):
            cur = cand
        j -= 1
    return cur


@guarded
def check_history(ctx: Ctx, refA: DFA, refB: DFA, steps, origin: str, model: bool = False):
    want = history_wants(refA, refB)
    r = run_history(refA, refB, steps, want)
    n_c06 = sum(1 for s in steps if s["q"] in ("cmp", "isempty", "isfinite"))
    nt = reachable_count(refA) >= 2 and not want["isemptyA"] and len(steps) > n_c06
    ctx.case(("history", repr(refA), repr(refB), json.dumps(steps, sort_keys=True)) if nt else None)
    ctx.stat(origin)
    ctx.stat("history_c06_answers_judged", n_c06)
    for s in steps:
        if s["q"] not in ("cmp", "isempty", "isfinite"):
            ctx.stat("history_other:" + s["q"])
    if r is not None:
        i, msg, _ = r
        small = minimise_history(refA, refB, steps, i, want)
        hist = "; ".join(show_hstep(s) for s in small[:-1])
        ctx.prop_fail(f"{msg} — asked after [{hist}] on the same object(s)" if hist else f"{msg} — first query on new objects",
                      dict(op="history", A=repr(refA), B=repr(refB), steps=small))
        return
    if model:
        # the same objects' definitions through the model as well (fresh objects: the model has no history)
        do_emptyfin(ctx, DFA(**H.spec_of(refA)), origin + "_model")
        do_cmp(ctx, DFA(**H.spec_of(refA)), DFA(**H.spec_of(refB)), origin + "_model")


def rand_c06_step(rng) -> dict:
    r = rng.random()
    if r < 0.3:
        return dict(q="isfinite", on=rng.choice("AAB"))
    if r < 0.5:
        return dict(q="isempty", on=rng.choice("AAB"))
    return dict(q="cmp", left=rng.choice("AB"))


def rand_history(rng, refA: DFA, refB: DFA):
    """2–4 rounds of (1–3 other-family queries, then 1–2 C06 queries): other queries come BEFORE the first C06
    query and BETWEEN the later ones."""
    steps = []
    for _ in range(rng.randint(2, 4)):
        for _ in range(rng.randint(1, 3)):
            on = rng.choice("AAB")
            steps.append(dict(H.rand_other(rng, refA if on == "A" else refB), on=on))
        for _ in range(rng.randint(1, 2)):
            steps.append(rand_c06_step(rng))
    return steps


def history_subject(rng, al=None):
    r = rng.random()
    if r < 0.35 and al is None:
        return H.lasso_dfa(rng, 6)
    if r < 0.5 and al is None:
        return H.L.shaped_dfa(rng, 5)[0]
    return gen.rand_dfa(rng, 5, al)


def history_family(ctx: Ctx, n_random: int):
    """(1) bounded-exhaustive: every DFA with ≤2 states over {a,b} and every unary DFA with ≤3 states (a slice in
    the quick tier), ONE counting / sampling / enumeration query with a length k ≤ 2n+1, then isempty / isfinite;
    (2) random histories on shaped DFAs (tail+cycle automata, random, acyclic, finite)."""
    rng = ctx.rng
    pool = [d for n in (1, 2) for d in gen.all_dfas(n, ("a", "b"))] + [d for n in (1, 2, 3) for d in gen.all_dfas(n, ("a",))]
    every = 1 if ctx.thorough() else 4
    other = DFA.universal_language({"a"})
    for i, d in enumerate(pool):
        n = len(d.states)
        for k in range(2 * n + 2):
            for j, q in enumerate(("count", "random", "words")):
                if (i + k + j) % every:
                    continue
                pre = dict(q=q, k=k, on="A")
                if q == "random":
                    pre["seed"] = 5
                B = other if len(d.input_symbols) == 1 else d
                check_history(ctx, d, B, [pre, dict(q="isempty", on="A"), dict(q="isfinite", on="A")], "history_exhaustive")
        if _new_fails(ctx) >= 3:
            return
    ctx.exhaustive("all DFAs with ≤2 states over {a,b} and all unary DFAs with ≤3 states × one of count_words_of_length(k) / "
                   "random_word(k) / words_of_length(k), k ≤ 2n+1, asked BEFORE isempty / isfinite on the same object"
                   + ("" if ctx.thorough() else " (quick tier: every 4th combination)"))
    for i in range(n_random):
        A = history_subject(rng)
        B = history_subject(rng, sorted(A.input_symbols)) if rng.random() < 0.7 else \
            (variants(rng, A) or [(None, A.copy())])[0][1]
        check_history(ctx, A, B, rand_history(rng, A, B), "history_random", model=(i % 10 == 0))
        if _new_fails(ctx) >= 3:
            return


# ------------------------------------------------------------------ round 7: deep / large operands
# Why: C06 quantifies over ALL pairs of valid DFAs, of any size.  Every other family of this module draws operands
# with ≤ 14 states, so anything in the decision procedures (the union–find loop of __eq__, _bfs_states / _find_state
# over the lazy product, the digraph walk of isfinite) or in a helper they call that only goes wrong above a SIZE
# THRESHOLD — a loop rewritten as recursion (Python's frame limit is hit near depth 1000), a "safety" bound on the
# number of visited pairs, a bounded cache, a fixed-size table, a quadratic copy — is out of their reach.  This
# family builds PAIRS of automata with 1100–3000 states through the library's own constructors (DFA.of_length,
# DFA.from_finite_language, DFA.count_mod, hand-written partial chains / chains ending in live or dead cycles /
# counters mod m) whose languages differ only AT DEPTH (a length bound ±1, the last symbol of one long word, one
# final state toggled at the far end of the chain or of the cycle) or not at all (the same language built twice in
# different shapes), and asks all nine comparisons in BOTH operand orders plus isempty / isfinite of both operands.
# The languages are known in CLOSED FORM from the construction parameters (harness/dfa_cmp_deep.py: ultimately
# periodic sequences of length slices, compared by integer arithmetic), so the answers need neither the library
# nor the Lean model: NO model round trip is made for the large pairs (stat
# `deep_large:closed_form_oracle_no_model_round_trip`).  The closed form is tied to the real objects twice:
# (1) selfcheck — closed-form membership vs the real accepts_input on boundary words of BOTH automata around the
# depth at which the pair differs; (2) small twins — the same pair templates with 3–9 states, where the closed-form
# answers must coincide with this module's product-search / reachability / cycle oracles, and the pair also goes
# through do_cmp / do_emptyfin (model ↔ code ↔ oracle).
# Sizes: all of these decision procedures are linear in the number of reachable PAIRS, and the pairs of a chain
# pair run in lockstep, so depths of 1100–3000 cost 5–30 ms per comparison on the unchanged tree; the one
# inherently quadratic shape (two counters with coprime moduli: m1·m2 reachable pairs, the only common word at
# depth m1·m2 − 1) uses moduli of 90–140.  Every real call runs under a watchdog (a timeout is an observation).
DEEP_LARGE_TIMEOUT_S = 8
CMP_CALLS = {"==": lambda X, Y: X == Y, "!=": lambda X, Y: X != Y, "<=": lambda X, Y: X <= Y, "<": lambda X, Y: X < Y,
             ">=": lambda X, Y: X >= Y, ">": lambda X, Y: X > Y, "issubset": lambda X, Y: X.issubset(Y),
             "issuperset": lambda X, Y: X.issuperset(Y), "isdisjoint": lambda X, Y: X.isdisjoint(Y)}


def _chain(syms, n, pat, finals, back=None, flip=None, names="int"):
    return dict(kind="chain", syms=syms, n=n, pat=pat, finals=sorted(finals), back=back, flip=flip, names=names)


def deep_large_plan(rng, small: bool):
    """[(tag, specA, specB)] — the shapes are fixed (every one in every run), the sizes are drawn from rng.
    small = the same templates with 3–7 states on the path (the twins)."""
    ab, a = ["a", "b"], ["a"]
    lin = (lambda: rng.randint(3, 7)) if small else (lambda: rng.randint(1100, 1300) if rng.random() < 0.75 else rng.randint(1300, 3000))
    half = (lambda: rng.randint(3, 5)) if small else (lambda: rng.randint(1100, 1300))     # the partner has 2× as many
    quad = (lambda: rng.randint(2, 4)) if small else (lambda: rng.randint(90, 140))
    plan = []
    # -- library constructors, length bound ±1
    n = lin()
    plan.append(("of_length_exact_n_vs_n+1", dict(kind="of_length", syms=ab, lo=n, hi=n),
                 dict(kind="of_length", syms=ab, lo=n + 1, hi=n + 1)))
    n, lo = lin(), rng.randint(0, 2)
    plan.append(("of_length_upto_n_vs_n+1", dict(kind="of_length", syms=ab, lo=lo, hi=n),
                 dict(kind="of_length", syms=ab, lo=lo, hi=n + 1)))
    n = lin()
    plan.append(("of_length_atleast_n_vs_n+1", dict(kind="of_length", syms=a, lo=n, hi=None),
                 dict(kind="of_length", syms=a, lo=n + 1, hi=None)))
    n = lin()
    plan.append(("finite_language_vs_of_length_equal", dict(kind="finite_language", syms=a, words=[["a", n, ""]]),
                 dict(kind="of_length", syms=a, lo=n, hi=n)))
    m = max(2, lin() // 2)
    plan.append(("finite_language_last_symbol", dict(kind="finite_language", syms=ab, words=[["ab", m, ""]]),
                 dict(kind="finite_language", syms=ab, words=[["ab", m - 1, "aa"]])))
    m = max(2, lin() // 2)
    plan.append(("finite_language_one_more_word", dict(kind="finite_language", syms=ab, words=[["ab", m, ""]]),
                 dict(kind="finite_language", syms=ab, words=[["ab", m, ""], ["ab", m - 1, "aa"], ["b", 1, ""]])))
    # -- hand-written chains: one final state toggled at the far end / the last edge relabelled
    n, j = lin(), rng.randint(0, 2)
    plan.append(("chain_final_toggled_at_far_end", _chain(ab, n, None, {j, n}, names="str"), _chain(ab, n, None, {j}, names="str")))
    n = lin()
    pat = rng.choice(["ab", "aab", "abb"])
    other = "a" if pat[(n - 1) % len(pat)] == "b" else "b"
    plan.append(("chain_last_edge_relabelled", _chain(ab, n, pat, {n}), _chain(ab, n, pat, {n}, flip=[n - 1, other])))
    n = lin()
    plan.append(("chain_empty_vs_one_deep_word", _chain(ab, n, "ab", set()), _chain(ab, n, "ab", {n})))
    # -- chains ending in cycles
    n, c = lin(), rng.randint(2, 3)
    plan.append(("lasso_final_toggled_on_cycle", _chain(ab, n, "ab", {n}, back=n - c + 1),
                 _chain(ab, n, "ab", {n, n - 1}, back=n - c + 1)))
    n, c = lin(), rng.randint(1, 3)
    t = n - c + 1
    plan.append(("dead_cycle_vs_live_cycle", _chain(a, n, None, {t - 1}, back=t), _chain(a, n, None, {t - 1, n}, back=t)))
    n, c = lin(), rng.randint(1, 3)
    t = n - c + 1
    plan.append(("lasso_vs_unrolled_equal", _chain(a, n, None, {n}, back=t), _chain(a, n + c, None, {n, n + c}, back=t)))
    n, c = lin(), rng.randint(1, 3)
    t = n - c + 1
    plan.append(("lasso_vs_unrolled_one_toggled", _chain(a, n, None, {n}, back=t), _chain(a, n + c, None, {n}, back=t)))
    # -- counters mod m, m in the thousands
    m = half()
    r = rng.randrange(m)
    plan.append(("count_mod_m_vs_2m_equal", dict(kind="count_mod", syms=ab, m=m, rem=[r]),
                 dict(kind="count_mod", syms=ab, m=2 * m, rem=[r, r + m])))
    m = half()
    r = rng.randrange(m)
    plan.append(("count_mod_2m_vs_m_sub", dict(kind="count_mod", syms=ab, m=2 * m, rem=[r + m]),
                 dict(kind="count_mod", syms=ab, m=m, rem=[r])))
    m = lin()
    r = rng.randrange(m - 1)
    plan.append(("cycle_final_toggled_at_far_end", _chain(a, m - 1, None, {r}, back=0), _chain(a, m - 1, None, {r, m - 1}, back=0)))
    # -- inherently quadratic: coprime moduli, the only common words at depth m1·m2 − 1 (+ multiples of m1·m2)
    m1 = quad()
    m2 = m1 + 1
    plan.append(("coprime_counters_common_word_at_depth", _chain(a, m1 - 1, None, {m1 - 1}, back=0),
                 _chain(a, m2 - 1, None, {m2 - 1}, back=0)))
    return plan


def deep_large_queries():
    qs = [dict(q="cmp", order=o, name=nm) for o in ("AB", "BA") for nm in NAMES]
    qs += [dict(q=q, on=on) for on in "AB" for q in ("isempty", "isfinite")]
    return qs


def deep_large_show(q: dict) -> str:
    if q["q"] == "cmp":
        x, y = q["order"]
        return f"{x}.{q['name']}({y})" if q["name"].startswith("is") else f"{x} {q['name']} {y}"
    return f"{q['on']}.{q['q']}()"


def deep_large_want(LA, LB, q: dict, memo: dict = None):
    """What the two closed forms dictate for one query (memo: the two comparison vectors of a pair, computed once)."""
    if q["q"] == "cmp":
        memo = {} if memo is None else memo
        if q["order"] not in memo:
            X, Y = (LA, LB) if q["order"] == "AB" else (LB, LA)
            memo[q["order"]] = DC.compare(X, Y)[0]
        return memo[q["order"]][NAMES.index(q["name"])]
    L = LA if q["on"] == "A" else LB
    return L.empty() if q["q"] == "isempty" else L.finite()


def deep_large_ask(A: DFA, B: DFA, q: dict):
    """One query on the live objects: ("ok", value) / ("err", class name) / ("err", "_Timeout")."""
    if q["q"] == "cmp":
        X, Y = (A, B) if q["order"] == "AB" else (B, A)
        f = CMP_CALLS[q["name"]]
        return H.L.guarded(lambda: f(X, Y), DEEP_LARGE_TIMEOUT_S)
    x = A if q["on"] == "A" else B
    return H.L.guarded((lambda: x.isempty()) if q["q"] == "isempty" else (lambda: x.isfinite()), DEEP_LARGE_TIMEOUT_S)


def deep_large_what(LA, LB, q: dict, got, want) -> str:
    ans = f"answered {got[1]!r}" if got[0] == "ok" else \
        (f"gave no answer within {DEEP_LARGE_TIMEOUT_S} s" if got[1] == "_Timeout" else f"raised {got[1]}")
    if q["q"] == "cmp":
        d = DC.first_difference(LA, LB)
        why = (f"the languages say {want}: L(A) and L(B) are {DC.relation_name(DC.compare(LA, LB)[0]).replace('_', ' ')} (A vs B)"
               + (f", shortest word in the symmetric difference has {d} symbols" if d is not None else ""))
    else:
        L = LA if q["on"] == "A" else LB
        why = f"the language of {q['on']} is {L.shape_name()}" + \
            (f" (shortest word has {L.first_length()} symbols)" if not L.empty() else "")
    return (f"{deep_large_show(q)} {ans} but {why} — A = {LA.expr()} [{LA.n_states_expected()}+ states]; "
            f"B = {LB.expr()} [{LB.n_states_expected()}+ states]")


def run_deep_large(specA: dict, specB: dict, queries, built=None):
    """Ask the queries of ONE pair of objects built from the specs; [(query, got, want)] of the wrong answers
    (the run stops at the second timeout)."""
    LA, LB = DC.CmpLang(specA), DC.CmpLang(specB)
    A, B = built if built is not None else (LA.build(), LB.build())
    bad, timeouts, memo = [], 0, {}
    for q in queries:
        got, want = deep_large_ask(A, B, q), deep_large_want(LA, LB, q, memo)
        if got != ("ok", want):
            bad.append((q, got, want))
            timeouts += got == ("err", "_Timeout")
            if timeouts >= 2:
                break
    return bad


def deep_large_selfcheck(ctx: Ctx, LA, LB, A: DFA, B: DFA) -> bool:
    """Closed-form membership vs the real accepts_input, on the boundary words of both languages, for both automata."""
    for L, other, d, nm in ((LA, LB, A, "A"), (LB, LA, B, "B")):
        for w in L.selfcheck_words(ctx.rng, other):
            ctx.stat("deep_large:selfcheck_words_through_accepts_input")
            real = call(lambda: d.accepts_input(w))
            if real != ("ok", L.member(w)):
                ctx.stat("deep_large:selfcheck_disagreement")
                ctx.corr_diff("deep-large-closed-form", dict(automaton=L.expr(), spec=L.spec, word_length=len(w),
                                                             word_tail=w[-12:]),
                              dict(accepts_input=real), dict(closed_form_member=L.member(w)))
                return False
    return True


@guarded
def check_deep_large(ctx: Ctx, tag: str, specA: dict, specB: dict):
    if H.L.TIMEOUTS >= DEEP_LARGE_T0[0] + 3 or _new_fails(ctx) >= DEEP_LARGE_F0[0] + 4:
        ctx.stat("deep_large:skipped_after_failures")
        return
    LA, LB = DC.CmpLang(specA), DC.CmpLang(specB)
    b = call(lambda: (LA.build(), LB.build()))
    if b[0] == "err":
        # whether the constructors work on such sizes is C15's statement
        ctx.stat("deep_large:construction_raised")
        ctx.corr_diff("deep-large-construction", dict(A=LA.expr(), B=LB.expr(), specA=specA, specB=specB),
                      f"raised {b[1]}", "two DFAs")
        return
    A, B = b[1]
    want_ab = DC.compare(LA, LB)[0]
    ctx.stat(f"deep_large:{tag}")
    ctx.stat(f"deep_large:relation:{DC.relation_name(want_ab)}")
    for L, d in ((LA, A), (LB, B)):
        ctx.stat(f"deep_large:kind:{L.kind}")
        ctx.stat(f"deep_large:lang:{L.shape_name()}")
        ctx.stat(f"deep_large:states:{len(d.states) // 500 * 500}+")
    ctx.stat("deep_large:closed_form_oracle_no_model_round_trip")
    if not deep_large_selfcheck(ctx, LA, LB, A, B):
        return
    queries = deep_large_queries()
    if ctx.stats.get(f"deep_large:{tag}", 0) == 1 and tag in DEEP_LARGE_SAMPLED:
        ctx.sample(dict(family="deep_large", tag=tag, A=LA.expr(), B=LB.expr(), states=[len(A.states), len(B.states)],
                        closed_form=dict(zip(NAMES, want_ab)), first_difference_at_length=DC.first_difference(LA, LB),
                        A_lang=LA.shape_name(), B_lang=LB.shape_name(), queries=len(queries)))
    nt = not LA.empty() and not LB.empty()
    for q in queries:
        ctx.case(("deep_large", json.dumps(specA, sort_keys=True), json.dumps(specB, sort_keys=True),
                  json.dumps(q, sort_keys=True)) if nt else None)
        ctx.stat("deep_large_q:" + (q["name"] + ":" + q["order"] if q["q"] == "cmp" else q["q"]))
    bad = run_deep_large(specA, specB, queries, (A, B))
    reported = 0
    for q, got, want in bad:
        # re-confirm on newly built objects, the query alone (so the replay is a statement about the tree)
        again = run_deep_large(specA, specB, [q])
        if not again:
            ctx.stat("deep_large:failure_not_reproduced")
            if got == ("err", "_Timeout"):
                ctx.note(f"deep_large family: {deep_large_show(q)} on ({LA.expr()}, {LB.expr()}) timed out once and "
                         f"answered on the second try")
            else:
                ctx.corr_diff("deep-large-not-reproduced", dict(A=LA.expr(), B=LB.expr(), specA=specA, specB=specB, query=q),
                              repr(got), repr(("ok", want)))
            continue
        _, got2, want2 = again[0]
        what = deep_large_what(LA, LB, q, got2, want2)
        ctx.prop_fail(what, dict(op="deep_large", tag=tag, A=specA, B=specB, query=q, what=what))
        reported += 1
        if reported >= 2 or H.L.TIMEOUTS >= DEEP_LARGE_T0[0] + 3:
            if len(bad) > reported:
                ctx.note(f"deep_large family: {len(bad)} of {len(queries)} queries wrong on the pair [{tag}]; "
                         f"{reported} re-confirmed and recorded")
            return


DEEP_LARGE_SAMPLED = ("of_length_upto_n_vs_n+1", "lasso_final_toggled_on_cycle", "count_mod_m_vs_2m_equal",
                      "coprime_counters_common_word_at_depth")
DEEP_LARGE_T0, DEEP_LARGE_F0 = [0], [0]


@guarded
def deep_large_twin(ctx: Ctx, tag: str, specA: dict, specB: dict):
    """The same pair template with 3–9 states: the closed-form answers must coincide with this module's oracles
    (product search / reachability / cycle detection on the objects built), then the pair goes through do_cmp /
    do_emptyfin like any other small pair (model ↔ code ↔ oracle)."""
    LA, LB = DC.CmpLang(specA), DC.CmpLang(specB)
    A, B = LA.build(), LB.build()
    ctx.stat("deep_large:small_twin")
    closed = (DC.compare(LA, LB)[0], DC.compare(LB, LA)[0], LA.empty(), LA.finite(), LB.empty(), LB.finite())
    brute = (truth(A, B), truth(B, A), is_empty(A), is_finite(A), is_empty(B), is_finite(B))
    ctx.stat("deep_large:small_twin_answers_judged_by_both_oracles", 22)
    if closed != brute:
        ctx.stat("deep_large:small_twin_oracles_disagree")
        ctx.corr_diff("deep-large-twin-closed-form-vs-oracle", dict(tag=tag, A=LA.expr(), B=LB.expr(), specA=specA, specB=specB),
                      dict(product_search_oracle=brute), dict(closed_form=closed))
        return
    # closed-form membership vs accepts_input on every word up to the joint horizon (≤ 2^9 words)
    top = min(DC.horizon(LA, LB), 8 if len(LA.syms) > 1 else 40)
    import itertools
    for L, d in ((LA, A), (LB, B)):
        for k in range(top + 1):
            for tup in itertools.product(L.syms, repeat=k):
                w = "".join(tup)
                if call(lambda: d.accepts_input(w)) != ("ok", L.member(w)):
                    ctx.stat("deep_large:small_twin_oracles_disagree")
                    ctx.corr_diff("deep-large-twin-membership", dict(tag=tag, automaton=L.expr(), spec=L.spec, word=w),
                                  dict(accepts_input=call(lambda: d.accepts_input(w))), dict(closed_form_member=L.member(w)))
                    return
    do_cmp(ctx, A, B, "deep_large_twin")
    do_cmp(ctx, B, A, "deep_large_twin")
    do_emptyfin(ctx, A, "deep_large_twin", model_max_states=4)
    do_emptyfin(ctx, B, "deep_large_twin", model_max_states=4)


def deep_large_family(ctx: Ctx, rounds: int = 1):
    import time
    t0 = time.time()
    DEEP_LARGE_T0[0], DEEP_LARGE_F0[0] = H.L.TIMEOUTS, _new_fails(ctx)
    for _ in range(rounds):
        for tag, sa, sb in deep_large_plan(ctx.rng, small=True):
            deep_large_twin(ctx, tag, sa, sb)
        t1 = time.time()
        for tag, sa, sb in deep_large_plan(ctx.rng, small=False):
            check_deep_large(ctx, tag, sa, sb)
    if os.environ.get("VERIF_TIMING"):
        print(f"[timing] C06 deep_large family: {time.time() - t0:.2f} s (last round: large pairs {time.time() - t1:.2f} s)", file=sys.stderr)



def run(ctx: Ctx):
    rng = ctx.rng
    deep_large_family(ctx, ctx.budget(1, 4))
    probe_temporaries(ctx)
    none_row_corpus(ctx)
    derived_after_query(ctx, ctx.budget(250, 6000))
    mutable_option_family(ctx, ctx.budget(250, 6000))
    anchor_stream_family(ctx, ctx.budget(40, 400), ctx.budget(30, 60))
    history_family(ctx, ctx.budget(500, 8000))
    ea = empty_alphabet_dfas()
    for a in ea:
        do_emptyfin(ctx, a, "empty_alphabet")
        for b in ea:
            do_cmp(ctx, a, b, "empty_alphabet")
    for _ in range(ctx.budget(60, 1500)):
        for tag, A, B in deep_pairs(rng):
            if rng.random() < 0.5:
                A, B = B, A
            do_cmp(ctx, A, B, tag)
            do_emptyfin(ctx, A, tag, model_max_states=4)
    pool = [d for n in (1, 2) for d in gen.all_dfas(n, ("a", "b"))]
    if ctx.thorough():
        n_pairs = len(pool) ** 2
        every = max(1, n_pairs // ctx.budget(1, 150000))
        i = 0
        for a in pool:
            for b in pool:
                if i % every == 0:
                    do_cmp(ctx, a, b, "small_pairs")
                i += 1
        if every == 1:
            ctx.exhaustive(f"all {n_pairs} ordered pairs of DFAs with ≤2 states over {{a,b}}")
    else:
        for _ in range(ctx.budget(5000, 0)):
            do_cmp(ctx, rng.choice(pool), rng.choice(pool), "small_pairs")
    for a in pool:
        do_emptyfin(ctx, a, "small_single")
    ctx.exhaustive("isempty / isfinite on all DFAs with ≤2 states over {a,b}")
    for _ in range(ctx.budget(2500, 50000)):
        al = rng.choice(gen.ALPHABETS)
        A = gen.rand_dfa(rng, 6, al)
        if rng.random() < 0.15:
            B = same_table_other_init(rng, A)
            if B is not None:
                do_cmp(ctx, A, B, "same_table_other_init")
                do_cmp(ctx, B, A, "same_table_other_init")
        if rng.random() < 0.5:
            B = gen.rand_dfa(rng, 6, al)
            do_cmp(ctx, A, B, "random_pair")
        else:
            for tag, B in variants(rng, A):
                if rng.random() < 0.5:
                    do_cmp(ctx, A, B, tag)
                else:
                    do_cmp(ctx, B, A, tag)
        do_emptyfin(ctx, A, "random_single")


def search(ctx: Ctx):
    rng = ctx.rng
    deep_large_family(ctx, ctx.budget(2, 6))
    if _new_fails(ctx):
        return
    derived_after_query(ctx, ctx.budget(500, 3000))
    mutable_option_family(ctx, ctx.budget(500, 3000))
    anchor_stream_family(ctx, ctx.budget(100, 800), 60)
    history_family(ctx, ctx.budget(3000, 12000))
    for _ in range(ctx.budget(15000, 80000)):
        if ctx.n_prop_fails:
            return
        al = rng.choice(gen.ALPHABETS)
        A = gen.rand_dfa(rng, 7, al)
        for tag, B in variants(rng, A) + [("random_pair", gen.rand_dfa(rng, 7, al))]:
            do_cmp(ctx, A, B, "search_" + tag)
            do_cmp(ctx, B, A, "search_" + tag)
        do_emptyfin(ctx, A, "search")


def replay(ctx: Ctx, path: str) -> int:
    data = json.load(open(path))
    rp = data.get("replay", data)
    env = {"DFA": DFA, "frozenset": frozenset}
    if rp.get("history"):
        # history-dependent case (calls made on the live objects before the comparison): the recorded
        # definitions alone do not reproduce it — re-run the two history families
        derived_after_query(ctx, 400)
        mutable_option_family(ctx, 400)
        if [f for f in ctx.prop_fails if f["key"] is None]:
            print(f"VIOLATION property=C06 replay={path}")
            print("  " + [f for f in ctx.prop_fails if f["key"] is None][0]["what"])
            return 1
        print("replay: property holds on the history families now")
        return 0
    if rp["op"] == "deep_large":
        LA, LB = DC.CmpLang(rp["A"]), DC.CmpLang(rp["B"])
        bad = run_deep_large(rp["A"], rp["B"], [rp["query"]])
        if bad:
            print(f"VIOLATION property=C06 replay={path}")
            print("  " + deep_large_what(LA, LB, bad[0][0], bad[0][1], bad[0][2]))
            return 1
        print("replay: property holds on this input now")
        return 0
    if rp["op"] == "anchor_stream":
        # the recorded stream, run up to three times over (object addresses are not part of the record)
        run_anchor_stream(ctx, eval(rp["anchor"], env), [eval(t, env) for t in rp["temporaries"]], passes=3)
        if ctx.prop_fails:
            print(f"VIOLATION property=C06 replay={path}")
            print("  " + ctx.prop_fails[0]["what"])
            return 1
        print("replay: property holds on this stream now")
        return 0
    if rp["op"] == "history":
        A, B = eval(rp["A"], env), eval(rp["B"], env)
        r = run_history(A, B, rp["steps"])
        if r is not None:
            hist = "; ".join(show_hstep(x) for x in rp["steps"][: r[0]])
            print(f"VIOLATION property=C06 replay={path}")
            print(f"  {r[1]} — step #{r[0] + 1} of the recorded sequence, asked after [{hist}]")
            return 1
        print("replay: property holds on this history now")
        return 0
    if rp["op"] == "none_row":
        none_row_corpus(ctx)
        if ctx.prop_fails:
            print(f"VIOLATION property=C06 replay={path}")
            print("  " + ctx.prop_fails[0]["what"])
            return 1
        print("replay: property holds on this input now")
        return 0
    if rp["op"] == "temporary":
        probe_temporaries(ctx)
        hits = [f for f in ctx.prop_fails if f["replay"].get("text") == rp["text"]] or ctx.prop_fails
        if hits:
            print(f"VIOLATION property=C06 replay={path}")
            print("  " + hits[0]["what"])
            return 1
        print("replay: property holds on this input now")
        return 0
    if rp["op"] == "cmp":
        do_cmp(ctx, eval(rp["A"], env), eval(rp["B"], env), "replay")
    else:
        do_emptyfin(ctx, eval(rp["A"], env), "replay")
    if ctx.prop_fails:
        print(f"VIOLATION property=C06 replay={path}")
        print("  " + ctx.prop_fails[0]["what"])
        return 1
    print("replay: property holds on this input now")
    return 0
