"""C06 — DFA language comparisons, emptiness and finiteness decisions are exact.

Correspondence: DFA_CMP (== != <= < >= > issubset issuperset isdisjoint) and
DFA_EMPTYFIN (isempty, isfinite, maximum_word_length) — real code vs. the Lean model of
the Hopcroft–Karp union–find loop, `_find_state` over the lazy product and the trimmed
digraph.  Property oracle (independent of both): complete product search over pairs of
states for a word in the symmetric difference / in A∖B / in A∩B; emptiness by
reachability of a final state; finiteness by cycle detection on the useful states.
"""
from __future__ import annotations

import json

from automata.fa.dfa import DFA

from harness import gen, langoracle
from harness.common import guarded, Ctx, Toks, call, enc_dfa, sym_names, toks
from harness.ops.C04 import reachable_count

LEVEL = "proof"
RULE = ("cases = ordered pairs of valid DFAs over one alphabet (and single DFAs for isempty/isfinite); seeded slice "
        "(quick) / all (thorough) pairs of DFAs with ≤2 states over {a,b}; shaped random pairs ≤6 states incl. "
        "language-equal pairs (renamed / minimised / completed / padded with unreachable and dead states), pairs "
        "differing on exactly one deep state's finality, strict sub-languages (intersection / union with a third "
        "DFA), partial×complete mixes; non-trivial = both have ≥2 reachable states and both languages are non-empty; "
        "distinct = distinct encoded pairs")
ASSUMPTIONS = ["operands are valid DFAs over the same alphabet (different alphabets are outside the property)"]
EXPLANATION = ("Theorems C06_* (Props/C06.lean) are about the model; this run ties the model to the code and evaluates "
               "every answer on the real code against an independent complete product search.")

NAMES = ["==", "!=", "<=", "<", ">=", ">", "issubset", "issuperset", "isdisjoint"]


def truth(A: DFA, B: DFA):
    al = A.input_symbols
    eq = langoracle.find_word([A, B], al, lambda v: v[0] != v[1]) is None
    le = langoracle.find_word([A, B], al, lambda v: v[0] and not v[1]) is None
    ge = langoracle.find_word([A, B], al, lambda v: v[1] and not v[0]) is None
    dj = langoracle.find_word([A, B], al, lambda v: v[0] and v[1]) is None
    return [eq, not eq, le, le and not eq, ge, ge and not eq, le, ge, dj]


def witness(A, B, name):
    al = A.input_symbols
    if name in ("==", "!=", "<", ">"):
        return langoracle.find_word([A, B], al, lambda v: v[0] != v[1])
    if name in ("<=", "issubset"):
        return langoracle.find_word([A, B], al, lambda v: v[0] and not v[1])
    if name in (">=", "issuperset"):
        return langoracle.find_word([A, B], al, lambda v: v[1] and not v[0])
    return langoracle.find_word([A, B], al, lambda v: v[0] and v[1])


def is_empty(d: DFA) -> bool:
    return langoracle.find_word([d], d.input_symbols, lambda v: v[0]) is None


def is_finite(d: DFA) -> bool:
    # useful states = reachable and co-reachable; finite iff no cycle among them
    reach = {d.initial_state}
    work = [d.initial_state]
    while work:
        q = work.pop()
        for t in d.transitions[q].values():
            if t not in reach:
                reach.add(t)
                work.append(t)
    live = set(d.final_states)
    changed = True
    while changed:
        changed = False
        for q, row in d.transitions.items():
            if q not in live and any(t in live for t in row.values()):
                live.add(q)
                changed = True
    useful = reach & live
    color = {}

    def dfs(q):
        color[q] = 1
        for t in d.transitions[q].values():
            if t in useful:
                c = color.get(t, 0)
                if c == 1 or (c == 0 and dfs(t)):
                    return True
        color[q] = 2
        return False
    return not any(color.get(q, 0) == 0 and dfs(q) for q in useful)


@guarded
def do_cmp(ctx: Ctx, A: DFA, B: DFA, origin: str):
    drv = ctx.driver("drv_dfa_ops")
    encA, stA, sy = enc_dfa(A)
    encB, stB, _ = enc_dfa(B, sy=sy)
    replay = dict(op="cmp", A=repr(A), B=repr(B))
    impl = [call(f) for f in (lambda: A == B, lambda: A != B, lambda: A <= B, lambda: A < B, lambda: A >= B,
                              lambda: A > B, lambda: A.issubset(B), lambda: A.issuperset(B), lambda: A.isdisjoint(B))]
    want = truth(A, B)
    ctx.stat(origin)
    ok = True
    for name, got, w in zip(NAMES, impl, want):
        if got != ("ok", w):
            ok = False
            wit = witness(A, B, name)
            ctx.prop_fail(f"A {name} B answered {got[1] if got[0]=='ok' else 'raised '+got[1]} but the languages say {w}"
                          + (f" (witness word {wit!r}: A accepts {A.accepts_input(wit)}, B accepts {B.accepts_input(wit)})" if wit is not None else ""),
                          dict(replay, comparison=name, witness=wit))
    nt = reachable_count(A) >= 2 and reachable_count(B) >= 2 and not is_empty(A) and not is_empty(B)
    ctx.case(("cmp", encA, encB) if nt else None)
    ctx.stat("equal_languages" if want[0] else ("strict_subset" if want[3] or want[5] else ("disjoint" if want[8] else "overlapping")))
    if A.allow_partial != B.allow_partial:
        ctx.stat("partial_x_complete")
    line = drv.ask(toks("DFA_CMP", encA, encB))
    if ctx.evaluations % 397 == 1:
        ctx.sample(dict(A=repr(A), B=repr(B), answers=dict(zip(NAMES, [g[1] for g in impl])), model=line))
    if line.startswith("ok "):
        mod = [("ok", bool(int(x))) for x in line.split()[1:]]
    else:
        mod = line
    if mod != impl and ok:
        ctx.corr_diff("DFA_CMP", replay, impl, mod)


@guarded
def do_emptyfin(ctx: Ctx, A: DFA, origin: str):
    drv = ctx.driver("drv_dfa_ops")
    encA, stA, sy = enc_dfa(A)
    replay = dict(op="emptyfin", A=repr(A))
    e, f = call(lambda: A.isempty()), call(lambda: A.isfinite())
    we, wf = is_empty(A), is_finite(A)
    ctx.stat(origin)
    ctx.stat("empty" if we else ("finite" if wf else "infinite"))
    ok = True
    if e != ("ok", we):
        ok = False
        ctx.prop_fail(f"isempty answered {e} but the language is {'empty' if we else 'non-empty'}", replay)
    if f != ("ok", wf):
        ok = False
        ctx.prop_fail(f"isfinite answered {f} but the language is {'finite' if wf else 'infinite'}", replay)
    ctx.case(("emptyfin", encA) if reachable_count(A) >= 2 and not we else None)
    line = drv.ask(toks("DFA_EMPTYFIN", encA)).split()
    mod = (bool(int(line[0])), bool(int(line[1])))
    if ok and mod != (we, wf):
        ctx.corr_diff("DFA_EMPTYFIN", replay, (we, wf), mod)
    # maximum_word_length as a by-product (C13 owns it): compare when the model answers
    mwl = call(lambda: A.maximum_word_length())
    m_mwl = (line[2], line[3] if len(line) > 3 else "")
    want = ("err", "EmptyLanguageException") if mwl[0] == "err" else ("ok", "N" if mwl[1] is None else str(mwl[1]))
    if ok and m_mwl != want:
        ctx.corr_diff("DFA_EMPTYFIN.max_word_length", replay, want, m_mwl)


def variants(rng, A: DFA):
    """Language-equal and nearly-equal variants of A."""
    out = []
    k = rng.random()
    if k < 0.2:
        out.append(("equal_minified", A.minify()))
    elif k < 0.35:
        out.append(("equal_completed", A.to_complete()))
    elif k < 0.5:
        # rename states
        names = gen.name_pool(rng, len(A.states))
        if len(names) == len(A.states):
            m = dict(zip(A.states, names))
            out.append(("equal_renamed", DFA(states=set(m.values()), input_symbols=A.input_symbols,
                                             transitions={m[q]: {a: m[t] for a, t in row.items()} for q, row in A.transitions.items() if q in m},
                                             initial_state=m[A.initial_state], final_states={m[q] for q in A.final_states},
                                             allow_partial=A.allow_partial)))
    elif k < 0.75:
        # flip the finality of one (deep) reachable state: differs on few words
        order = [A.initial_state]
        seen = {A.initial_state}
        for q in order:
            for t in A.transitions[q].values():
                if t not in seen:
                    seen.add(t)
                    order.append(t)
        q = order[-1] if rng.random() < 0.7 else rng.choice(order)
        fin = set(A.final_states) ^ {q}
        out.append(("one_state_flipped", DFA(states=A.states, input_symbols=A.input_symbols, transitions=A.transitions,
                                             initial_state=A.initial_state, final_states=fin, allow_partial=A.allow_partial)))
    else:
        C = gen.rand_dfa(rng, 4, sorted(A.input_symbols))
        out.append(("sub_language", A.intersection(C, minify=rng.random() < 0.5)))
        out.append(("super_language", A.union(C, minify=rng.random() < 0.5)))
    return out


def run(ctx: Ctx):
    rng = ctx.rng
    pool = [d for n in (1, 2) for d in gen.all_dfas(n, ("a", "b"))]
    if ctx.thorough():
        n_pairs = len(pool) ** 2
        every = max(1, n_pairs // ctx.budget(1, 150000))
        i = 0
        for a in pool:
            for b in pool:
                if i % every == 0:
                    do_cmp(ctx, a, b, "small_pairs")
                i += 1
        if every == 1:
            ctx.exhaustive(f"all {n_pairs} ordered pairs of DFAs with ≤2 states over {{a,b}}")
    else:
        for _ in range(ctx.budget(5000, 0)):
            do_cmp(ctx, rng.choice(pool), rng.choice(pool), "small_pairs")
    for a in pool:
        do_emptyfin(ctx, a, "small_single")
    ctx.exhaustive("isempty / isfinite on all DFAs with ≤2 states over {a,b}")
    for _ in range(ctx.budget(2500, 50000)):
        al = rng.choice(gen.ALPHABETS)
        A = gen.rand_dfa(rng, 6, al)
        if rng.random() < 0.5:
            B = gen.rand_dfa(rng, 6, al)
            do_cmp(ctx, A, B, "random_pair")
        else:
            for tag, B in variants(rng, A):
                if rng.random() < 0.5:
                    do_cmp(ctx, A, B, tag)
                else:
                    do_cmp(ctx, B, A, tag)
        do_emptyfin(ctx, A, "random_single")


def search(ctx: Ctx):
    rng = ctx.rng
    for _ in range(ctx.budget(15000, 80000)):
        if ctx.n_prop_fails:
            return
        al = rng.choice(gen.ALPHABETS)
        A = gen.rand_dfa(rng, 7, al)
        for tag, B in variants(rng, A) + [("random_pair", gen.rand_dfa(rng, 7, al))]:
            do_cmp(ctx, A, B, "search_" + tag)
            do_cmp(ctx, B, A, "search_" + tag)
        do_emptyfin(ctx, A, "search")


def replay(ctx: Ctx, path: str) -> int:
    data = json.load(open(path))
    rp = data.get("replay", data)
    env = {"DFA": DFA, "frozenset": frozenset}
    if rp["op"] == "cmp":
        do_cmp(ctx, eval(rp["A"], env), eval(rp["B"], env), "replay")
    else:
        do_emptyfin(ctx, eval(rp["A"], env), "replay")
    if ctx.prop_fails:
        print(f"VIOLATION property=C06 replay={path}")
        print("  " + ctx.prop_fails[0]["what"])
        return 1
    print("replay: property holds on this input now")
    return 0
