"""C08 — NFA regular operations are total and compute the textbook language operations.

Correspondence: NFA_OP <op> A [B] — the real `union`, `concatenate`, `kleene_star`, `option`,
`reverse`, `intersection`, `shuffle_product`, `left_quotient`, `right_quotient` and the
operators `| + &` against the Lean model (Model/NFAOps.lean).  The code determines the state
names of every result (positions in the iteration order of the operand's state set, the
first unused natural number, pairs, triples), so results are compared *exactly*: states,
alphabet, initial state, final states, every row, every target set, exception class.

Property on the real code, independent of the model: the call must not raise, the result
must pass `validate()`, and its language must be the textbook operation of the operand
languages — checked (a) by brute force over all words up to a bound through the real
reader of operands and result, (b) for all lengths, by an independent subset-construction
equivalence check of the result against a textbook construction built here on raw
tables (tagged disjoint union, product, silent-product reachability for the quotients).
Compositions: results of real operations are fed back as operands (expression trees of
depth ≤ 3), every step checked in the same way.
"""
from __future__ import annotations

import json

from automata.fa.nfa import NFA

from harness import gen
from harness import names_xtype as X
from harness import nfa_mutable as M
from harness import nfa_ops_deep as D6
from harness import nfaops_lib as L
from harness.common import Ctx, InfraError, Names, call, nfa_iso

LEVEL = "proof"
RULE = ("cases = (operation, valid NFA operand(s)); corpus of past defects (F6, F12), bounded-exhaustive small "
        "operands, then shaped random operands (≤5 states, ε-moves, adversarial name pools, degenerate families: "
        "empty language with a single non-final state, universal, disjoint / overlapping alphabets, overlapping "
        "names, ε-only, states without rows, empty target sets, rows keyed by non-states; live 'dense' operands and "
        "operands with extra final states so that about half of the results are non-empty; the SAME OBJECT on both "
        "sides (A + A, A & A, …) exhaustively for small A and at random; empty-alphabet operands; round 4: state names "
        "EQUAL ACROSS TYPES — naturals written as float / Fraction / Decimal / complex / bool, single-type and mixed pools, "
        "with gaps — under all operations and in compositions; the mutable-automata option: live operands built under "
        "allow_mutable_automata=True from plain / ALIASED (one set object for equal target sets, final_states is states, "
        "shared rows) / copied containers, SEQUENCES of 3–8 operations and reads on the same objects incl. earlier "
        "results, operands that use few target sets in many places under the quotients, every result judged against the "
        "definitions AS BUILT) and random expression "
        "trees of depth ≤3 whose intermediate real results are fed back as operands; round 6 (deep / large instances): 50 "
        "templates per run — all nine operations and | + & at least once, and results fed into further operations — on "
        "operands with 1100–3000 states where the real code is linear (chains of one long word with int / string / offset "
        "names, all states final, ε-chains of 150–250 moves, rings, from_finite_language of one long word, 1100–1500 distinct "
        "symbols, fans with a target set of 1100–1600 states, the same object on both sides, a fold of 30 concatenations) and "
        "a few hundred where construction or reading is inherently quadratic (coprime rings, shuffle / quotients of two chains, "
        "quotients by Σ*), sizes drawn per run, judged on threshold words around the key words by a closed form from the "
        "construction parameters (each template also at a scaled-down size through the ordinary oracles); a case is non-trivial when "
        "every operand has ≥2 states and the result language is neither empty nor universal up to the word "
        "bound; distinct = distinct (operation, operand definitions)")
ASSUMPTIONS = [
    "operands are NFAs that pass validate(); state names are hashable; symbols are single characters",
    "Python set/dict semantics are modelled (lists / association lists); the iteration order of the operand "
    "state sets is sent to the model (it determines the names chosen by _get_state_maps)",
    "isinstance(other, NFA) tests and the global option should_validate_automata=False are outside the model",
    "mutable-automata option (round 4): allow_mutable_automata=True only changes the container types the constructor "
    "stores; the property is read as 'the result has the textbook language of the definitions the operands were built "
    "with, whatever was called on the objects before' — judged against frozen twins; the model is asked only while the "
    "live operands still have those definitions (stat mutable_option_definition_changed otherwise)",
    "deep family (round 6): time is not part of the property — instances whose construction or whose reading is inherently "
    "quadratic on the unchanged library (shuffle / quotients of two ≥1100-state operands, ε-chains > 250, quotients by Σ* and "
    "star of a unary all-final chain above 400 states) are scaled down to a few hundred states (stats deep:excluded:*); a case "
    "that does not answer within 20 s (clean: < 0.4 s) is reported as a failure",
    "names equal across types (round 4): 0, 0.0, False, Fraction(0), Decimal(0), 0j are one key of a Python set; the "
    "wire format sends every such name as the natural number it equals (nfaops_lib.nat_of), which is how the model's "
    "first-unused-natural search sees it",
]
EXPLANATION = ("Theorems C08_* state, for every pair of valid NFAs, that the model of each operation returns a "
               "valid NFA (no error branch) with the textbook language; this run ties the model to the code by "
               "exact differential comparison of the constructed automata and evaluates the property itself on "
               "the real results with independent oracles.  For operands far beyond the sizes the model's driver and the "
               "brute-force oracles can handle (1100–3000 states: deep family) the property — no exception, validate(), "
               "alphabet, language on threshold words — is evaluated with closed-form answers derived from the construction "
               "parameters (stat deep:judged_by_closed_form(no_model_round_trip)); size thresholds in the code (recursion depth, "
               "fixed-size caches / probes / buffers) are therefore observed although the model has none.")

UNARY = ["kleene_star", "option", "reverse"]
BINARY = ["union", "concatenate", "intersection", "shuffle_product", "right_quotient", "left_quotient"]
OPERATORS = {"or": lambda a, b: a | b, "add": lambda a, b: a + b, "and": lambda a, b: a & b}
ALL_BINARY = BINARY + list(OPERATORS)


def apply_real(op: str, A: NFA, B):
    if op in OPERATORS:
        return OPERATORS[op](A, B)
    if op in UNARY:
        return getattr(A, op)()
    return getattr(A, op)(B)


def state_mapper(op: str, stA: L.StateEnc, stB):
    if op in ("union", "concatenate", "or", "add"):
        def f(q):
            k = L.nat_of(q)
            return k if k is not None else ("non-int", repr(q))
        return f
    if op in UNARY:
        return lambda q: stA(q)
    if op in ("intersection", "shuffle_product", "and"):
        def f(q):
            if isinstance(q, tuple) and len(q) == 2:
                return (stA(q[0]), stB(q[1]))
            return ("not-a-pair", repr(q))
        return f

    def f(q):
        if isinstance(q, tuple) and len(q) == 3:
            return (stA(q[0]), stB(q[1]), int(bool(q[2])))
        return ("not-a-triple", repr(q))
    return f


def oracle(ctx: Ctx, op: str, A: NFA, B, res, case: dict, thorough_equiv: bool = True, pre: str = ""):
    """Evaluate the property on the real result.  Returns a dict of language facts.
    A, B: the operands the judgement is about (for live objects under the mutable-automata option: their
    frozen twins, the definitions AS BUILT); `pre`: prefix of the failure text (the call history)."""
    facts = dict(empty=None, universal=None)
    if res[0] == "err":
        ctx.prop_fail(pre + f"{op} raised {res[1]} on valid operand(s)", dict(case, failure=f"raised {res[1]}"), None)
        return facts
    R = res[1]
    if not isinstance(R, NFA):
        ctx.prop_fail(pre + f"{op} returned {type(R).__name__}, not an NFA", dict(case, failure="not an NFA"), None)
        return facts
    v = call(R.validate)
    if v[0] == "err":
        ctx.prop_fail(pre + f"{op} returned an NFA that fails validate(): {v[1]}", dict(case, failure=f"invalid result {v[1]}"), None)
        return facts
    sigma = set(A.input_symbols) | (set(B.input_symbols) if B is not None else set())
    if set(R.input_symbols) != sigma:
        ctx.prop_fail(pre + f"{op}: result alphabet {sorted(R.input_symbols)} is not the union of the operand alphabets",
                      dict(case, failure="alphabet"), None)
    bound = L.bound_for(sorted(sigma))
    LR = L.lang_real(R, sigma, bound)
    LA = L.lang_real(A, sigma, bound)
    LB = L.lang_real(B, sigma, bound) if B is not None else None
    rawA = L.raw_of(A, 0)
    rawB = L.raw_of(B, 1) if B is not None else None
    T = L.TEXTBOOK1[op](rawA) if B is None else L.TEXTBOOK2[op](rawA, rawB)
    n_words = 0
    bad = None
    for w in L.words_upto(sorted(sigma), bound):
        n_words += 1
        exp = L.textbook_member(op, w, LA, LB)
        if exp is None:
            exp = T.accepts(w)
        if (w in LR) != exp:
            bad = (w, exp)
            break
    facts["empty"] = not LR
    facts["universal"] = len(LR) == n_words
    if bad is None and thorough_equiv:
        verdict, w = L.distinguish(L.raw_of(R), T, sigma, budget=1500)
        if verdict == "budget":   # second, much larger try; what is left is reported as a note by run()
            verdict, w = L.distinguish(L.raw_of(R), T, sigma, budget=60000)
        ctx.stat("equiv_" + verdict)
        if verdict == "differ":
            bad = (w, T.accepts(w))
    if bad is not None:
        w, exp = bad
        # re-confirm through the real accepts_input of operands and result
        got = R.accepts_input(w)
        ops_say = dict(A=A.accepts_input(w)) if B is None else dict(A=A.accepts_input(w), B=B.accepts_input(w))
        if got != exp:
            ctx.prop_fail(pre + f"{op}: result {'accepts' if got else 'rejects'} {w!r} but the textbook operation "
                          f"{'contains' if exp else 'does not contain'} it (operands on this word: {ops_say})",
                          dict(case, failure="language", word=w, result_accepts=got, expected=exp), None)
        else:
            ctx.note(f"oracle disagreement not confirmed by accepts_input on {w!r} ({op})")
    return facts


def _same_up_to_renaming(impl, mod) -> bool:
    def live(p):
        # rows keyed by names that are not states (accepted by validation, never reachable: every
        # target is a state) play no role in the language; which of them survive an operation is
        # not part of the property
        st = set(p["states"])
        return dict(p, trans={k: r for k, r in p["trans"].items() if k in st})
    try:
        return (impl[0] == "ok" and mod[0] == "ok" and isinstance(impl[1], dict) and isinstance(mod[1], dict)
                and len(impl[1]["states"]) <= 40 and nfa_iso(live(impl[1]), live(mod[1])))
    except Exception:  # noqa: BLE001
        return False


def check_op(ctx: Ctx, op: str, A: NFA, B, origin: str, refA=None, refB=None, seq=None):
    """One case; returns the real result NFA (or None).
    refA / refB / seq: A and B are LIVE objects under allow_mutable_automata=True on which the sequence `seq` of
    calls is being made; the real call is made on them, the oracles judge it against their frozen twins refA /
    refB (the definitions AS BUILT), `seq` is the replay.  The model is asked (with the live iteration orders,
    taken before the call) only while the live operands still have the definitions they were built with."""
    drv = ctx.driver("drv_nfa_ops")
    liveA, liveB = A, B
    sigma = set(A.input_symbols) | (set(B.input_symbols) if B is not None else set())
    sy = Names(sorted(sigma))
    encA, stA = L.enc_nfax(A, sy)
    encB, stB = (L.enc_nfax(B, sy) if B is not None else ("", None))
    pre, ask_model = "", True
    if seq is not None:
        ask_model = not M.drifted(liveA, refA) and (B is None or not M.drifted(liveB, refB))
        A, B = refA, (refB if B is not None else None)
        sigma = set(A.input_symbols) | (set(B.input_symbols) if B is not None else set())
        pre = (f"under allow_mutable_automata=True ({seq['mode']} containers), call {len(seq['steps'])} of the sequence "
               f"{seq['steps']!r} on the same objects: ")
    res = call(lambda: apply_real(op, liveA, liveB))
    case = dict(seq) if seq is not None else dict(op=op, A=repr(A), B=repr(B) if B is not None else None)
    if not ask_model:
        ctx.stat("mutable_option_definition_changed")
        facts = oracle(ctx, op, A, B, res, case, pre=pre)
        ctx.case(None)
        ctx.stat(origin)
        ctx.stat("op_" + op)
        return res[1] if res[0] == "ok" and isinstance(res[1], NFA) else None
    line = drv.ask(f"NFA_OP {op} {encA} {encB}".strip())
    mod = L.parse_res_nfag(line)
    if res[0] == "ok" and isinstance(res[1], NFA):
        impl = ("ok", L.plain(res[1], sy, state_mapper(op, stA, stB)))
    elif res[0] == "ok":
        impl = ("ok", repr(res[1]))
    else:
        impl = res
    facts = oracle(ctx, op, A, B, res, case, pre=pre)
    big = len(A.states) >= 2 and (B is None or len(B.states) >= 2)
    nontrivial = big and facts["empty"] is False and facts["universal"] is False
    ctx.case((op, encA, encB, seq["mode"] if seq else None) if nontrivial else None)
    ctx.stat(origin)
    ctx.stat("op_" + op)
    if res[0] == "err":
        ctx.stat("impl_raised_" + res[1])
    if facts["empty"]:
        ctx.stat("result_empty_upto_bound")
        ctx.stat("result_empty_upto_bound_" + origin)
    elif facts["empty"] is False:
        ctx.stat("result_nonempty_upto_bound_" + origin)
    if facts["universal"]:
        ctx.stat("result_universal_upto_bound")
    if liveB is liveA:
        ctx.stat("same_object_both_operands")
    if not A.input_symbols or (B is not None and not B.input_symbols):
        ctx.stat("empty_alphabet_operand")
    if not sigma:
        ctx.stat("empty_alphabet_result")
    if L.has_junk_rows(A) or (B is not None and L.has_junk_rows(B)):
        ctx.stat("operand_with_row_keyed_by_non_state")
    if any("" in row for row in A.transitions.values()):
        ctx.stat("operand_A_has_eps")
    if B is not None:
        if not (set(A.input_symbols) & set(B.input_symbols)):
            ctx.stat("alphabets_disjoint")
        elif set(A.input_symbols) != set(B.input_symbols):
            ctx.stat("alphabets_overlapping")
        if set(A.states) & set(B.states):
            ctx.stat("overlapping_state_names")
    if res[0] == "ok" and isinstance(res[1], NFA):
        ctx.stat(f"result_states_{min(len(res[1].states), 30) // 5 * 5}+")
    if ctx.evaluations % 499 == 1:
        ctx.sample(dict(op=op, A=repr(A), B=repr(B) if B is not None else None,
                        result=repr(res[1]) if res[0] == "ok" else res, model_line=line[:400]))
    if impl != mod:
        if _same_up_to_renaming(impl, mod):
            # the code and the model produce the same automaton up to a bijective renaming of its
            # states (e.g. another choice of the fresh initial state).  C08 speaks about languages
            # and validity only, and both are invariant under an injective renaming
            # (Proofs/NFAMapStates.lean: mapStates_valid_lang), so the theorems carry over.
            ctx.stat("result_equal_to_model_up_to_state_renaming")
        else:
            ctx.corr_diff("NFA_OP " + op, case, impl, mod)
    return res[1] if res[0] == "ok" and isinstance(res[1], NFA) else None


# ------------------------------------------------------------------ generators
def corpus():
    """Triggers of past defects (F6, F12) and hand-picked edge cases."""
    A6 = NFA(states={0, 1}, input_symbols={"a"}, transitions={0: {"a": {1}}}, initial_state=0, final_states={1})
    B6 = NFA(states={0}, input_symbols={"a"}, transitions={}, initial_state=0, final_states=set())
    yield "left_quotient", A6, B6
    yield "right_quotient", A6, B6
    B6b = NFA(states={"x"}, input_symbols={"b"}, transitions={"x": {"b": {"x"}}}, initial_state="x", final_states={"x"})
    yield "left_quotient", A6, B6b          # no common symbol
    yield "left_quotient", B6b, A6
    # F12: rows keyed by non-states
    J = NFA(states={0}, input_symbols={"a"}, transitions={0: {"a": {0}}, 7: {"a": {0}}}, initial_state=0, final_states={0})
    P = NFA(states={0}, input_symbols={"a"}, transitions={0: {"a": {0}}}, initial_state=0, final_states={0})
    for op in ("union", "concatenate"):
        yield op, J, P
        yield op, P, J
    yield "reverse", J, None
    # the test-suite's own NFA: junk key 3 collides with nothing; junk key = fresh name collides in reverse
    T = NFA(states={0, 1, 2, 4}, input_symbols={"a", "b"},
            transitions={0: {"a": {1}}, 1: {"a": {2}, "b": {1, 2}}, 2: {}, 3: {"a": {2}, "b": {2}}},
            initial_state=0, final_states={2})
    yield "reverse", T, None
    for op in UNARY:
        yield op, T, None
    J2 = NFA(states={0, 2}, input_symbols={"a"}, transitions={0: {"a": {2}}, 1: {"a": {0}, "": {2}}, 2: {}},
             initial_state=0, final_states={2})   # junk key 1 = the name _add_new_state picks
    for op in UNARY:
        yield op, J2, None
    for op in BINARY:
        yield op, J2, T
        yield op, T, J2


def random_pair(rng, max_states=4):
    """(family label, A, B) with the alphabet / name relations of DESIGN.md §5."""
    r = rng.random()
    base = list(rng.choice(gen.ALPHABETS))
    if r < 0.5:
        sa, sb, fam = base, base, "same_alphabet"
    elif r < 0.65:
        k = max(1, len(base) // 2)
        sa, sb, fam = base[:k], (base[k:] or ["#"]), "disjoint_alphabets"
    else:
        sa = base[: max(1, len(base) - 1)]
        sb = base[-max(1, len(base) - 1):]
        fam = "overlapping_alphabets"
    names = None
    if rng.random() < 0.4:
        names = gen.name_pool(rng, max_states)   # both operands draw from the same names
        fam += "+same_names"

    def one(alpha):
        q = rng.random()
        if q < 0.18:
            return L.degenerate_nfa(rng, alpha, list(names) if names else None)[1]
        if q < 0.36:
            return dense_nfa(rng, alpha, max_states, list(names) if names else None)
        n = gen.rand_nfa(rng, max_states, alphabet=alpha, names=list(names) if names else None)
        if q > 0.85:
            n = L.with_junk_rows(rng, n)
        if rng.random() < 0.5:
            n = more_finals(rng, n)
        return n
    return fam, one(sa), one(sb)


def more_finals(rng, n: NFA, p: float = 0.3) -> NFA:
    """The same automaton with every state additionally final with probability p (raises the share of
    non-empty result languages: products and quotients of sparse random operands are mostly empty)."""
    extra = {q for q in n.states if rng.random() < p}
    if not extra:
        extra = {n.initial_state} if rng.random() < 0.5 else set()
    return NFA(states=n.states, input_symbols=n.input_symbols, transitions=n.transitions,
               initial_state=n.initial_state, final_states=set(n.final_states) | extra)


def dense_nfa(rng, alpha, max_states=4, names=None) -> NFA:
    """A live operand: every state has a row with every symbol and ≥1 target, ≥1 final state reachable."""
    k = rng.randint(2, max_states)
    st = (list(names) if names else gen.name_pool(rng, k))[:k]
    k = len(st)
    tr = {}
    for q in st:
        row = {a: {rng.choice(st) for _ in range(rng.randint(1, 2))} for a in alpha}
        if rng.random() < 0.25:
            row[""] = {rng.choice(st)}
        tr[q] = row
    fin = {q for q in st if rng.random() < 0.5} or {rng.choice(st)}
    return NFA(states=set(st), input_symbols=set(alpha), transitions=tr, initial_state=st[0], final_states=fin)


def empty_alphabet_nfa(rng) -> NFA:
    """input_symbols = ∅: only ε-moves; the language is ∅ or {''}."""
    k = rng.randint(1, 3)
    st = gen.name_pool(rng, k)
    k = len(st)
    tr = {}
    for q in st:
        if rng.random() < 0.75:
            tr[q] = {"": {rng.choice(st) for _ in range(rng.randint(0, 2))}} if rng.random() < 0.7 else {}
    if k > 1 or rng.random() < 0.5:
        tr.setdefault(st[0], {})
    return NFA(states=set(st), input_symbols=set(), transitions=tr, initial_state=st[0],
               final_states={q for q in st if rng.random() < 0.5})


def random_tree(ctx: Ctx, rng, depth: int):
    """Evaluate a random expression tree on the real code, checking every application."""
    if depth == 0 or rng.random() < 0.2:
        alpha = rng.choice([("a", "b"), ("a",), ("a", "b", "c")])
        q = rng.random()
        if q < 0.15:
            return L.degenerate_nfa(rng, alpha)[1]
        if q < 0.4:
            return dense_nfa(rng, alpha, 3)
        n = gen.rand_nfa(rng, 3, alphabet=alpha)
        return more_finals(rng, n) if rng.random() < 0.5 else n
    if rng.random() < 0.4:
        op = rng.choice(UNARY)
        X = random_tree(ctx, rng, depth - 1)
        if X is None:
            return None
        return check_op(ctx, op, X, None, "composition")
    op = rng.choice(ALL_BINARY)
    X = random_tree(ctx, rng, depth - 1)
    Y = X if rng.random() < 0.12 else random_tree(ctx, rng, depth - 1)   # sometimes the same object twice
    if X is None or Y is None:
        return None
    if op in ("shuffle_product", "right_quotient", "left_quotient", "intersection", "and") and \
            len(X.states) * len(Y.states) > 36:
        op = rng.choice(["union", "concatenate", "or", "add"])
    if len(X.states) + len(Y.states) > 60:
        return None
    return check_op(ctx, op, X, Y, "composition")


# ------------------------------------------------------------------ round 4: the mutable-automata option
def run_mutable_sequence(ctx: Ctx, refs: list, mode: str, steps: list, origin: str):
    """allow_mutable_automata=True: live operands built from plain (possibly shared) containers — `refs` are their
    frozen twins, the definitions AS BUILT — and a SEQUENCE of operations and reads on those same objects.  Steps
    (JSON lists; i, j index the object list, which starts as the live operands):
      ["op", name, i, j|null]   the operation on objects i (and j; j == i: the same object on both sides); the
                                result is judged by the oracles of check_op against the twins and — when it is
                                right — appended to the object list (its twin: a frozen copy made at once), so
                                later steps use it as an operand although it may share containers with objects
                                that are still in use;
      ["read", i, w]            objects[i].accepts_input(w) against the table semantics of the twin.
    The sequence stops at the first failing step."""
    keep: list = []
    with M.mutable_option():
        objs = [M.build_live(r, mode, keep) for r in refs]
        twins = list(refs)
        ctx.stat(f"mutable_option_sequence_{mode}")
        if any(M.sharing_of(o) for o in objs):
            ctx.stat("mutable_option_operand_with_shared_containers")
        for k, step in enumerate(steps):
            seq = dict(op="mutable_sequence", objs=[repr(r) for r in refs], mode=mode, steps=[list(x) for x in steps[:k + 1]])
            n0 = ctx.n_prop_fails
            if step[0] == "read":
                _, i, w = step
                if i >= len(objs):
                    continue
                got = call(lambda: objs[i].accepts_input(w))
                want = L.raw_of(twins[i]).accepts(w)
                ctx.stat("mutable_option_step_read")
                if got != ("ok", want):
                    ctx.prop_fail(f"under allow_mutable_automata=True ({mode} containers), call {k + 1} of the sequence "
                                  f"{seq['steps']!r} on the same objects: accepts_input({w!r}) of operand {i} is "
                                  f"{got[1] if got[0] == 'ok' else 'raised ' + got[1]}, its transition tables as built say "
                                  f"{want}; the operations are judged on the same definitions", dict(seq, word=w), None)
            else:
                _, name, i, j = step
                if i >= len(objs) or (j is not None and j >= len(objs)):
                    continue          # an earlier step gave no usable result (size cap)
                if name not in UNARY and j is None:
                    continue
                X, X0 = objs[i], twins[i]
                Y, Y0 = (objs[j], twins[j]) if j is not None and name not in UNARY else (None, None)
                ctx.stat("mutable_option_step_op")
                R = check_op(ctx, name, X, Y, origin, refA=X0, refB=Y0, seq=seq)
                if R is not None and ctx.n_prop_fails == n0 and len(R.states) <= 40:
                    objs.append(R)
                    twins.append(M.frozen_twin(R))
            if ctx.n_prop_fails > n0:
                return
        for o, t in zip(objs, twins):
            if M.drifted(o, t):
                ctx.stat("mutable_option_definition_changed_at_end")
                break


def _random_steps(rng, refs: list, k: int) -> list:
    """k steps over a growing object list (every op step is expected to add one object)."""
    n = len(refs)
    sigma = sorted(set().union(*[set(r.input_symbols) for r in refs if r is not None]))
    steps = []
    for _ in range(k):
        q = rng.random()
        if q < 0.15:
            steps.append(["read", rng.randrange(n), gen.rand_word(rng, sigma, 5) if sigma else ""])
        elif q < 0.4:
            steps.append(["op", rng.choice(UNARY), rng.randrange(n), None])
            n += 1
        else:
            name = rng.choice(ALL_BINARY + ["left_quotient", "right_quotient"])   # the quotients twice as often
            i = rng.randrange(n)
            j = i if rng.random() < 0.15 else rng.randrange(n)
            steps.append(["op", name, i, j])
            n += 1
    return steps


def mutable_option_family(ctx: Ctx, n: int):
    """Bounded-exhaustive part: every 12th (thorough: every 3rd) 2-state NFA over {a} with ε as A, B = a fixed 2-state
    operand, built from plain and from aliased containers, the fixed sequence right_quotient, left_quotient (both
    orders), kleene_star, reverse, union, right_quotient again on the same objects.  Random part: shaped pairs of
    operands (≤4 states, ε-moves likely, all name pools), all five live modes, 3–6 random steps including steps
    on earlier results."""
    rng = ctx.rng
    fixed = [["op", "right_quotient", 0, 1], ["op", "left_quotient", 0, 1], ["op", "left_quotient", 1, 0],
             ["op", "kleene_star", 0, None], ["op", "reverse", 0, None], ["op", "union", 0, 1],
             ["op", "right_quotient", 0, 0], ["op", "right_quotient", 0, 1]]
    B0 = NFA(states={0, 1}, input_symbols={"a"}, transitions={0: {"a": {1}, "": {1}}, 1: {"a": {1}}}, initial_state=0,
             final_states={1})
    twos = list(gen.all_nfas(2, ("a",)))
    for A0 in twos[::(3 if ctx.thorough() else 12)]:
        for mode in ("plain", "aliased"):
            run_mutable_sequence(ctx, [A0, B0], mode, fixed, "mutable_option_exhaustive")
    ctx.exhaustive("allow_mutable_automata=True: " + ("every 3rd" if ctx.thorough() else "every 12th") + " 2-state NFA over {a} "
                   "(with ε) against a fixed 2-state operand, built from plain and from aliased containers, 8 operations in a "
                   "row on the same objects (quotients in both orders, star, reverse, union, A/A, the first quotient again), "
                   "each result judged against the definitions as built")
    for _ in range(n):
        alpha = list(rng.choice(gen.ALPHABETS[:3]))
        names = gen.name_pool(rng, 4) if rng.random() < 0.3 else None

        def one():
            q = rng.random()
            if q < 0.25:
                return dense_nfa(rng, alpha, 4, list(names) if names else None)
            if q < 0.55:
                return M.pooled_nfa(rng, alpha, 4, list(names) if names else None)
            x = gen.rand_nfa(rng, 4, alphabet=alpha, names=list(names) if names else None,
                             eps=rng.choice([0.15, 0.35, 0.6, 0.6]))
            if q > 0.9:
                x = L.with_junk_rows(rng, x)
            return more_finals(rng, x) if rng.random() < 0.6 else x
        refs = [one(), one()]
        mode = M.pick_mode(rng)
        run_mutable_sequence(ctx, refs, mode, _random_steps(rng, refs, rng.randint(3, 6)), "mutable_option")
    # operands that use a few target sets in many places (ONE set object per distinct target set in the aliased
    # modes) under the operations that edit a working copy of the operand's table: the quotients in both orders and
    # with the same object on both sides, then two random steps
    quot = [["op", "right_quotient", 0, 1], ["op", "left_quotient", 0, 1], ["op", "right_quotient", 1, 0],
            ["op", "left_quotient", 1, 0], ["op", "right_quotient", 0, 0]]
    for _ in range(max(n // 2, 1)):
        alpha = list(rng.choice(gen.ALPHABETS[:3]))
        refs = [M.pooled_nfa(rng, alpha, 4), M.pooled_nfa(rng, alpha, 4, gen.name_pool(rng, 4) if rng.random() < 0.3 else None)]
        if rng.random() < 0.5:
            refs.reverse()
        mode = rng.choice(["aliased", "aliased", "aliased", "copy_of_aliased", "aliased_rows"])
        run_mutable_sequence(ctx, refs, mode, quot + _random_steps(rng, refs + [None] * 5, 2), "mutable_option_shared_targets")


# ------------------------------------------------------------------ round 4: names equal across types
def renamed(n: NFA, names: list) -> NFA:
    """The same automaton with its i-th state (in a fixed order) called names[i]."""
    order = sorted(n.states, key=repr)
    f = dict(zip(order, names))
    junk = [k for k in n.transitions if k not in f]
    for k in junk:
        f[k] = ("junk", repr(k))
    return NFA(states={f[q] for q in n.states}, input_symbols=set(n.input_symbols),
               transitions={f[k]: {a: {f[t] for t in ts} for a, ts in row.items()} for k, row in n.transitions.items()},
               initial_state=f[n.initial_state], final_states={f[q] for q in n.final_states})


def cross_type_names_family(ctx: Ctx, n: int):
    """State names that are EQUAL ACROSS TYPES (0 == 0.0 == False == Fraction(0) == Decimal(0) == 0j, equal hashes):
    in a set they are one key whatever the caller wrote, so the name an operation invents (first unused natural
    number, index in the state order) must be compared by ==, not by type.  Bounded-exhaustive part: every 60th
    (thorough: 12th) 2-state NFA over {a} renamed into each single-type pool and two mixed ones × the three unary
    operations (the ones that add a fresh state).  Random part: shaped operands with names from all styles of
    `names_xtype.xtype_pool` (also with gaps, so that the first free natural is 0 / in the middle / at the end) under
    all unary and binary operations, the second operand named from the same pool, from another pool or ordinarily;
    and as leaves of depth-2 compositions (star of reverse of …)."""
    rng = ctx.rng
    twos = list(gen.all_nfas(2, ("a",)))
    pools = [[0.0, 1.0], [X.Fraction(0), X.Fraction(1)], [X.Decimal(0), X.Decimal(1)], [0j, 1 + 0j], [False, True],
             [1.0, 0], [0, 2.0], [1, X.Fraction(2)]]
    for A in twos[::(12 if ctx.thorough() else 60)]:
        for pool in pools:
            B = renamed(A, pool)
            for op in UNARY:
                check_op(ctx, op, B, None, "cross_type_names_exhaustive")
    ctx.exhaustive(("every 12th" if ctx.thorough() else "every 60th") + " 2-state NFA over {a} with its states renamed to "
                   "{0.0,1.0}, {Fraction(0),Fraction(1)}, {Decimal(0),Decimal(1)}, {0j,1+0j}, {False,True}, {1.0,0}, {0,2.0}, "
                   "{1,Fraction(2)} × kleene_star, option, reverse")
    for _ in range(n):
        alpha = list(rng.choice(gen.ALPHABETS[:4]))
        k = rng.randint(1, 4)

        def one(names):
            q = rng.random()
            if q < 0.15:
                return L.degenerate_nfa(rng, alpha, list(names))[1]
            if q < 0.45 and len(names) >= 2:
                return dense_nfa(rng, alpha, len(names), list(names))
            x = gen.rand_nfa(rng, len(names), alphabet=alpha, names=list(names), min_states=len(names))
            if q > 0.9:
                x = L.with_junk_rows(rng, x)
            return more_finals(rng, x) if rng.random() < 0.5 else x
        na = X.xtype_pool(rng, k)
        A = one(na)
        q = rng.random()
        nb = na if q < 0.3 else X.xtype_pool(rng, rng.randint(1, 4)) if q < 0.7 else gen.name_pool(rng, rng.randint(1, 4))
        B = one(nb)
        ctx.stat("cross_type_names_" + ("yes" if X.has_cross_type_name(A.states) else "no"))
        for op in UNARY:
            R = check_op(ctx, op, A, None, "cross_type_names")
            if R is not None and rng.random() < 0.35:             # the result (old names + the invented one) again
                check_op(ctx, rng.choice(UNARY), R, None, "cross_type_names_composition")
        for op in rng.sample(ALL_BINARY, 3):
            if rng.random() < 0.5:
                check_op(ctx, op, A, B, "cross_type_names")
            else:
                check_op(ctx, op, B, A, "cross_type_names")



# ------------------------------------------------------------------ round 6: deep / large instances
# Operands with 1100–3000 states (a few hundred where the construction is a product), described by a small spec
# (harness/nfa_ops_deep.py) from which the real operands are built with the library's constructor and the language
# of the result is known in CLOSED FORM from the construction parameters — no model round trip, no brute force.
def deep_templates(rng, small: bool):
    """[(label, case)] — case = {"expr": tree, "probes": [rle, …]} (see harness/nfa_ops_deep.py).  The same code
    produces the deep instances and their scaled-down twins.  Sizes (measured on the unchanged library):
      u   1100–3000 symbols  — the primary template of every operation (construction and reading are linear);
      s, v  1100–1400        — the secondary templates (other names, same object on both sides, ε-chains, compositions);
      t   1100–1500 DISTINCT symbols (an alphabet of that size) — operands whose states are all final: with a
          periodic word the reader of the result keeps Θ(n) current states (quadratic), with distinct symbols one;
      m   200–300            — where the RESULT is inherently quadratic to read: quotients by Σ* (the synchronised
          phase is an ε-chain as long as the operand), star of a unary all-final chain;
      ε-chains 150–250       — the reader's ε-closures are quadratic in them;
      products: rings of 16–22 states, chains of 16–22 symbols (results of 300–2800 states)."""
    def n_(lo, hi):
        return rng.randint(1, 2) if small else rng.randint(lo, hi)
    h1, g1, h2, m1 = n_(1100, 3000) // 2 or 1, n_(1100, 1400) // 2 or 1, n_(1100, 1400) // 3 or 1, n_(200, 300) // 2 or 1
    u, s, v, um = [["ab", h1], ["b", 1]], [["ab", g1], ["b", 1]], [["bba", h2]], [["ab", m1], ["b", 1]]
    ur, sr, vr = [["b", 1], ["ba", h1]], [["b", 1], ["ba", g1]], [["abb", h2]]          # mirror images (none is a palindrome)
    nt = 3 if small else rng.randint(1100, 1500)
    t, tr_ = [["@distinct", nt]], [["@distinct", -nt]]
    th, thr = [["@distinct", nt // 2]], [["@distinct", -(nt // 2)]]
    e1 = 2 if small else rng.randint(150, 250)
    p_, q_ = (2, 3) if small else rng.choice([(16, 17), (19, 20), (21, 22), (17, 19)])
    k = 2 if small else rng.randint(16, 22)
    N = 3 if small else rng.randint(1100, 1600)

    def W(w, **kw):
        return dict(kind="word", w=w, **kw)
    Ss, Sb1 = W(s, names="str"), W(s, base=1)
    Se = W(s, eps=[[0, e1], [g1, e1], [2 * g1 + 1, 2]])
    Ve = W(v, eps=[[1, e1]], names="str")
    Tall = W(t, finals="all")
    ab = ["a", "b"]
    sig = dict(kind="sigma_star", syms=ab)
    out = []

    def add(label, expr, probes):
        out.append((label, dict(expr=expr, probes=probes)))
    # ---- union / |
    add("union", ["union", W(u), W(v)], [u, v, []])
    add("or:eps_chains+str_names", ["or", Se, Ve], [s, v])
    add("union:same_object", ["union", Ss, "same"], [s])
    # ---- concatenate / +
    add("concatenate", ["concatenate", W(u), W(v)], [u + v, u, v + u])
    add("add:all_final", ["add", Tall, W(v, names="str")], [t + v, th + v, v, t])
    add("concatenate:same_object", ["concatenate", Sb1, "same"], [s + s, s, s + s + s])
    add("concatenate:finlang", ["concatenate", dict(kind="finlang", w=s, syms=ab), Ve], [s + v, s])
    fold, parts = W([["ab", k // 2], ["a", 1]]), []
    for i in range(3 if small else 30):                       # 30 results fed into the next concatenation (≈ 1200 states)
        piece = [["ab" if i % 2 else "ba", k], ["b" if i % 3 else "a", 1]]
        fold = ["add", fold, W(piece, names="str" if i % 2 else "int")]
        parts += piece
    add("add:fold_of_30", fold, [[["ab", k // 2], ["a", 1]] + parts, parts])
    # ---- kleene_star
    add("kleene_star", ["kleene_star", W(u)], [u, u + u, u + u + u, []])
    add("kleene_star:str_names+eps", ["kleene_star", Ve], [v + v, v])
    add("kleene_star:all_final_unary", ["kleene_star", W([["a", m1]], finals="all")], [[["a", 2 * m1 + 1]], [["a", m1], ["b", 1]], []])
    add("kleene_star:all_final", ["kleene_star", W(t, finals=[nt // 2, nt])], [t + th + t, th + th, t])
    add("kleene_star:ring", ["kleene_star", dict(kind="cycle", w=s)], [s + s, s, []])
    add("kleene_star:fan", ["kleene_star", dict(kind="fan", n=N)], [[["ab", 3]], [["ab", 1]], []])
    # ---- option
    add("option", ["option", W(u)], [u, []])
    add("option:base1+all_final", ["option", W(t, base=1, finals="all")], [t, th, []])
    add("option:finlang", ["option", dict(kind="finlang", w=v, syms=ab)], [v, []])
    # ---- reverse
    add("reverse", ["reverse", W(u)], [ur, u])
    add("reverse:all_final", ["reverse", Tall], [tr_, thr, t, []])
    add("reverse:eps_chains", ["reverse", Se], [sr, s])
    add("reverse:fan_eps", ["reverse", dict(kind="fan", n=N, eps=True)], [[["b", 1]], [["ab", 1]]])
    add("reverse:ring", ["reverse", dict(kind="cycle", w=s)], [sr + sr, sr, s])
    # ---- intersection / & (work-list over the reachable pairs: linear for two chains)
    add("intersection:same_word", ["intersection", W(u), W(u, names="str")], [u])
    add("intersection:different_words", ["intersection", W(s), W(v)], [s, v, []])
    add("and:word_with_ring", ["and", W([["ab", h1]]), dict(kind="cycle", w=[["ab", 1]])], [[["ab", h1]], [["ab", h1 - 1]]])
    add("intersection:same_object", ["intersection", Sb1, "same"], [s])
    add("and:fan_with_word", ["and", dict(kind="fan", n=N), W([["ab", 1]], names="str")], [[["ab", 1]], [["b", 1]]])
    add("intersection:large_alphabet", ["intersection", Tall, W(t, finals=[nt // 2], names="str")], [th, t])
    add("intersection:eps_chains(product)", ["intersection", W(s, eps=[[0, k], [g1, k]]), W(s, eps=[[1, k]], names="str")], [s])
    add("intersection:coprime_rings(product)", ["intersection", dict(kind="cycle", w=[["a", p_]]), dict(kind="cycle", w=[["a", q_]])],
        [[["a", p_ * q_]], [["a", 2 * p_ * q_]], [["a", p_]], [["a", q_]], []])
    # ---- shuffle_product (all pairs of states)
    add("shuffle_product:long_with_one_symbol", ["shuffle_product", W([["ab", g1 // 2], ["b", 1]]), W([["c", 1]])],
        [[["c", 1], ["ab", g1 // 2], ["b", 1]], [["ab", g1 // 4], ["c", 1], ["ab", g1 // 2 - g1 // 4], ["b", 1]],
         [["ab", g1 // 2], ["b", 1], ["c", 1]], [["ab", g1 // 2], ["b", 1]], [["ab", g1 // 2], ["c", 2], ["b", 1]]])
    add("shuffle_product:product", ["shuffle_product", W([["ab", k // 2], ["b", 1]], finals="all"), W([["c", k]])],
        [[["c", k], ["ab", k // 2], ["b", 1]], [["abc", k // 2], ["c", k - k // 2]], [["ca", 1], ["c", k - 1]], [["c", k - 1]]])
    # ---- right_quotient (|A|·|B| states; ε-elimination of both operands first)
    x2 = [["ba", 1]]
    add("right_quotient:short_divisor", ["right_quotient", W(s + x2), W(x2)], [s, s + x2, []])
    add("right_quotient:by_sigma_star", ["right_quotient", W(um), sig], [um, [["ab", m1 // 2]], []])
    add("right_quotient:fan", ["right_quotient", dict(kind="fan", n=N), W([["b", 1]])], [[["a", 1]], [["ab", 1]], []])
    add("right_quotient:by_empty", ["right_quotient", W(s), dict(kind="empty", syms=ab)], [s, []])
    add("right_quotient:eps_chain", ["right_quotient", W(v + x2, eps=[[3, e1]]), W(x2, finals="all", names="str")],
        [v, v + x2, v + [["b", 1]]])
    y = [["ab", k // 2], ["b", 1]]
    z = [["bba", k // 3 + 1]]
    add("right_quotient:product", ["right_quotient", W(y + z + y), W(z + y, finals=[len(D6.word(y)), len(D6.word(z + y))])],
        [y, y + z, y + z + y])
    # ---- left_quotient
    add("left_quotient:short_divisor", ["left_quotient", W(x2 + s), W(x2)], [s, x2 + s, []])
    add("left_quotient:by_sigma_star", ["left_quotient", W(um), sig], [um, [["ab", m1 // 2], ["b", 1]], [["ba", 1]], []])
    add("left_quotient:fan_eps", ["left_quotient", ["concatenate", dict(kind="fan", n=N, eps=True), W([["ab", 2]])], dict(kind="fan", n=N, eps=True)],
        [[["ab", 2]], [["b", 1], ["ab", 2]], []])
    add("left_quotient:all_final_by_eps_only", ["left_quotient", W(s, finals="all"), dict(kind="eps_only", syms=ab)], [s, [["ab", g1 // 2]], []])
    add("left_quotient:eps_chain", ["left_quotient", W(x2 + v, eps=[[2, e1]], names="str"), W(x2)], [v, x2 + v, [["a", 1]] + v])
    add("left_quotient:product", ["left_quotient", W(y + z + y), W(y + z, finals=[len(D6.word(y)), len(D6.word(y + z))])],
        [y, z + y, y + z + y])
    # ---- results fed into further operations
    add("reverse(concatenate)", ["reverse", ["concatenate", W(s), W(v)]], [vr + sr, s + v])
    add("kleene_star(union)", ["kleene_star", ["union", W(s), W(v, names="str")]], [s + v + s, v + v, [["ab", g1]]])
    add("reverse(reverse)", ["reverse", ["reverse", Sb1]], [s, sr])
    add("option(intersection)", ["option", ["intersection", W(s), Ss]], [s, []])
    add("left_quotient(add)", ["left_quotient", ["add", W(x2), W(s)], W(x2)], [s, x2 + s])
    add("right_quotient(kleene_star)", ["right_quotient", ["kleene_star", W([["ab", m1 // 2], ["b", 1]])], sig],
        [[["ab", m1 // 2], ["b", 1], ["ab", m1 // 4]], [["ab", m1 // 2], ["b", 1], ["ab", m1 // 2], ["b", 1]], [["ab", m1 // 2], ["b", 1], ["a", 2]]])
    return out


def check_deep_case(ctx: Ctx, label: str, case: dict, small: bool):
    ops = list(D6.ops_of(case["expr"]))
    if small:
        # scaled-down twin: every application judged by the ordinary oracles (model correspondence, brute force through
        # the real reader, textbook construction); then the closed form against the endorsed real result on short words
        n0 = ctx.n_prop_fails

        def ev(t):
            if isinstance(t, dict):
                return D6.build(t)
            X_ = ev(t[1])
            Y_ = (X_ if t[2] == "same" else ev(t[2])) if len(t) > 2 else None
            return None if X_ is None or (len(t) > 2 and Y_ is None) else check_op(ctx, t[0], X_, Y_, "deep_twin")
        R = ev(case["expr"])
        if R is None or ctx.n_prop_fails > n0:
            return
        lang = D6.lang_of(case["expr"])
        sigma = sorted(R.input_symbols)
        ws = set(L.words_upto(sigma, L.bound_for(sigma, 300))) | set(D6.probe_words(case))
        for w in ws:
            ctx.stat("deep_twin:closed_form_compared_with_real_result_endorsed_by_the_oracles")
            if R.accepts_input(w) != lang.member(w):
                ctx.stat("deep_twin:closed_form_differs")
                ctx.corr_diff("DEEP oracle", dict(template=label, expr=D6.show_expr(case["expr"]), word=w),
                              R.accepts_input(w), lang.member(w))
                return
        return
    bad, info = D6.run_case(case)
    ctx.case(("deep", label, json.dumps(case["expr"], sort_keys=True)))
    ctx.stat("deep:judged_by_closed_form(no_model_round_trip)")
    ctx.stat("deep:template:" + label)
    for o in set(ops):
        ctx.stat("deep:op_" + o)
    if len(ops) > 1:
        ctx.stat("deep:result_fed_into_further_operation")
    for ns in info["operand_states"]:
        ctx.stat("deep:operand_states:" + ("<10" if ns < 10 else "10-99" if ns < 100 else "100-1099" if ns < 1100 else
                                           "1100-1999" if ns < 2000 else "2000-2999" if ns < 3000 else "≥3000"))
    for ns in info["result_states"][-1:]:
        ctx.stat("deep:result_states:" + ("<300" if ns < 300 else "300-1099" if ns < 1100 else "1100-2999" if ns < 3000 else
                                          "3000-5999" if ns < 6000 else "≥6000"))
    ctx.stat("deep:probe_words", info["probes"])
    ctx.stat("deep:probe_words_in_the_language", info["accepted"])
    ctx.stat("deep:probe_words_not_in_the_language", info["rejected"])
    ctx.stat("deep:deepest_probe_word:" + ("≥3000" if info["deepest"] >= 3000 else "1100-2999" if info["deepest"] >= 1100 else "<1100"))
    if ctx.stats.get("deep:judged_by_closed_form(no_model_round_trip)", 0) % 12 == 1:
        ctx.sample(dict(deep=D6.show_expr(case["expr"])[:600], probes=[D6.show_rle(r) for r in case["probes"]], verdict=bad or "ok",
                        result_states=info["result_states"][-1:]))
    if bad is None:
        return
    again, _ = D6.run_case(case)          # re-confirm on operands built afresh
    if again is None:
        ctx.stat("deep:failure_not_reproduced")
        ctx.corr_diff("DEEP not reproduced", dict(template=label, expr=D6.show_expr(case["expr"])), bad, "ok on a rebuilt object")
        return
    what = f"deep instance [{label}] {D6.show_expr(case['expr'])[:900]}: {again}"
    ctx.prop_fail(what, dict(op="deep", deep=case, template=label, what=what), None)


def deep_family(ctx: Ctx):
    import os
    import sys
    import time
    rng = ctx.rng
    t0 = time.time()
    import gc
    gc.freeze()          # the ~15 000 earlier cases stay out of the collector's way while 10 000-state results are built
    try:
        _deep_family(ctx, rng, t0)
    finally:
        gc.unfreeze()


def _deep_family(ctx: Ctx, rng, t0):
    import os
    import sys
    import time
    try:
        ctx.stat("deep:closed_form_selftest_comparisons", D6.selftest())
    except AssertionError as e:
        raise InfraError(f"deep family: closed form wrong on a small instance: {e}")
    for small in (True,) + (False,) * ctx.budget(1, 4):       # thorough: four draws of the sizes
        for label, case in deep_templates(rng, small):
            check_deep_case(ctx, label, case, small)
        if os.environ.get("VERIF_DEEP_TIMING"):
            print(f"deep family C08: {'twins' if small else 'deep instances'} done at {time.time() - t0:.2f} s", file=sys.stderr)
    # named exclusions (measured on the unchanged tree; in-domain, but outside the time budget of a quick run)
    ctx.stat("deep:excluded:shuffle_product_and_quotients_of_TWO_operands_with_≥1100_states(result_has_≥10^6_states)")
    ctx.stat("deep:excluded:ε-chains_longer_than_250_and_intersection_of_two_long_ε-chains(quadratic_closures/quadratically_many_pairs)")
    ctx.stat("deep:excluded:quotient_by_Σ*_and_star_of_a_unary_all-final_chain_above_400_states(result_inherently_quadratic_to_read)")


def run(ctx: Ctx):
    rng = ctx.rng
    thorough = ctx.thorough()
    # 0. corpus
    for op, A, B in corpus():
        check_op(ctx, op, A, B, "corpus")
    # 1. bounded-exhaustive
    ones = list(gen.all_nfas(1, ("a",)))
    for A in ones:
        for op in UNARY:
            check_op(ctx, op, A, None, "exhaustive")
        for B in ones:
            for op in ALL_BINARY:
                check_op(ctx, op, A, B, "exhaustive")
    ctx.exhaustive("all pairs of 1-state NFAs over {a} (ε-loops, empty target sets, all final sets) × all 9 operations + 3 operators")
    twos = list(gen.all_nfas(2, ("a",)))
    step = 1 if thorough else 3
    for i, A in enumerate(twos):
        if i % step == 0:
            for op in UNARY:
                check_op(ctx, op, A, None, "exhaustive")
    ctx.exhaustive(("all" if thorough else "every 3rd of the") + " 2-state NFAs over {a} with ε × kleene_star, option, reverse")
    ones_ab = list(gen.all_nfas(1, ("a", "b")))
    for A in (twos[::5] if thorough else twos[::40]):
        for B in (ones_ab if thorough else ones_ab[::3]):
            for op in BINARY:
                check_op(ctx, op, A, B, "exhaustive_mixed")
                if thorough and op in ("concatenate", "right_quotient", "left_quotient"):
                    check_op(ctx, op, B, A, "exhaustive_mixed")
    # 2. shaped random pairs
    for _ in range(ctx.budget(800, 20000)):
        fam, A, B = random_pair(rng, 4 if rng.random() < 0.8 else 5)
        ctx.stat("family_" + fam)
        for op in rng.sample(ALL_BINARY, 3):
            check_op(ctx, op, A, B, "random")
        op = rng.choice(UNARY)
        check_op(ctx, op, A, None, "random")
    # 2b. the SAME OBJECT on both sides: A + A, A & A, A.union(A), … (overlapping names in the extreme,
    #     shared caches of the one object)
    for A in ones + twos[::(9 if thorough else 60)]:
        for op in ALL_BINARY:
            check_op(ctx, op, A, A, "same_object_exhaustive")
    ctx.exhaustive("(op, A, A) with the same object on both sides: all 1-state NFAs over {a} and "
                   + ("every 9th" if thorough else "every 60th") + " 2-state NFA over {a} × 6 binary operations + 3 operators")
    for _ in range(ctx.budget(120, 3000)):
        alpha = list(rng.choice(gen.ALPHABETS))
        q = rng.random()
        A = (dense_nfa(rng, alpha) if q < 0.35 else L.degenerate_nfa(rng, alpha)[1] if q < 0.45
             else more_finals(rng, gen.rand_nfa(rng, 4, alphabet=alpha)))
        if rng.random() < 0.2:
            A = L.with_junk_rows(rng, A)
        for op in rng.sample(ALL_BINARY, 4):
            check_op(ctx, op, A, A, "same_object")
    # 2c. empty-alphabet operands (against each other and against ordinary operands)
    for _ in range(ctx.budget(60, 1500)):
        A = empty_alphabet_nfa(rng)
        B = empty_alphabet_nfa(rng) if rng.random() < 0.5 else gen.rand_nfa(rng, 3, alphabet=rng.choice(gen.ALPHABETS[:3]))
        if rng.random() < 0.5:
            A, B = B, A
        for op in rng.sample(ALL_BINARY, 3):
            check_op(ctx, op, A, B, "empty_alphabet")
        for X in (A, B):
            if not X.input_symbols:
                check_op(ctx, rng.choice(UNARY), X, None, "empty_alphabet")
    # 3. compositions
    for _ in range(ctx.budget(350, 8000)):
        random_tree(ctx, rng, 3)
    # 3b. round 4: state names equal across types (0 == 0.0 == False == Fraction(0))
    cross_type_names_family(ctx, ctx.budget(90, 600))
    # 4. round 4: the mutable-automata option — sequences of operations on the same live objects
    mutable_option_family(ctx, ctx.budget(120, 600))
    # 5. round 6: deep / large instances (closed-form oracle)
    deep_family(ctx)
    report_budget(ctx)


def report_budget(ctx: Ctx):
    n = ctx.stats.get("equiv_budget", 0)
    if n:
        ctx.note(f"all-lengths equivalence oracle (b) ran out of budget (60000 subset pairs) on {n} case(s): on them the "
                 f"language clause was evaluated by oracle (a) only (all words up to the bound through the real reader)")


def search(ctx: Ctx):
    """Deeper failing-input search (called when an obligation or the correspondence is broken
    and run() found no property failure): more and larger random operands and trees, every
    real result judged by the independent oracles."""
    rng = ctx.rng
    for _ in range(ctx.budget(400, 6000)):
        fam, A, B = random_pair(rng, 5)
        for op in ALL_BINARY:
            check_op(ctx, op, A, B, "search")
        for op in UNARY:
            check_op(ctx, op, A, None, "search")
            check_op(ctx, op, B, None, "search")
        if ctx.n_prop_fails:
            return
    for _ in range(ctx.budget(150, 3000)):
        random_tree(ctx, rng, 3)
        if ctx.n_prop_fails:
            return
    mutable_option_family(ctx, ctx.budget(600, 4000))
    if not ctx.n_prop_fails:
        cross_type_names_family(ctx, ctx.budget(600, 4000))


def replay(ctx: Ctx, path: str) -> int:
    data = json.load(open(path))
    rp = data.get("replay", data)
    env = dict({"NFA": NFA, "frozenset": frozenset, "frozendict": dict}, **X.EVAL_ENV)
    if rp.get("op") == "deep":
        check_deep_case(ctx, rp.get("template", "replay"), rp["deep"], False)
    elif rp.get("op") == "mutable_sequence":
        run_mutable_sequence(ctx, [eval(x, env) for x in rp["objs"]], rp["mode"], rp["steps"], "replay")
    else:
        A = eval(rp["A"], env)
        B = eval(rp["B"], env) if rp.get("B") else None
        check_op(ctx, rp["op"], A, B, "replay")
    if ctx.prop_fails:
        print(f"VIOLATION property=C08 replay={path}")
        print("  " + ctx.prop_fails[0]["what"])
        return 1
    print("replay: property holds on this input now")
    return 0
